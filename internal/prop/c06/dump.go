package c06

import (
	"bytes"
	"encoding/hex"
	"fmt"
	"math/big"
	"sort"

	"gitlab.com/aquachain/aquachain/common"
	"gitlab.com/aquachain/aquachain/core/state"
	"verif/internal/ref/refhash"
	"verif/internal/ref/refrlp"
	"verif/internal/ref/reftrie"
)

// acct is one account of a state dump.
type acct struct {
	Nonce   uint64
	Bal     *big.Int
	Code    []byte
	Storage map[string]string // hex slot -> hex of the stored (RLP) value
}

func (a *acct) empty() bool {
	return a == nil || (a.Nonce == 0 && a.Bal.Sign() == 0 && len(a.Code) == 0)
}

type dumpT map[common.Address]*acct

var zeroAcct = &acct{Bal: new(big.Int), Storage: map[string]string{}}

// get returns the account or the all-zero account if absent.
func (d dumpT) get(a common.Address) *acct {
	if x := d[a]; x != nil {
		return x
	}
	return zeroAcct
}

func sameAcct(a, b *acct) bool {
	if a.Nonce != b.Nonce || a.Bal.Cmp(b.Bal) != 0 || !bytes.Equal(a.Code, b.Code) || len(a.Storage) != len(b.Storage) {
		return false
	}
	for k, v := range a.Storage {
		if b.Storage[k] != v {
			return false
		}
	}
	return true
}

// dumpLive commits a copy of a live StateDB (the original is left as it is) and
// reads back the whole committed content.
func dumpLive(st *state.StateDB, deleteEmpty bool) (dumpT, common.Hash, error) {
	cp := st.Copy()
	root, err := cp.Commit(deleteEmpty)
	if err != nil {
		return nil, root, err
	}
	st2, err := state.New(root, cp.Database())
	if err != nil {
		return nil, root, err
	}
	raw := st2.RawDump()
	d := dumpT{}
	for k, v := range raw.Accounts {
		if len(k) != 40 {
			return nil, root, fmt.Errorf("dump entry without address preimage (%q)", k)
		}
		bal, ok := new(big.Int).SetString(v.Balance, 10)
		if !ok {
			return nil, root, fmt.Errorf("bad balance %q", v.Balance)
		}
		code, _ := hex.DecodeString(v.Code)
		for sk := range v.Storage {
			if len(sk) != 64 {
				return nil, root, fmt.Errorf("storage entry without slot preimage (%q)", sk)
			}
		}
		d[common.HexToAddress(k)] = &acct{Nonce: v.Nonce, Bal: bal, Code: code, Storage: v.Storage}
	}
	return d, root, nil
}

// refStateRoot: the state root of a dump by the yellow-paper definition, with
// the reference trie, RLP and hash: leaves keccak(address) -> rlp(nonce, balance,
// storageRoot, keccak(code)), storage leaves keccak(slot) -> stored value.
func refStateRoot(d dumpT) []byte {
	m := map[string][]byte{}
	for a, x := range d {
		sm := map[string][]byte{}
		for k, v := range x.Storage {
			kb, _ := hex.DecodeString(k)
			vb, _ := hex.DecodeString(v)
			sm[string(refhash.Keccak256(kb))] = vb
		}
		sroot := reftrie.Root(sm)
		enc := refrlp.Encode(refrlp.L(refrlp.U(x.Nonce), refrlp.B(x.Bal), refrlp.S(sroot), refrlp.S(refhash.Keccak256(x.Code))))
		m[string(refhash.Keccak256(a.Bytes()))] = enc
	}
	return reftrie.Root(m)
}

// diffAddrs lists the addresses whose account differs between two dumps
// (presence counts).
func diffAddrs(a, b dumpT) []common.Address {
	var out []common.Address
	for k, x := range a {
		y, ok := b[k]
		if !ok || !sameAcct(x, y) {
			out = append(out, k)
		}
	}
	for k := range b {
		if _, ok := a[k]; !ok {
			out = append(out, k)
		}
	}
	sort.Slice(out, func(i, j int) bool { return bytes.Compare(out[i][:], out[j][:]) < 0 })
	return out
}

func sumBalances(d dumpT) *big.Int {
	s := new(big.Int)
	for _, x := range d {
		s.Add(s, x.Bal)
	}
	return s
}

func describeAcct(x *acct, present bool) string {
	if !present {
		return "absent"
	}
	return fmt.Sprintf("{nonce %d balance %v code %dB storage %d}", x.Nonce, x.Bal, len(x.Code), len(x.Storage))
}
