package c06

import (
	"bytes"
	"context"
	"encoding/hex"
	"fmt"
	"math/big"
	"strings"

	"gitlab.com/aquachain/aquachain/aquadb"
	"gitlab.com/aquachain/aquachain/common"
	"gitlab.com/aquachain/aquachain/consensus/aquahash"
	"gitlab.com/aquachain/aquachain/consensus/misc"
	"gitlab.com/aquachain/aquachain/core"
	"gitlab.com/aquachain/aquachain/core/state"
	"gitlab.com/aquachain/aquachain/core/types"
	"gitlab.com/aquachain/aquachain/core/vm"
	"gitlab.com/aquachain/aquachain/params"
	"gitlab.com/aquachain/aquachain/rlp"
	"verif/internal/fw"
	"verif/internal/gen"
	"verif/internal/ref/refhash"
	"verif/internal/ref/refrlp"
	"verif/internal/ref/refsig"
	"verif/internal/ref/reftrie"
)

// env: one world, one real BlockChain (archive mode, fake seal check only) that
// every built block is imported into, and the dump of the state at its head.
type env struct {
	c       *fw.Ctx
	r       *fw.Rand
	w       *world
	cfg     *params.ChainConfig
	cfgName string
	db      *aquadb.MemDatabase
	bc      *core.BlockChain
	model   dumpT
	built   []*types.Block
	broken  bool // a step the harness cannot continue after (reported where it happened)
	fresh   uint64
	txCount int
	// reserved: senders the random generator must leave alone (a scenario needs
	// their nonce and balance exactly as planned)
	reserved map[common.Address]bool
}

func cfgByName(n string) *params.ChainConfig {
	switch n {
	case "prebyz":
		return gen.ConfigPreByzantium()
	case "versions":
		return gen.ConfigVersions()
	default:
		return gen.ConfigTest()
	}
}

func newEnv(c *fw.Ctx, r *fw.Rand, cfgName string) *env {
	cfg := cfgByName(cfgName)
	w := newWorld(r.Fork("world"), cfg)
	db, g := w.NewDB()
	bc, err := core.NewBlockChain(context.Background(), db, &core.CacheConfig{Disabled: true}, cfg, aquahash.NewFaker(), vm.Config{})
	if err != nil {
		panic(err)
	}
	e := &env{c: c, r: r, w: w, cfg: cfg, cfgName: cfgName, db: db, bc: bc, reserved: map[common.Address]bool{}}
	st, err := state.New(g.Root(), state.NewDatabase(db))
	if err != nil {
		panic(err)
	}
	d, _, err := dumpLive(st, false)
	if err != nil {
		panic(err)
	}
	e.model = d
	return e
}

func (e *env) close() { e.bc.Stop() }

func (e *env) freshAddr() common.Address {
	var a common.Address
	copy(a[:], e.r.Bytes(20))
	a[0] = 0xee
	e.fresh++
	return a
}

// blk is a block under construction: the steps of StateProcessor.Process done
// one at a time with the exported functions the processor itself uses.
type blk struct {
	e         *env
	parent    *types.Block
	header    *types.Header
	st        *state.StateDB
	gp        *core.GasPool
	txs       []*types.Transaction
	receipts  []*types.Receipt
	kinds     []string
	cum       uint64 // sum of the gas of the receipts so far (this check's own sum)
	sumLimits uint64 // sum of the gas limits of the transactions so far
	cur       dumpT  // committed content after the last step
	byz       bool
	eip158    bool
	num       uint64
	// existing empty accounts that were touched inside a frame that was rolled back
	revTouch map[common.Address]bool
}

const (
	causeTouchedCoinbase = "empty_coinbase_touched_in_reverted_frame"
	causeTouchedSender   = "empty_sender_touched_in_reverted_frame"
)

func (e *env) begin(coinbase common.Address, limitDelta int64) *blk {
	parent := e.bc.CurrentBlock()
	num := new(big.Int).Add(parent.Number(), common.Big1)
	tm := new(big.Int).Add(parent.Time(), big.NewInt(240))
	eng := e.bc.Engine()
	limit := core.CalcGasLimit(parent)
	if limitDelta != 0 {
		// stay strictly inside the header rule |limit - parent| < parent/1024
		bound := int64(parent.GasLimit()/params.GasLimitBoundDivisor) - 1
		nl := int64(limit) + limitDelta
		if d := nl - int64(parent.GasLimit()); d < bound && d > -bound && nl > int64(params.MinGasLimit) {
			limit = uint64(nl)
		}
	}
	h := &types.Header{
		ParentHash: parent.Hash(),
		Coinbase:   coinbase,
		Difficulty: eng.CalcDifficulty(e.bc, tm.Uint64(), parent.Header(), nil),
		GasLimit:   limit,
		Number:     num,
		Time:       tm,
		Version:    e.cfg.GetBlockVersion(num),
	}
	st, err := state.New(parent.Root(), state.NewDatabase(e.db))
	if err != nil {
		panic(err)
	}
	b := &blk{e: e, parent: parent, header: h, st: st, gp: new(core.GasPool).AddGas(limit), cur: e.model,
		byz: e.cfg.IsByzantium(num), eip158: e.cfg.IsEIP158(num), num: num.Uint64(), revTouch: map[common.Address]bool{}}
	hf := false
	if hf4 := e.cfg.GetHF(4); hf4 != nil && hf4.Cmp(num) == 0 {
		misc.ApplyHardFork4(st)
		hf = true
	}
	if hf5 := e.cfg.GetHF(5); hf5 != nil && hf5.Cmp(num) == 0 {
		misc.ApplyHardFork5(st)
		hf = true
	}
	if hf {
		d, _, err := dumpLive(st, b.eip158)
		if err != nil {
			panic(err)
		}
		b.cur = d
	}
	return b
}

func (b *blk) gasLeft() uint64 { return b.header.GasLimit - b.cum }

// refIntrinsic: 21000, or 53000 for a creation, plus 4 per zero byte and 68 per
// non-zero byte of data.
func refIntrinsic(data []byte, create bool) uint64 {
	g := uint64(21000)
	if create {
		g = 53000
	}
	for _, x := range data {
		if x == 0 {
			g += 4
		} else {
			g += 68
		}
	}
	return g
}

// refValid is the property's acceptance predicate for a transaction at the
// current position, evaluated on the dump and this check's own gas sum.
func (b *blk) refValid(p *plan) (bool, string) {
	a := b.cur.get(p.S.Addr)
	if p.Nonce != a.Nonce {
		if p.Nonce > a.Nonce {
			return false, "nonce_too_high"
		}
		return false, "nonce_too_low"
	}
	need := new(big.Int).Mul(new(big.Int).SetUint64(p.Gas), p.Price)
	if a.Bal.Cmp(need) < 0 {
		return false, "cannot_prepay_gas"
	}
	if p.Gas > b.gasLeft() {
		return false, "gas_limit_above_block_rest"
	}
	if p.Gas < refIntrinsic(p.Data, p.To == nil) {
		return false, "gas_limit_below_intrinsic"
	}
	if new(big.Int).Sub(a.Bal, need).Cmp(p.Value) < 0 {
		return false, "cannot_pay_value_after_gas"
	}
	return true, ""
}

func (b *blk) sign(p *plan) *types.Transaction {
	var tx *types.Transaction
	if p.To == nil {
		tx = types.NewContractCreation(p.Nonce, p.Value, p.Gas, p.Price, p.Data)
	} else {
		tx = types.NewTransaction(p.Nonce, *p.To, p.Value, p.Gas, p.Price, p.Data)
	}
	s, err := types.SignTx(tx, b.e.w.Signer(b.header.Number), p.S.Key)
	if err != nil {
		panic(err)
	}
	return s
}

// dry executes the plan on copies and returns intrinsic + execution gas as the
// tracer saw it (used only to choose gas limits, never as an oracle).
func (b *blk) dry(p *plan) (uint64, bool) {
	tx := b.sign(p)
	stc := b.st.Copy()
	gpc := *b.gp
	hc := types.CopyHeader(b.header)
	tr := newTracer()
	stc.Prepare(tx.Hash(), common.Hash{}, len(b.txs))
	rc, _, err := core.ApplyTransaction(b.e.cfg, b.e.bc, nil, &gpc, stc, hc, tx, &hc.GasUsed, vm.Config{Debug: true, Tracer: tr})
	if err != nil {
		return 0, false
	}
	in := refIntrinsic(p.Data, p.To == nil)
	if tr.ended {
		return in + tr.execGas, true
	}
	if rc.Status == types.ReceiptStatusFailed {
		return p.Gas, true
	}
	return in, true
}

// tryInvalid runs a transaction the reference predicate rejects on copies of the
// live state, pool and header: core.ApplyTransaction must return an error.
func (b *blk) tryInvalid(p *plan) {
	c := b.e.c
	ok, why := b.refValid(p)
	if ok {
		return
	}
	tx := b.sign(p)
	stc := b.st.Copy()
	gpc := *b.gp
	hc := types.CopyHeader(b.header)
	stc.Prepare(tx.Hash(), common.Hash{}, len(b.txs))
	_, _, err := core.ApplyTransaction(b.e.cfg, b.e.bc, nil, &gpc, stc, hc, tx, &hc.GasUsed, vm.Config{})
	c.Count("invalid_apply_" + why)
	if p.Exactly {
		c.Count("invalid_apply_off_by_one_" + why)
	}
	if err == nil {
		c.ViolateInput("invalid_tx_accepted", "ApplyTransaction", why,
			fmt.Sprintf("block %d (%s) position %d: transaction (%s) that %s was executed without error", b.num, b.e.cfgName, len(b.txs), p.describe(), strings.ReplaceAll(why, "_", " ")),
			b.witness(p, tx, nil, nil, nil))
	}
}

// apply executes a plan the reference predicate accepts and judges the result.
// Returns false when the block cannot be continued.
func (b *blk) apply(p *plan) bool {
	c, e := b.e.c, b.e
	if ok, why := b.refValid(p); !ok {
		panic(fmt.Sprintf("generator produced a plan the reference rejects (%s): %s", why, p.describe()))
	}
	tx := b.sign(p)
	pre := b.cur
	tr := newTracer()
	b.st.Prepare(tx.Hash(), common.Hash{}, len(b.txs))
	rc, _, err := core.ApplyTransaction(e.cfg, e.bc, nil, b.gp, b.st, b.header, tx, &b.header.GasUsed, vm.Config{Debug: true, Tracer: tr})
	e.txCount++
	if err != nil && b.revTouch[p.S.Addr] {
		// the live state and the committed state of this sender have diverged
		// (see causeTouchedSender): the nonce it shows to ApplyTransaction is not
		// the one the state root commits to
		c.ViolateInput("valid_tx_rejected", "tx", causeTouchedSender,
			fmt.Sprintf("block %d (%s) position %d: %s is valid against the committed state but ApplyTransaction returned %q", b.num, e.cfgName, len(b.txs), p.describe(), err),
			b.witness(p, tx, nil, nil, tr))
		e.broken = true
		return false
	}
	if err != nil {
		c.ViolateInput("valid_tx_rejected", p.op(), b.boundary(p),
			fmt.Sprintf("block %d (%s) position %d: %s satisfies nonce, prepayment, value, intrinsic-gas and block-gas conditions but ApplyTransaction returned %q", b.num, e.cfgName, len(b.txs), p.describe(), err),
			b.witness(p, tx, nil, nil, tr))
		e.broken = true
		return false
	}
	post, root, derr := dumpLive(b.st, b.eip158)
	if derr != nil {
		c.Inconclusive("state_unreadable")
		c.Note("dump failed: %v", derr)
		e.broken = true
		return false
	}
	b.judge(p, tx, rc, tr, pre, post, root)
	b.txs = append(b.txs, tx)
	b.receipts = append(b.receipts, rc)
	b.kinds = append(b.kinds, p.Kind)
	b.cum += rc.GasUsed
	b.sumLimits += p.Gas
	b.cur = post
	return true
}

// boundary names the edge of validity a plan sits on (the cause of a wrongly
// refused transaction), or its template when it is well inside.
func (b *blk) boundary(p *plan) string {
	a := b.cur.get(p.S.Addr)
	need := new(big.Int).Mul(new(big.Int).SetUint64(p.Gas), p.Price)
	switch {
	case a.Bal.Sign() > 0 && a.Bal.Cmp(need) == 0:
		return "balance_equals_prepayment"
	case a.Bal.Sign() > 0 && new(big.Int).Add(need, p.Value).Cmp(a.Bal) == 0:
		return "balance_equals_prepayment_plus_value"
	case p.Gas == b.gasLeft():
		return "gas_limit_equals_block_rest"
	case p.Gas == refIntrinsic(p.Data, p.To == nil):
		return "gas_limit_equals_intrinsic"
	case p.Gas > b.header.GasLimit-b.sumLimits:
		return "gas_limit_above_block_limit_minus_earlier_limits"
	}
	return p.Kind
}

type txWitness struct {
	Config    string   `json:"config"`
	Block     uint64   `json:"block"`
	Position  int      `json:"position"`
	Byzantium bool     `json:"byzantium"`
	EIP158    bool     `json:"eip158"`
	Coinbase  string   `json:"coinbase"`
	GasLimitB uint64   `json:"block_gas_limit"`
	GasBefore uint64   `json:"gas_used_before"`
	Kind      string   `json:"kind"`
	GasMode   string   `json:"gas_mode,omitempty"`
	ValMode   string   `json:"value_mode,omitempty"`
	Sender    string   `json:"sender"`
	SenderPre string   `json:"sender_before,omitempty"`
	CoinPre   string   `json:"coinbase_before,omitempty"`
	SenderPo  string   `json:"sender_after,omitempty"`
	CoinPo    string   `json:"coinbase_after,omitempty"`
	TxRLP     string   `json:"tx_rlp"`
	Plan      string   `json:"tx"`
	Receipt   string   `json:"receipt,omitempty"`
	Tracer    string   `json:"tracer,omitempty"`
	Earlier   []string `json:"earlier_tx_kinds_in_block,omitempty"`
}

func (b *blk) witness(p *plan, tx *types.Transaction, pre, post dumpT, tr *tracer) *txWitness {
	enc, _ := rlp.EncodeToBytes(tx)
	w := &txWitness{Config: b.e.cfgName, Block: b.num, Position: len(b.txs), Byzantium: b.byz, EIP158: b.eip158, Coinbase: b.header.Coinbase.Hex(),
		GasLimitB: b.header.GasLimit, GasBefore: b.cum, Kind: p.Kind, GasMode: p.GasMode, ValMode: p.ValMode, Sender: p.S.Addr.Hex(),
		TxRLP: hex.EncodeToString(enc), Plan: p.describe(), Earlier: append([]string{}, b.kinds...)}
	if pre == nil {
		pre = b.cur
	}
	x, ok := pre[p.S.Addr]
	w.SenderPre = describeAcct(x, ok)
	x, ok = pre[b.header.Coinbase]
	w.CoinPre = describeAcct(x, ok)
	if post != nil {
		x, ok = post[p.S.Addr]
		w.SenderPo = describeAcct(x, ok)
		x, ok = post[b.header.Coinbase]
		w.CoinPo = describeAcct(x, ok)
	}
	if tr != nil {
		w.Tracer = fmt.Sprintf("started=%v ended=%v exec_gas=%d err=%v steps=%d model_refund=%d earning_ops=%d sstore=%d log=%d value_call=%d create=%d selfdestruct=%d inner_failed=%d",
			tr.started, tr.ended, tr.execGas, tr.err, tr.steps, tr.refund, tr.earning, tr.sstores, tr.logs, tr.valueCalls, tr.creates, tr.suicides, tr.innerFail)
	}
	return w
}

var ripemdAddr = common.HexToAddress("0x0000000000000000000000000000000000000003")

// judge: the per-transaction equations of the property.
func (b *blk) judge(p *plan, tx *types.Transaction, rc *types.Receipt, tr *tracer, pre, post dumpT, liveRoot common.Hash) {
	c, e := b.e.c, b.e
	S, C := p.S.Addr, b.header.Coinbase
	op, cause := p.op(), p.Kind
	wit := b.witness(p, tx, pre, post, tr)
	wit.Receipt = fmt.Sprintf("status=%d gas_used=%d cumulative=%d logs=%d post_state=%x", rc.Status, rc.GasUsed, rc.CumulativeGasUsed, len(rc.Logs), rc.PostState)
	where := fmt.Sprintf("block %d (%s) position %d, %s", b.num, e.cfgName, len(b.txs), p.describe())
	bad := func(clause, detail string) { c.ViolateInput(clause, op, cause, where+": "+detail, wit) }
	// An account that exists empty and received a zero-value transfer inside a
	// frame that was then rolled back (in this transaction or earlier in this
	// block): what happens to it afterwards in the block is a separate, known
	// shape and gets its own cause.
	for _, a := range tr.revTouched {
		if x, ok := pre[a]; ok && x.empty() {
			if !b.revTouch[a] {
				c.Count("existing_empty_account_touched_in_reverted_frame")
			}
			b.revTouch[a] = true
		}
	}
	badSender := func(clause, detail string) {
		if b.revTouch[S] {
			c.ViolateInput(clause, "tx", causeTouchedSender, where+": "+detail, wit)
			return
		}
		bad(clause, detail)
	}
	badCoinbase := func(clause, detail string, lost *big.Int) {
		if b.revTouch[C] && lost != nil && lost.Sign() > 0 {
			c.ViolateInput(clause, "tx", causeTouchedCoinbase, where+": "+detail, wit)
			return
		}
		bad(clause, detail)
	}
	failed := rc.Status == types.ReceiptStatusFailed
	c.Count("tx_judged")
	if b.byz {
		c.Count("tx_judged_byzantium")
	} else {
		c.Count("tx_judged_pre_byzantium")
	}
	c.Count("pos_" + fmt.Sprint(min(len(b.txs), 6)))

	// --- nonce
	if got, want := post.get(S).Nonce, pre.get(S).Nonce+1; got != want {
		badSender("sender_nonce_not_incremented_by_one", fmt.Sprintf("sender nonce %d -> %d", pre.get(S).Nonce, got))
	}

	// --- gas bounds
	intr := refIntrinsic(p.Data, p.To == nil)
	g := rc.GasUsed
	if g < intr {
		// after a refund the reported gas may lie below the intrinsic cost (yellow
		// paper: refund up to half of what was consumed); without a refund-earning
		// operation it may not. The refund itself is bounded below.
		if tr.earning == 0 {
			bad("gas_used_below_intrinsic", fmt.Sprintf("gasUsed %d < intrinsic %d and no refund was earned", g, intr))
		} else {
			c.Count("gas_used_below_intrinsic_after_refund")
		}
	}
	if g > p.Gas {
		bad("gas_used_above_limit", fmt.Sprintf("gasUsed %d > gas limit %d", g, p.Gas))
	}
	// consumed gas before the refund
	var consumed uint64
	switch {
	case tr.ended:
		consumed = intr + tr.execGas
		if (tr.err != nil) != failed {
			bad("receipt_status_contradicts_execution", fmt.Sprintf("receipt status %d, EVM error %v", rc.Status, tr.err))
		}
	case failed:
		// the EVM refused before starting a frame (occupied creation address): everything is consumed
		consumed = p.Gas
		c.Count("failed_without_frame")
	default:
		consumed = intr
		c.Count("succeeded_without_frame")
	}
	if consumed > p.Gas {
		bad("gas_consumed_above_limit", fmt.Sprintf("intrinsic %d + execution %d > gas limit %d", intr, tr.execGas, p.Gas))
	}
	if g > consumed {
		bad("gas_used_above_consumed", fmt.Sprintf("gasUsed %d > intrinsic %d + execution %d", g, intr, consumed-intr))
	} else {
		refund := consumed - g
		half := consumed / 2
		if refund > half {
			bad("refund_above_half_of_consumed", fmt.Sprintf("consumed %d, gasUsed %d: refund %d > cap %d (model refund counter %d)", consumed, g, refund, half, tr.refund))
		}
		if tr.earning == 0 && refund != 0 {
			bad("refund_without_refund_earning_operation", fmt.Sprintf("consumed %d, gasUsed %d, no SSTORE-clear or SELFDESTRUCT executed", consumed, g))
		}
		if failed && refund != 0 {
			bad("refund_on_failed_execution", fmt.Sprintf("consumed %d, gasUsed %d", consumed, g))
		}
		if !tr.uncertain {
			want := tr.refund
			if want > half {
				want = half
			}
			if refund != want {
				bad("refund_not_min_of_cap_and_counter", fmt.Sprintf("consumed %d, gasUsed %d: refund %d, expected min(cap %d, counter %d)", consumed, g, refund, half, tr.refund))
			}
			if tr.refund > 0 {
				if tr.refund > half {
					c.Count("refund_at_cap")
					if tr.refund > consumed {
						c.Count("refund_counter_above_consumed")
					}
				} else if tr.refund == half {
					c.Count("refund_equals_cap")
				} else {
					c.Count("refund_below_cap")
				}
			}
		} else {
			c.Count("refund_model_uncertain")
		}
	}

	// --- cumulative gas and block limit
	if rc.CumulativeGasUsed != b.cum+g {
		bad("cumulative_gas_not_sum_of_receipts", fmt.Sprintf("cumulative %d, sum of receipt gas %d", rc.CumulativeGasUsed, b.cum+g))
	}
	if b.cum+g > b.header.GasLimit {
		bad("cumulative_gas_above_block_limit", fmt.Sprintf("sum %d > block gas limit %d", b.cum+g, b.header.GasLimit))
	}
	if b.header.GasUsed != b.cum+g {
		bad("cumulative_gas_not_sum_of_receipts", fmt.Sprintf("running block gas %d, sum of receipt gas %d", b.header.GasUsed, b.cum+g))
	}

	// --- receipt format
	enc, err := rlp.EncodeToBytes(rc)
	if err != nil {
		bad("receipt_format_wrong", "receipt does not encode: "+err.Error())
	} else if it, derr := refrlp.Decode(enc); derr != nil || !it.IsList || len(it.List) != 4 || it.List[0].IsList {
		bad("receipt_format_wrong", fmt.Sprintf("consensus encoding is not a 4-item list: %x", enc))
	} else {
		first := it.List[0].Str
		if b.byz {
			want := []byte{1}
			if failed {
				want = nil
			}
			if !bytes.Equal(first, want) || len(rc.PostState) != 0 {
				bad("receipt_format_wrong", fmt.Sprintf("Byzantium receipt: first field %x, status %d", first, rc.Status))
			}
		} else {
			if len(first) != 32 {
				bad("receipt_format_wrong", fmt.Sprintf("pre-Byzantium receipt: first field %x is not a 32-byte state root", first))
			} else {
				ref := refStateRoot(post)
				c.Count("intermediate_root_compared")
				if !bytes.Equal(first, ref) {
					bad("receipt_root_not_state_after_tx", fmt.Sprintf("receipt root %x, reference root of the state after the transaction %x (live %x)", first, ref, liveRoot))
				}
			}
		}
	}

	// --- balances
	fee := new(big.Int).Mul(new(big.Int).SetUint64(g), p.Price)
	exp := map[common.Address]*big.Int{}
	addTo := func(a common.Address, v *big.Int) {
		if exp[a] == nil {
			exp[a] = new(big.Int)
		}
		exp[a].Add(exp[a], v)
	}
	addTo(S, new(big.Int).Neg(fee))
	addTo(C, fee)
	var R common.Address
	if p.To != nil {
		R = *p.To
	} else {
		R = refCreateAddress(S, p.Nonce)
	}
	if !failed {
		addTo(S, new(big.Int).Neg(p.Value))
		addTo(R, p.Value)
	}
	delta := func(a common.Address) *big.Int { return new(big.Int).Sub(post.get(a).Bal, pre.get(a).Bal) }
	aliased := S == C || S == R || C == R
	calleePays := p.MayPay || (p.Blob && tr.calls+tr.creates+tr.suicides > 0)
	if failed || !calleePays {
		if d := delta(S); d.Cmp(exp[S]) != 0 {
			clause := "sender_charge_wrong"
			if failed && new(big.Int).Add(d, p.Value).Cmp(exp[S]) == 0 && p.Value.Sign() != 0 {
				clause = "value_taken_though_execution_failed"
			}
			badSender(clause, fmt.Sprintf("sender balance changed by %v, expected %v (gasUsed %d x price %v = %v, value %v, status %d)", d, exp[S], g, p.Price, fee, p.Value, rc.Status))
		}
		if S != C {
			if d := delta(C); d.Cmp(exp[C]) != 0 {
				var lost *big.Int
				if d.Sign() == 0 {
					lost = exp[C]
				}
				badCoinbase("coinbase_credit_wrong", fmt.Sprintf("coinbase balance changed by %v, expected %v (gasUsed %d x price %v, status %d)", d, exp[C], g, p.Price, rc.Status), lost)
			}
		}
		if aliased {
			c.Count("aliased_roles_exact")
		} else {
			c.Count("disjoint_roles_exact")
		}
	} else {
		// the callee may legitimately move funds into or out of the sender or
		// coinbase: conservation over all accounts instead
		s0, s1 := sumBalances(pre), sumBalances(post)
		c.Count("callee_pays_role_conservation")
		if tr.suicides == 0 {
			if s0.Cmp(s1) != 0 {
				var lost *big.Int
				if s0.Cmp(s1) > 0 && delta(C).Sign() == 0 {
					lost = new(big.Int).Sub(s0, s1)
				}
				badCoinbase("role_set_not_conserved", fmt.Sprintf("sum of balances %v -> %v with no self-destruct", s0, s1), lost)
			}
		} else if s1.Cmp(s0) > 0 {
			bad("role_set_not_conserved", fmt.Sprintf("sum of balances rose %v -> %v", s0, s1))
		}
	}
	bal := pre.get(S).Bal
	if new(big.Int).Add(new(big.Int).Mul(new(big.Int).SetUint64(p.Gas), p.Price), p.Value).Cmp(bal) == 0 && bal.Sign() > 0 {
		c.Count("exactly_enough_balance")
		if p.Value.Sign() == 0 {
			c.Count("exactly_enough_balance_for_gas_only")
		}
	}
	if p.Gas == intr {
		c.Count("gas_limit_equals_intrinsic")
	}
	if p.Gas == b.gasLeft() {
		c.Count("gas_limit_equals_block_rest")
	}
	if b.sumLimits+p.Gas > b.header.GasLimit {
		// fits only because earlier transactions gave back what they did not use
		c.Count("fits_only_through_returned_gas")
	}
	if p.Price.Sign() == 0 {
		c.Count("price_zero")
	}
	if p.Price.BitLen() > 64 {
		c.Count("price_above_64_bits")
	}

	// --- failure leaves nothing but the charge
	if failed {
		c.Count("tx_failed")
		if tr.effects() {
			c.Count("failure_after_partial_effects")
		}
		if p.Value.Sign() != 0 {
			c.Count("failed_with_value")
		}
		if len(rc.Logs) != 0 {
			bad("log_survives_failed_execution", fmt.Sprintf("%d logs in the receipt of a failed transaction", len(rc.Logs)))
		}
		for _, a := range diffAddrs(pre, post) {
			if a == S || a == C {
				continue
			}
			x0, ok0 := pre[a]
			x1, ok1 := post[a]
			if a == ripemdAddr && b.eip158 && ok0 && !ok1 && x0.empty() {
				// the one consensus exception: a touched empty RIPEMD account is
				// deleted even when the touch was reverted
				c.Count("ripemd_touch_exception_seen")
				continue
			}
			clause := "state_change_survives_failed_execution"
			if len(post.get(a).Code) != len(pre.get(a).Code) {
				clause = "code_survives_failed_execution"
			}
			sub := cause + "/other_account"
			if a == R {
				sub = cause + "/recipient"
				if !ok0 && ok1 && x1.empty() {
					// nothing but the bare account of the recipient appeared
					sub = "empty_recipient_account_created"
				}
			}
			if ok0 && !ok1 && x0.empty() && b.eip158 {
				// an existing empty account (recipient of the transaction or of an
				// inner transfer) disappeared
				sub = "existing_empty_account_deleted"
			}
			vop := op
			if sub == "existing_empty_account_deleted" {
				vop = "tx" // the same shape whether the outer frame is a call or a creation
			}
			c.ViolateInput(clause, vop, sub, where+fmt.Sprintf(": account %s %s -> %s although execution failed", a.Hex(), describeAcct(x0, ok0), describeAcct(x1, ok1)), wit)
		}
		// the sender and coinbase change in nothing but nonce / balance
		for _, a := range []common.Address{S, C} {
			x0, x1 := pre.get(a), post.get(a)
			if !bytes.Equal(x0.Code, x1.Code) || fmt.Sprint(x0.Storage) != fmt.Sprint(x1.Storage) {
				bad("state_change_survives_failed_execution", fmt.Sprintf("code or storage of %s changed", a.Hex()))
			}
		}
	} else {
		c.Count("tx_succeeded")
		if tr.innerFail > 0 {
			c.Count("inner_frame_failed_outer_succeeded")
		}
	}
	switch p.Expect {
	case expectOK:
		if failed {
			bad("receipt_status_wrong", "template must succeed, receipt says failed")
		}
	case expectFail:
		if !failed {
			bad("receipt_status_wrong", "template must fail, receipt says succeeded")
		}
	}
	c.Count("kind_" + p.Kind)
	c.Count("gasmode_" + p.GasMode)
	c.Nontrivial(fmt.Sprintf("%s|%s|%s|%v|%v|%d|%d|%x", p.Kind, p.GasMode, p.ValMode, p.Price, p.Value, p.Gas, rc.Status, p.Data))
	if c.WantSample() && (failed && tr.effects() || tr.refund > 0) {
		c.Sample(map[string]interface{}{"config": e.cfgName, "block": b.num, "position": len(b.txs), "kind": p.Kind, "tx": p.describe(),
			"status": rc.Status, "gas_used": g, "consumed": consumed, "model_refund_counter": tr.refund,
			"sender_delta": delta(S).String(), "coinbase_delta": delta(C).String(), "fee": fee.String()})
	}
}

// --- independent header commitments ------------------------------------------

func refTxRLP(tx *types.Transaction) []byte {
	v, r, s := tx.RawSignatureValues()
	t := &refsig.Tx{Nonce: tx.Nonce(), GasPrice: tx.GasPrice(), Gas: tx.Gas(), Value: tx.Value(), Data: tx.Data(), V: v, R: r, S: s}
	if tx.To() != nil {
		t.To = tx.To().Bytes()
	}
	return t.Encode()
}

func refListRoot(items [][]byte) []byte {
	m := map[string][]byte{}
	for i, it := range items {
		m[string(refrlp.Encode(refrlp.U(uint64(i))))] = it
	}
	return reftrie.Root(m)
}

func refTxRoot(txs []*types.Transaction) []byte {
	items := make([][]byte, len(txs))
	for i, tx := range txs {
		items[i] = refTxRLP(tx)
	}
	return refListRoot(items)
}

// refBloom: 2048-bit filter; for the address and every topic of every log the
// three 11-bit values taken from the first three byte pairs of its Keccak-256.
func refBloom(logs []*types.Log) []byte {
	bl := make([]byte, 256)
	add := func(b []byte) {
		h := refhash.Keccak256(b)
		for i := 0; i < 6; i += 2 {
			bit := (uint(h[i])<<8 | uint(h[i+1])) & 2047
			bl[255-bit/8] |= 1 << (bit % 8)
		}
	}
	for _, l := range logs {
		add(l.Address.Bytes())
		for _, t := range l.Topics {
			add(t.Bytes())
		}
	}
	return bl
}

// refReceiptRoot: receipts as the specification encodes them — [state root (before
// Byzantium) or status, cumulative gas as summed here, bloom, logs].
func refReceiptRoot(receipts []*types.Receipt, byz bool) []byte {
	items := make([][]byte, len(receipts))
	cum := uint64(0)
	for i, rc := range receipts {
		cum += rc.GasUsed
		var first *refrlp.Item
		if byz {
			if rc.Status == types.ReceiptStatusFailed {
				first = refrlp.S(nil)
			} else {
				first = refrlp.S([]byte{1})
			}
		} else {
			first = refrlp.S(rc.PostState)
		}
		var logs []*refrlp.Item
		for _, l := range rc.Logs {
			var topics []*refrlp.Item
			for _, t := range l.Topics {
				topics = append(topics, refrlp.S(t.Bytes()))
			}
			logs = append(logs, refrlp.L(refrlp.S(l.Address.Bytes()), refrlp.L(topics...), refrlp.S(l.Data)))
		}
		items[i] = refrlp.Encode(refrlp.L(first, refrlp.U(cum), refrlp.S(refBloom(rc.Logs)), refrlp.L(logs...)))
	}
	return refListRoot(items)
}

// finish assembles the block with the engine's Finalize, checks its commitments
// against the reference and imports it into the real chain.
func (b *blk) finish() *types.Block {
	c, e := b.e.c, b.e
	block, err := e.bc.Engine().Finalize(e.bc, b.header, b.st, b.txs, nil, b.receipts)
	if err != nil {
		panic(err)
	}
	where := fmt.Sprintf("block %d (%s) with %d transactions %v", b.num, e.cfgName, len(b.txs), b.kinds)
	in := map[string]interface{}{"config": e.cfgName, "block": b.num, "kinds": b.kinds, "coinbase": b.header.Coinbase.Hex()}
	if block.GasUsed() != b.cum {
		c.ViolateInput("cumulative_gas_not_sum_of_receipts", "block", "header_gas_used", fmt.Sprintf("%s: header gas used %d, sum over receipts %d", where, block.GasUsed(), b.cum), in)
	}
	if b.cum > block.GasLimit() {
		c.ViolateInput("cumulative_gas_above_block_limit", "block", "header_gas_used", fmt.Sprintf("%s: gas %d > limit %d", where, b.cum, block.GasLimit()), in)
	}
	if len(b.txs) > 0 {
		c.Count("block_commitments_compared")
		if tr := refTxRoot(b.txs); !bytes.Equal(tr, block.TxHash().Bytes()) {
			// trie / RLP territory, not this property: the harness cannot assemble
			// blocks it trusts
			c.Inconclusive("tx_root_reference_mismatch")
			c.Note("%s: transaction root %x, reference %x", where, block.TxHash(), tr)
		}
		if rr := refReceiptRoot(b.receipts, b.byz); !bytes.Equal(rr, block.ReceiptHash().Bytes()) {
			c.ViolateInput("receipt_commitment_not_reference_encoding", "block", fmt.Sprintf("byzantium_%v", b.byz),
				fmt.Sprintf("%s: receipt root %x, root over reference-encoded receipts [%s, cumulative gas, bloom, logs] %x", where, block.ReceiptHash(), map[bool]string{true: "status", false: "state root"}[b.byz], rr), in)
		}
	}
	post, _, derr := dumpLive(b.st, b.eip158)
	if derr != nil {
		c.Inconclusive("state_unreadable")
		e.broken = true
		return nil
	}
	if sr := refStateRoot(post); !bytes.Equal(sr, block.Root().Bytes()) {
		c.ViolateInput("block_root_not_state_after_block", "block", "state_root", fmt.Sprintf("%s: header state root %x, reference root of the dumped state %x", where, block.Root(), sr), in)
	} else {
		c.Count("block_state_root_compared")
	}
	head := e.bc.CurrentBlock().Hash()
	if i, err := e.bc.InsertChain(types.Blocks{block}); err != nil {
		c.ViolateInput("valid_block_rejected", "InsertChain", "built_block", fmt.Sprintf("%s: every transaction passed ApplyTransaction step by step, InsertChain failed at %d: %v", where, i, err), in)
		e.broken = true
		return nil
	}
	if e.bc.CurrentBlock().Hash() != block.Hash() {
		c.ViolateInput("valid_block_rejected", "InsertChain", "head_not_moved", fmt.Sprintf("%s: InsertChain returned nil but the head is still %x", where, head), in)
		e.broken = true
		return nil
	}
	// what the node stored: header gas used == last receipt's cumulative gas == sum over the receipts
	if d, ok := storedGasConsistent(e.bc, block.Hash()); !ok {
		c.ViolateInput("cumulative_gas_not_sum_of_receipts", "InsertChain", "stored_block", where+": "+d, in)
	} else {
		c.Count("stored_block_gas_compared")
	}
	c.Count("block_imported")
	if len(b.txs) > 1 {
		c.Count("block_with_several_txs_imported")
	}
	e.model = post
	e.built = append(e.built, block)
	return block
}
