package c06

import (
	"fmt"
	"math/big"
	"strings"

	"gitlab.com/aquachain/aquachain/common"
	"verif/internal/fw"
	"verif/internal/gen"
)

const (
	expectAny = iota
	expectOK
	expectFail
)

// plan: the fields of one transaction plus what the generator knows about it.
type plan struct {
	Kind    string
	S       *sender
	Nonce   uint64
	To      *common.Address
	Data    []byte
	Value   *big.Int
	Price   *big.Int
	Gas     uint64
	GasMode string
	ValMode string
	Expect  int
	MayPay  bool // the callee is told to pay the sender or the coinbase
	Blob    bool // random code: pays whom it likes
	Exactly bool // an invalid plan that misses validity by exactly one unit
}

func (p *plan) op() string {
	if p.To == nil {
		return "create"
	}
	return "call"
}

func (p *plan) describe() string {
	to := "create"
	if p.To != nil {
		to = p.To.Hex()
	}
	d := p.Data
	suffix := ""
	if len(d) > 72 {
		d, suffix = d[:72], fmt.Sprintf("...(%d bytes)", len(p.Data))
	}
	return fmt.Sprintf("%s[from %s (%s) nonce %d to %s value %v price %v gas %d (%s) data %x%s]", p.Kind, p.S.Addr.Hex(), p.S.Kind, p.Nonce, to, p.Value, p.Price, p.Gas, p.GasMode, d, suffix)
}

func (p *plan) clone() *plan {
	q := *p
	q.Value = new(big.Int).Set(p.Value)
	q.Price = new(big.Int).Set(p.Price)
	q.Data = append([]byte{}, p.Data...)
	return &q
}

// tmpl is what a template yields before the field lattice is applied.
type tmpl struct {
	kind   string
	to     *common.Address
	data   []byte
	ample  uint64
	expect int
	mayPay bool
	blob   bool
	noVal  bool // the template fixes value 0
	tail   bool // junk bytes may be appended to the data
}

func addrp(a common.Address) *common.Address { return &a }

func mixBytes(r *fw.Rand, n int) []byte {
	b := r.Bytes(n)
	switch r.Intn(4) {
	case 0: // all zero
		for i := range b {
			b[i] = 0
		}
	case 1: // all non-zero
		for i := range b {
			if b[i] == 0 {
				b[i] = 1
			}
		}
	case 2: // mostly zero
		for i := range b {
			if r.Intn(4) != 0 {
				b[i] = 0
			}
		}
	}
	return b
}

func dataLen(r *fw.Rand) int {
	switch r.Intn(8) {
	case 0:
		return 0
	case 1:
		return 1
	case 2:
		return r.Range(31, 33)
	case 3:
		return r.Range(200, 1200)
	default:
		return r.Range(2, 120)
	}
}

func (b *blk) hasCode(a common.Address) bool { return len(b.cur.get(a).Code) > 0 }

// otherEOA: a key-holding address that is neither the sender nor the coinbase.
func (b *blk) otherEOA(r *fw.Rand, s *sender) common.Address {
	for i := 0; i < 20; i++ {
		x := b.e.w.Senders[r.Intn(len(b.e.w.Senders))]
		if x.Addr != s.Addr && x.Addr != b.header.Coinbase && x.Kind != "inv" && !b.e.reserved[x.Addr] {
			return x.Addr
		}
	}
	return b.e.freshAddr()
}

// plainTarget: somewhere harmless for a callee to send to (never a role).
func (b *blk) plainTarget(r *fw.Rand, s *sender) common.Address {
	switch r.Intn(3) {
	case 0:
		if b.header.Coinbase == gen.AddrSink {
			return b.e.freshAddr()
		}
		return gen.AddrSink
	case 1:
		return b.e.freshAddr()
	default:
		return b.otherEOA(r, s)
	}
}

// emptyExisting lists accounts that exist in the current state with nonce 0,
// balance 0 and no code (possible only before EIP-158).
func (b *blk) emptyExisting() []common.Address {
	var out []common.Address
	for a, x := range b.cur {
		if x.empty() && a != b.header.Coinbase {
			out = append(out, a)
		}
	}
	sortAddrs(out)
	return out
}

var templateNames = []string{
	"transfer_existing", "transfer_fresh", "transfer_self", "transfer_to_coinbase", "precompile", "precompile_starved", "sink",
	"store_set", "store_clear", "clear_n", "log", "effects", "effects_pay_role", "effects_sd", "forward", "forward_fail", "forward_pay_role",
	"nested", "create_ok", "create_value_suicider", "create_revert", "create_oog", "create_too_large", "create_empty", "create_effects",
	"factory", "factory_fail", "selfdestruct", "selfdestruct_pay_role", "spin", "blob", "touch_coinbase_fail", "touch_fail",
}

// template draws one template for sender s at the current position. ok == false:
// not applicable now (code gone, …) — draw again.
func (b *blk) template(r *fw.Rand, name string, s *sender) (t tmpl, ok bool) {
	C := b.header.Coinbase
	S := s.Addr
	role := func() common.Address {
		if r.Bool() {
			return S
		}
		return C
	}
	t.kind = name
	switch name {
	case "transfer_existing":
		t.to, t.data, t.expect = addrp(b.otherEOA(r, s)), mixBytes(r, dataLen(r)), expectOK
	case "transfer_fresh":
		t.to, t.data, t.expect = addrp(b.e.freshAddr()), mixBytes(r, dataLen(r)), expectOK
	case "transfer_self":
		t.to, t.data, t.expect = addrp(S), mixBytes(r, dataLen(r)), expectOK
	case "transfer_to_coinbase":
		if (b.hasCode(C) && C != gen.AddrSink) || isPrecompileAddr(C) {
			return t, false
		}
		t.to, t.data, t.expect = addrp(C), mixBytes(r, dataLen(r)), expectOK
	case "precompile":
		a := common.Address{19: byte(r.Range(1, 8))}
		t.to, t.data, t.ample = addrp(a), mixBytes(r, r.Range(0, 260)), 300000
	case "precompile_starved":
		// a precompile that runs out of gas at once (SHA-256 needs 60 + 12/word)
		t.to, t.data, t.ample = addrp(common.Address{19: 2}), mixBytes(r, r.Range(0, 64)), 0
		t.expect = expectFail
	case "sink":
		t.to, t.data, t.ample, t.expect = addrp(gen.AddrSink), mixBytes(r, dataLen(r)), 0, expectOK
	case "store_set":
		t.to, t.data, t.ample, t.expect, t.noVal, t.tail = addrp(gen.AddrStore), gen.Cat(word(uint64(r.Intn(6))), word(uint64(r.Range(1, 1<<30)))), 60000, expectOK, true, true
	case "store_clear":
		t.to, t.data, t.ample, t.expect, t.noVal, t.tail = addrp(gen.AddrStore), gen.Cat(word(uint64(r.Intn(6))), word(0)), 60000, expectOK, true, true
	case "clear_n":
		count := []uint64{1, 1, 2, 3, 8}[r.Intn(5)]
		start := uint64(r.Intn(clearSlots - 8))
		val := uint64(0)
		if r.Intn(4) == 0 {
			val = uint64(r.Range(1, 1<<20)) // refill
		}
		burn := []uint64{0, 0, 40, 90, 200, 1500}[r.Intn(6)]
		t.to, t.data = addrp(addrClear), gen.Cat(word(start), word(count), word(val), word(burn))
		t.ample, t.expect, t.tail = 100000+count*25000+burn*50, expectOK, true
	case "log":
		n := r.Intn(5)
		t.to = addrp(gen.AddrLogger)
		t.data = gen.Cat(word(uint64(n)), gen.LogTopic(r.Intn(4)).Bytes(), gen.LogTopic(r.Intn(4)).Bytes(), gen.LogTopic(r.Intn(4)).Bytes(), gen.LogTopic(r.Intn(4)).Bytes(), r.Bytes(r.Intn(70)))
		t.ample, t.expect, t.noVal = 80000, expectOK, true
	case "effects", "effects_pay_role":
		inst := addrEffects
		if r.Bool() {
			inst = addrEffects2
		}
		if !b.hasCode(inst) {
			return t, false
		}
		mode := uint64([]int{modeStop, modeRevert, modeInvalid, modeSpin, modeUnderflow, modeBadJump}[r.Intn(6)])
		target := b.plainTarget(r, s)
		if name == "effects_pay_role" {
			target, t.mayPay = role(), true
		}
		t.kind = name + "_" + modeNames[mode]
		t.to, t.data, t.ample, t.tail = addrp(inst), effectsData(mode, target), 400000, true
		if mode == modeSpin {
			t.ample = uint64(r.Range(150000, 260000))
		}
		t.expect = expectFail
		if mode == modeStop {
			t.expect = expectOK
		}
	case "effects_sd":
		if !b.hasCode(addrEffectsSD) {
			return t, false
		}
		t.to, t.data, t.ample, t.expect = addrp(addrEffectsSD), effectsData(modeSelfdestruct, b.plainTarget(r, s)), 400000, expectOK
	case "forward":
		t.to, t.data, t.ample, t.expect = addrp(gen.AddrForwarder), wordA(b.plainTarget(r, s)), 150000, expectOK
	case "forward_fail":
		tg := gen.AddrReverter
		if r.Bool() {
			tg = gen.AddrInvalid
		}
		// the failing callee burns 63/64 of the gas: whether the forwarder can still
		// write its flag depends on the rest
		t.to, t.data, t.ample, t.expect = addrp(gen.AddrForwarder), wordA(tg), 200000, expectAny
	case "forward_pay_role":
		t.to, t.data, t.ample, t.expect, t.mayPay = addrp(gen.AddrForwarder), wordA(role()), 150000, expectOK, true
	case "nested":
		kind := uint64(r.Intn(4))
		type tg struct {
			a     common.Address
			inner []byte
			n     string
		}
		var cands []tg
		cands = append(cands,
			tg{gen.AddrStore, gen.Cat(word(uint64(r.Intn(6))), word(uint64(r.Intn(3)))), "store"},
			tg{addrClear, gen.Cat(word(uint64(r.Intn(clearSlots-4))), word(uint64(r.Range(1, 3))), word(0), word(uint64(r.Intn(100)))), "clear"},
			tg{gen.AddrReverter, nil, "reverter"}, tg{gen.AddrInvalid, nil, "invalid"},
		)
		if C != gen.AddrSink {
			cands = append(cands, tg{gen.AddrSink, nil, "sink"})
		}
		if b.hasCode(addrEffects2) {
			m := uint64([]int{modeStop, modeRevert, modeInvalid, modeUnderflow}[r.Intn(4)])
			cands = append(cands, tg{addrEffects2, effectsData(m, b.plainTarget(r, s)), "effects_" + modeNames[m]})
		}
		for _, sa := range b.e.w.Suiciders {
			if b.hasCode(sa) && r.Intn(3) == 0 {
				cands = append(cands, tg{sa, wordA(b.plainTarget(r, s)), "suicider"})
				break
			}
		}
		x := cands[r.Intn(len(cands))]
		t.kind = fmt.Sprintf("nested_%s_%s", []string{"call", "callcode", "delegatecall", "staticcall"}[kind], x.n)
		t.to = addrp(gen.AddrNested)
		t.data = gen.Cat(word(kind), wordA(x.a), word(uint64(r.Intn(3))), x.inner)
		t.ample = 600000
	case "create_ok":
		t.data, t.ample, t.expect = gen.InitOK(), 250000, expectOK
	case "create_value_suicider":
		t.data, t.ample, t.expect = gen.InitSuicide(), 250000, expectOK
	case "create_revert":
		t.data, t.ample, t.expect = gen.InitRevert(), 120000, expectFail
	case "create_oog":
		t.data, t.ample, t.expect = gen.InitOOG(), uint64(r.Range(54000, 120000)), expectFail
	case "create_too_large":
		t.data, t.ample, t.expect = gen.InitTooLarge(), 400000, expectFail
	case "create_empty":
		t.data, t.ample, t.expect = gen.InitEmpty(), 100000, expectOK
	case "create_effects":
		mode := uint64([]int{modeStop, modeRevert, modeInvalid, modeUnderflow, modeBadJump}[r.Intn(5)])
		t.kind = "create_effects_" + modeNames[mode]
		t.data, t.ample = effectsProgram(true, mode, b.plainTarget(r, s)), 500000
		t.expect = expectFail
		if mode == modeStop {
			t.expect = expectOK
		}
	case "factory":
		t.to, t.data, t.ample, t.expect = addrp(gen.AddrFactory), gen.InitOK(), 350000, expectOK
	case "factory_fail":
		init := gen.InitRevert()
		if r.Bool() {
			init = gen.InitOOG()
		}
		t.to, t.data, t.ample, t.expect = addrp(gen.AddrFactory), init, 250000, expectAny
	case "selfdestruct", "selfdestruct_pay_role":
		var live []common.Address
		for _, sa := range b.e.w.Suiciders {
			if b.hasCode(sa) {
				live = append(live, sa)
			}
		}
		if len(live) == 0 {
			return t, false
		}
		sa := live[r.Intn(len(live))]
		ben := b.plainTarget(r, s)
		switch {
		case name == "selfdestruct_pay_role":
			ben, t.mayPay = role(), true
		case r.Intn(5) == 0:
			ben = sa // to itself: the balance is destroyed
			t.kind = "selfdestruct_to_self"
		}
		t.to, t.data, t.ample, t.expect = addrp(sa), wordA(ben), 120000, expectOK
	case "spin":
		t.to, t.ample, t.expect = addrp(gen.AddrSpinner), uint64(r.Range(22000, 90000)), expectFail
	case "blob":
		t.to, t.data, t.ample, t.blob = addrp(b.e.w.Blobs[r.Intn(len(b.e.w.Blobs))]), r.Bytes(r.Intn(64)), uint64(r.Range(25000, 200000)), true
	case "touch_coinbase_fail":
		// a zero-value call to the coinbase inside a frame that then fails
		t.to, t.data, t.ample, t.expect = addrp(addrTouch), gen.Cat(wordA(C), word(0)), 120000, expectFail
	case "touch_fail":
		tg := b.plainTarget(r, s)
		if em := b.emptyExisting(); len(em) > 0 && r.Bool() {
			tg = em[r.Intn(len(em))]
		}
		mode := uint64(r.Intn(2))
		t.to, t.data, t.ample = addrp(addrTouch), gen.Cat(wordA(tg), word(mode)), 120000
		t.expect = expectFail
		if mode == 1 {
			t.expect = expectOK
		}
	default:
		panic("unknown template " + name)
	}
	return t, true
}

func sortAddrs(a []common.Address) {
	for i := 1; i < len(a); i++ {
		for j := i; j > 0 && string(a[j][:]) < string(a[j-1][:]); j-- {
			a[j], a[j-1] = a[j-1], a[j]
		}
	}
}

var (
	big1     = big.NewInt(1)
	hugeUnit = new(big.Int).Lsh(big.NewInt(1), 70)
)

func drawPrice(r *fw.Rand, s *sender) *big.Int {
	switch x := r.Intn(100); {
	case x < 8:
		return big.NewInt(0)
	case x < 18:
		return big.NewInt(1)
	case x < 30:
		return big.NewInt(int64(r.Range(2, 100)))
	case x < 80:
		return new(big.Int).Mul(big.NewInt(int64(r.Range(1, 60))), big.NewInt(1e9))
	case x < 90:
		return new(big.Int).Mul(big.NewInt(int64(r.Range(1, 1000))), big.NewInt(1e12))
	default:
		if s.Kind == "whale" {
			return new(big.Int).Add(hugeUnit, big.NewInt(int64(r.Intn(1000))))
		}
		return big.NewInt(int64(r.Range(1, 1e6)))
	}
}

// pickSender chooses a sender able to act at the current position.
func (b *blk) pickSender(r *fw.Rand) *sender {
	w := b.e.w
	for i := 0; i < 60; i++ {
		s := w.Senders[r.Intn(len(w.Senders))]
		if b.e.reserved[s.Addr] || b.revTouch[s.Addr] {
			continue
		}
		bal := b.cur.get(s.Addr).Bal
		switch s.Kind {
		case "inv":
			continue
		case "poor":
			if bal.Sign() == 0 {
				continue
			}
		case "zero":
			if r.Intn(3) != 0 {
				continue
			}
		}
		return s
	}
	return w.Senders[0]
}

func isPrecompileAddr(a common.Address) bool {
	for i := 0; i < 19; i++ {
		if a[i] != 0 {
			return false
		}
	}
	return a[19] >= 1 && a[19] <= 8
}

// force pins parts of the field lattice (empty = drawn).
type force struct {
	gasMode string // "ample", "intrinsic", "block_rest"
	valMode string // "zero", "one", "rand", "max"
	price   *big.Int
	noFund  bool
}

// nextPlan draws one valid transaction for the current position, or nil when
// nothing fits any more.
func (b *blk) nextPlan(r *fw.Rand, f force) *plan {
	left := b.gasLeft()
	if left < 21000 {
		return nil
	}
	w := b.e.w
	// fund a poor key now and then
	if !f.noFund && r.Intn(7) == 0 {
		var unfunded []*sender
		for _, s := range w.Senders {
			if s.Kind == "poor" && b.cur.get(s.Addr).Bal.Sign() == 0 {
				unfunded = append(unfunded, s)
			}
		}
		if len(unfunded) > 0 {
			from := w.Senders[r.Intn(6)] // rich
			to := unfunded[r.Intn(len(unfunded))]
			var amount *big.Int
			switch r.Intn(3) {
			case 0: // a few tens of thousands of wei: gas x price 1 can equal the balance
				amount = big.NewInt(int64(r.Range(21000, 400000)))
			case 1:
				amount = new(big.Int).Mul(big.NewInt(int64(r.Range(1, 1000))), big.NewInt(1e12))
			default:
				amount = new(big.Int).Mul(big.NewInt(int64(r.Range(1, 1000))), big.NewInt(1e15))
			}
			p := &plan{Kind: "fund_poor", S: from, Nonce: b.cur.get(from.Addr).Nonce, To: addrp(to.Addr), Value: amount, Price: big.NewInt(int64(r.Range(1, 50)) * 1e9),
				Gas: 21000, GasMode: "intrinsic", ValMode: "rand", Expect: expectOK}
			if ok, _ := b.refValid(p); ok && !b.e.reserved[from.Addr] {
				return p
			}
		}
	}
	for try := 0; try < 60; try++ {
		s := b.pickSender(r)
		a := b.cur.get(s.Addr)
		var t tmpl
		var ok bool
		if s.Kind == "collide" && a.Nonce == collideNonce {
			t, ok = tmpl{kind: "create_collision", data: gen.InitOK(), ample: uint64(r.Range(60000, 200000)), expect: expectFail}, true
		} else {
			t, ok = b.template(r, templateNames[r.Intn(len(templateNames))], s)
		}
		if !ok {
			continue
		}
		if p := b.lattice(r, s, t, f); p != nil {
			return p
		}
	}
	return nil
}

// lattice turns a template into a concrete valid plan: data tail, gas limit
// mode, price, value mode. nil: does not fit at this position.
func (b *blk) lattice(r *fw.Rand, s *sender, t tmpl, f force) *plan {
	left := b.gasLeft()
	a := b.cur.get(s.Addr)
	p := &plan{Kind: t.kind, S: s, Nonce: a.Nonce, To: t.to, Data: t.data, Expect: t.expect, MayPay: t.mayPay, Blob: t.blob, Value: new(big.Int), Price: new(big.Int)}
	if t.tail && r.Intn(3) == 0 {
		p.Data = append(append([]byte{}, p.Data...), mixBytes(r, r.Range(1, 80))...)
	}
	intr := refIntrinsic(p.Data, p.To == nil)
	if intr > left {
		return nil
	}
	ample := intr + t.ample
	if t.ample == 0 {
		ample = intr + uint64(r.Intn(3))*uint64(r.Intn(2000))
	}
	if t.kind == "precompile_starved" {
		ample = intr + uint64(r.Intn(50))
	}
	long := strings.Contains(t.kind, "spin") || strings.Contains(t.kind, "oog") || t.blob
	// --- gas mode
	p.Gas, p.GasMode = ample, "ample"
	x := r.Intn(100)
	switch f.gasMode {
	case "ample":
		x = 0
	case "intrinsic":
		x = 60
	case "block_rest":
		x = 99
	}
	switch {
	case x < 55 || t.kind == "precompile_starved" || t.kind == "create_collision":
	case x < 63:
		p.Gas, p.GasMode = intr, "intrinsic"
	case x < 70:
		p.Gas, p.GasMode = intr+uint64(r.Range(1, 60)), "intrinsic_plus"
	case x < 92:
		// as much as the execution consumed in a rehearsal with ample gas, or a little less
		q := p.clone()
		q.Gas = min(ample, left)
		if q.Gas >= intr {
			if used, ok := b.dry(q); ok && used >= intr {
				if x < 82 {
					p.Gas, p.GasMode = used, "exec_exact"
				} else {
					p.Gas, p.GasMode = max(intr, used-uint64(r.Range(1, 3))), "exec_minus"
				}
			}
		}
	default:
		if !long {
			p.Gas, p.GasMode = left, "block_rest"
		}
	}
	if p.Gas > left {
		if long {
			return nil
		}
		p.Gas, p.GasMode = left, "block_rest"
	}
	if p.Gas < intr {
		return nil
	}
	if p.GasMode != "ample" {
		noCodeRuns := p.To != nil && !b.hasCode(*p.To) && !isPrecompileAddr(*p.To)
		if !(noCodeRuns || t.kind == "sink") {
			p.Expect = expectAny
		}
	}
	// --- price
	p.Price = drawPrice(r, s)
	if f.price != nil {
		p.Price = new(big.Int).Set(f.price)
	}
	gasBig := new(big.Int).SetUint64(p.Gas)
	if new(big.Int).Mul(gasBig, p.Price).Cmp(a.Bal) > 0 {
		p.Price = new(big.Int).Div(a.Bal, gasBig)
	}
	// poor key with a small balance: gas limit x price 1 == balance
	if s.Kind == "poor" && a.Bal.IsUint64() && a.Bal.Uint64() >= intr && a.Bal.Uint64() <= left && a.Bal.Uint64() < 3000000 && r.Bool() && p.GasMode == "ample" && !long {
		p.Gas, p.GasMode, p.Price = a.Bal.Uint64(), "balance_at_price_1", big.NewInt(1)
		p.Expect = expectAny
	}
	room := new(big.Int).Sub(a.Bal, new(big.Int).Mul(new(big.Int).SetUint64(p.Gas), p.Price))
	// --- value
	p.ValMode = "zero"
	if !t.noVal && room.Sign() > 0 {
		y := r.Intn(100)
		if s.Kind == "poor" {
			y = y/2 + 50
		}
		switch f.valMode {
		case "zero":
			y = 0
		case "one":
			y = 40
		case "rand":
			y = 60
		case "max":
			y = 99
		}
		switch {
		case y < 35:
		case y < 45:
			p.Value, p.ValMode = big.NewInt(1), "one"
		case y < 80:
			v := new(big.Int).Mul(big.NewInt(int64(r.Range(1, 1e6))), big.NewInt(int64(r.Range(1, 1e9))))
			if v.Cmp(room) > 0 {
				v = new(big.Int).Rsh(room, uint(r.Range(0, 8)))
			}
			p.Value, p.ValMode = v, "rand"
		default:
			if s.Kind != "rich" || f.valMode == "max" || r.Intn(6) == 0 {
				p.Value, p.ValMode = new(big.Int).Set(room), "max"
			}
		}
	}
	if ok, why := b.refValid(p); !ok {
		panic("plan invalid by construction: " + why + " " + p.describe())
	}
	return p
}

// invalidVariants: single-field changes of a valid plan that the reference
// predicate rejects (each misses by exactly one unit where that is possible).
func (b *blk) invalidVariants(r *fw.Rand, p *plan) []*plan {
	var out []*plan
	a := b.cur.get(p.S.Addr)
	left := b.gasLeft()
	intr := refIntrinsic(p.Data, p.To == nil)
	add := func(q *plan, kind string, exact bool) {
		q.Kind, q.Exactly = kind, exact
		if ok, _ := b.refValid(q); !ok {
			out = append(out, q)
		}
	}
	q := p.clone()
	q.Nonce++
	add(q, "nonce_plus_1", true)
	if p.Nonce > 0 {
		q = p.clone()
		q.Nonce--
		add(q, "nonce_minus_1", true)
	}
	// value one above what is left after prepaying the gas
	q = p.clone()
	room := new(big.Int).Sub(a.Bal, new(big.Int).Mul(new(big.Int).SetUint64(p.Gas), p.Price))
	q.Value = new(big.Int).Add(room, big1)
	add(q, "value_plus_1", true)
	// gas limit one below the intrinsic cost
	q = p.clone()
	q.Gas = intr - 1
	add(q, "gas_intrinsic_minus_1", true)
	// gas limit one above the rest of the block (price lowered so prepayment is not the reason)
	q = p.clone()
	q.Gas = left + 1
	if mx := new(big.Int).Div(a.Bal, new(big.Int).SetUint64(q.Gas)); q.Price.Cmp(mx) > 0 {
		q.Price = mx
	}
	q.Value = new(big.Int)
	add(q, "gas_block_rest_plus_1", true)
	// prepayment one wei short: gas x price == balance + 1 when a factorisation is at hand
	need := new(big.Int).Add(a.Bal, big1)
	found := false
	for g := max(intr, 21000); g <= intr+4000 && g <= left; g++ {
		gb := new(big.Int).SetUint64(g)
		if new(big.Int).Mod(need, gb).Sign() == 0 {
			q = p.clone()
			q.Gas, q.Price, q.Value = g, new(big.Int).Div(need, gb), new(big.Int)
			add(q, "prepay_minus_1", true)
			found = true
			break
		}
	}
	if !found {
		q = p.clone()
		q.Value = new(big.Int)
		q.Price = new(big.Int).Add(new(big.Int).Div(a.Bal, new(big.Int).SetUint64(p.Gas)), big1)
		add(q, "prepay_short", false)
	}
	return out
}
