package c06

import (
	"math/big"

	"github.com/btcsuite/btcd/btcec/v2"
	"gitlab.com/aquachain/aquachain/common"
	"gitlab.com/aquachain/aquachain/core"
	"gitlab.com/aquachain/aquachain/crypto"
	"gitlab.com/aquachain/aquachain/params"
	"verif/internal/fw"
	"verif/internal/gen"
	"verif/internal/ref/refhash"
	"verif/internal/ref/refrlp"
)

// Contracts of this check (in addition to the shared library of internal/gen).
var (
	addrEffects   = common.HexToAddress("0x0000000000000000000000000000000000c60001") // partial effects, then ends as calldata says
	addrEffects2  = common.HexToAddress("0x0000000000000000000000000000000000c60002") // second instance (nested target)
	addrClear     = common.HexToAddress("0x0000000000000000000000000000000000c60003") // SSTORE loop + burn loop (refund lattice)
	addrTouch     = common.HexToAddress("0x0000000000000000000000000000000000c60004") // zero-value CALL to calldata address, then INVALID / STOP
	addrEffectsSD = common.HexToAddress("0x0000000000000000000000000000000000c60005") // effects instance that may self-destruct
	addrSuicider0 = common.HexToAddress("0x0000000000000000000000000000000000c60010") // + i, i < nSuiciders
)

const (
	nSuiciders   = 8
	clearSlots   = 64
	collideNonce = 2 // the designated sender's creation with this nonce hits an occupied address
)

const (
	opLOG1 = gen.LOG0 + 1
	opDUP1 = gen.DUP1
)

// Effects modes.
const (
	modeStop = iota
	modeRevert
	modeInvalid
	modeSpin
	modeSelfdestruct
	modeUnderflow
	modeBadJump
)

var modeNames = []string{"stop", "revert", "invalid", "spin", "selfdestruct", "underflow", "badjump"}

// effectsProgram: effects that must all vanish when the frame fails, then an
// ending chosen by mode:
//
//	slot0++ ; slot7 = !slot7 (clears it when non-zero: refund) ; LOG1(topic 0xc06, data=mode word)
//	CALL(target, 1 wei) ; CREATE(empty child)
//	mode: 0 STOP, 1 REVERT, 2 INVALID, 3 infinite loop, 4 SELFDESTRUCT(target), 5 stack underflow, 6 bad jump
//
// With imm == false mode = calldata[0:32], target = calldata[32:64]; with imm the
// two are constants in the code (for use as init code, which has no calldata).
func effectsProgram(imm bool, mode uint64, target common.Address) []byte {
	a := gen.NewAsm()
	pushMode := func() {
		if imm {
			a.Push(mode)
		} else {
			a.Push(0).Op(gen.CALLDATALOAD)
		}
	}
	pushTarget := func() {
		if imm {
			a.PushBytes(target.Bytes())
		} else {
			a.Push(32).Op(gen.CALLDATALOAD)
		}
	}
	a.Push(0).Op(gen.SLOAD).Push(1).Op(gen.ADD).Push(0).Op(gen.SSTORE)
	a.Push(7).Op(gen.SLOAD, gen.ISZERO).Push(7).Op(gen.SSTORE)
	pushMode()
	a.Push(0).Op(gen.MSTORE)
	a.Push(0xc06).Push(32).Push(0).Op(opLOG1)
	a.Push(0).Push(0).Push(0).Push(0).Push(1)
	pushTarget()
	a.Op(gen.GAS, gen.CALL, gen.POP)
	// init code of the child = first byte of memory = 0x00 (mode < 2^248) = STOP
	a.Push(1).Push(0).Push(0).Op(gen.CREATE, gen.POP)
	pushMode()
	// fixed order (no map iteration in code layout)
	order := []struct {
		m uint64
		l string
	}{{modeRevert, "revert"}, {modeInvalid, "invalid"}, {modeSpin, "spin"}, {modeSelfdestruct, "sd"}, {modeUnderflow, "under"}, {modeBadJump, "badjump"}}
	for _, o := range order {
		a.Op(opDUP1).Push(o.m).Op(gen.EQ).Jumpi(o.l)
	}
	a.Op(gen.STOP)
	a.Label("revert").Push(0).Push(0).Op(gen.REVERT)
	a.Label("invalid").Op(gen.INVALID)
	a.Label("spin").Jump("spin")
	a.Label("sd")
	pushTarget()
	a.Op(gen.SELFDESTRUCT)
	a.Label("under").Op(gen.POP, gen.POP, gen.POP)
	a.Label("badjump").Push(1).Op(gen.JUMP)
	return a.Bytes()
}

// clearCode: calldata = start(32) count(32) value(32) burn(32):
// for i in [start, start+count): SSTORE(i, value); then burn loops of 40 gas each.
func clearCode() []byte {
	a := gen.NewAsm()
	a.Push(32).Op(gen.CALLDATALOAD) // [count]
	a.Push(0).Op(gen.CALLDATALOAD)  // [count, i]
	a.Label("loop")
	a.Op(gen.DUP2, gen.ISZERO).Jumpi("end")
	a.Push(64).Op(gen.CALLDATALOAD, gen.DUP2, gen.SSTORE) // SSTORE(i, value)
	a.Push(1).Op(gen.ADD)                                 // [count, i+1]
	a.Op(gen.SWAP1).Push(1).Op(gen.SWAP1, gen.SUB)        // [i+1, count-1]
	a.Op(gen.SWAP1)
	a.Jump("loop")
	a.Label("end").Op(gen.POP, gen.POP)
	a.Push(96).Op(gen.CALLDATALOAD) // [burn]
	a.Label("burn")
	a.Op(opDUP1, gen.ISZERO).Jumpi("done")
	a.Push(1).Op(gen.SWAP1, gen.SUB)
	a.Jump("burn")
	a.Label("done").Op(gen.STOP)
	return a.Bytes()
}

// touchCode: calldata = target(32) mode(32): CALL(target, value 0) then
// mode 0: INVALID, else STOP.
func touchCode() []byte {
	a := gen.NewAsm()
	a.Push(0).Push(0).Push(0).Push(0).Push(0).Push(0).Op(gen.CALLDATALOAD, gen.GAS, gen.CALL, gen.POP)
	a.Push(32).Op(gen.CALLDATALOAD).Jumpi("ok")
	a.Op(gen.INVALID)
	a.Label("ok").Op(gen.STOP)
	return a.Bytes()
}

// refCreateAddress: keccak256(rlp([sender, nonce]))[12:], computed with the
// reference hash and RLP.
func refCreateAddress(from common.Address, nonce uint64) common.Address {
	h := refhash.Keccak256(refrlp.Encode(refrlp.L(refrlp.S(from.Bytes()), refrlp.U(nonce))))
	return common.BytesToAddress(h[12:])
}

// sender is an account whose key the harness holds.
type sender struct {
	Key  *btcec.PrivateKey
	Addr common.Address
	Kind string // rich | whale | poor | zero | inv | collide
}

type world struct {
	*gen.World
	Senders   []*sender
	byAddr    map[common.Address]*sender
	Suiciders []common.Address
}

func newKey(r *fw.Rand) (*btcec.PrivateKey, common.Address) {
	kb := r.Bytes(32)
	kb[0] &= 0x7f
	kb[31] |= 1
	k, err := crypto.HexToBtcec(common.Bytes2Hex(kb))
	if err != nil {
		panic(err)
	}
	return k, crypto.PubkeyToAddress(k.PubKey())
}

var whaleBalance = new(big.Int).Lsh(big.NewInt(1), 200)

// newWorld: the shared world plus this check's contracts and sender classes.
func newWorld(r *fw.Rand, cfg *params.ChainConfig) *world {
	g := gen.NewWorld(r, cfg, 6)
	w := &world{World: g, byAddr: map[common.Address]*sender{}}
	alloc := g.Spec.Alloc
	add := func(k *btcec.PrivateKey, a common.Address, kind string) *sender {
		s := &sender{Key: k, Addr: a, Kind: kind}
		w.Senders = append(w.Senders, s)
		w.byAddr[a] = s
		return s
	}
	for i, k := range g.Keys {
		add(k, g.Addrs[i], "rich")
	}
	for i := 0; i < 2; i++ {
		k, a := newKey(r)
		alloc[a] = core.GenesisAccount{Balance: new(big.Int).Set(whaleBalance)}
		add(k, a, "whale")
	}
	for i := 0; i < 6; i++ {
		k, a := newKey(r)
		add(k, a, "poor") // funded by generated transfers
	}
	for i := 0; i < 2; i++ {
		k, a := newKey(r)
		add(k, a, "zero") // never funded: can only send with price 0
	}
	for i := 0; i < 4; i++ {
		k, a := newKey(r)
		add(k, a, "inv") // reserved for the invalid/twin scenarios (funded to exact amounts)
	}
	{
		k, a := newKey(r)
		alloc[a] = core.GenesisAccount{Balance: new(big.Int).Mul(big.NewInt(1e18), big.NewInt(1000))}
		add(k, a, "collide")
		// the address its third transaction would create is occupied
		alloc[refCreateAddress(a, collideNonce)] = core.GenesisAccount{Code: gen.SinkCode(), Balance: big.NewInt(5)}
	}
	store7 := map[common.Hash]common.Hash{common.BigToHash(big.NewInt(7)): common.BigToHash(big.NewInt(1))}
	eff := effectsProgram(false, 0, common.Address{})
	for _, a := range []common.Address{addrEffects, addrEffects2, addrEffectsSD} {
		alloc[a] = core.GenesisAccount{Code: eff, Balance: big.NewInt(1e15), Storage: store7}
	}
	cs := map[common.Hash]common.Hash{}
	for i := 0; i < clearSlots; i++ {
		cs[common.BigToHash(big.NewInt(int64(i)))] = common.BigToHash(big.NewInt(int64(1 + r.Intn(1<<30))))
	}
	alloc[addrClear] = core.GenesisAccount{Code: clearCode(), Balance: big.NewInt(0), Storage: cs}
	alloc[addrTouch] = core.GenesisAccount{Code: touchCode(), Balance: big.NewInt(0)}
	for i := 0; i < nSuiciders; i++ {
		a := addrSuicider0
		a[19] += byte(i)
		alloc[a] = core.GenesisAccount{Code: gen.SuicideCode(), Balance: big.NewInt(int64(1e12 + r.Intn(1e6)))}
		w.Suiciders = append(w.Suiciders, a)
	}
	return w
}

func word(v uint64) []byte                             { return gen.WordU(v) }
func wordA(a common.Address) []byte                    { return gen.WordAddr(a) }
func effectsData(mode uint64, t common.Address) []byte { return gen.Cat(word(mode), wordA(t)) }
