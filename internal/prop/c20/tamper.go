package c20

import (
	"fmt"
	"strings"
)

// span is the byte range of one scalar value inside a key file: for strings the
// content between the quotes, for numbers the whole token.
type span struct {
	Field  string // short name used in counters and violation causes
	Lo, Hi int
	Kind   byte // 'h' hex string, 's' name string, 'n' number
}

// fieldOf maps lower-cased JSON paths to the fields the property names.
var fieldOf = map[string]struct {
	name string
	kind byte
}{
	"crypto.ciphertext":      {"ciphertext", 'h'},
	"crypto.mac":             {"mac", 'h'},
	"crypto.cipherparams.iv": {"iv", 'h'},
	"crypto.kdfparams.salt":  {"salt", 'h'},
	"crypto.kdfparams.n":     {"n", 'n'},
	"crypto.kdfparams.r":     {"r", 'n'},
	"crypto.kdfparams.p":     {"p", 'n'},
	"crypto.kdfparams.dklen": {"dklen", 'n'},
	"crypto.kdfparams.c":     {"c", 'n'},
	"crypto.kdfparams.prf":   {"prf", 's'},
	"crypto.kdf":             {"kdf", 's'},
	"crypto.cipher":          {"cipher", 's'},
}

// scanner: a minimal JSON walker that records where scalar values sit. Key
// files are flat objects of strings and numbers; anything else is an error
// (the harness wrote or received something it does not understand).
type scanner struct {
	b     []byte
	i     int
	spans []span
}

func (s *scanner) ws() {
	for s.i < len(s.b) && (s.b[s.i] == ' ' || s.b[s.i] == '\n' || s.b[s.i] == '\t' || s.b[s.i] == '\r') {
		s.i++
	}
}

func (s *scanner) str() (lo, hi int, err error) {
	if s.i >= len(s.b) || s.b[s.i] != '"' {
		return 0, 0, fmt.Errorf("offset %d: string expected", s.i)
	}
	s.i++
	lo = s.i
	for s.i < len(s.b) && s.b[s.i] != '"' {
		if s.b[s.i] == '\\' {
			return 0, 0, fmt.Errorf("offset %d: escape in key file", s.i)
		}
		s.i++
	}
	if s.i >= len(s.b) {
		return 0, 0, fmt.Errorf("unterminated string")
	}
	hi = s.i
	s.i++
	return lo, hi, nil
}

func (s *scanner) value(path string) error {
	s.ws()
	if s.i >= len(s.b) {
		return fmt.Errorf("unexpected end")
	}
	switch ch := s.b[s.i]; {
	case ch == '{':
		s.i++
		for {
			s.ws()
			if s.i < len(s.b) && s.b[s.i] == '}' {
				s.i++
				return nil
			}
			lo, hi, err := s.str()
			if err != nil {
				return err
			}
			key := strings.ToLower(string(s.b[lo:hi]))
			s.ws()
			if s.i >= len(s.b) || s.b[s.i] != ':' {
				return fmt.Errorf("offset %d: ':' expected", s.i)
			}
			s.i++
			sub := key
			if path != "" {
				sub = path + "." + key
			}
			if err := s.value(sub); err != nil {
				return err
			}
			s.ws()
			if s.i < len(s.b) && s.b[s.i] == ',' {
				s.i++
			}
		}
	case ch == '"':
		lo, hi, err := s.str()
		if err != nil {
			return err
		}
		if f, ok := fieldOf[path]; ok {
			s.spans = append(s.spans, span{f.name, lo, hi, f.kind})
		}
		return nil
	default:
		lo := s.i
		for s.i < len(s.b) && strings.IndexByte(",}] \n\t\r", s.b[s.i]) < 0 {
			s.i++
		}
		if lo == s.i {
			return fmt.Errorf("offset %d: value expected", lo)
		}
		if f, ok := fieldOf[path]; ok {
			s.spans = append(s.spans, span{f.name, lo, s.i, f.kind})
		}
		return nil
	}
}

func findSpans(js []byte) ([]span, error) {
	s := &scanner{b: js}
	if err := s.value(""); err != nil {
		return nil, err
	}
	return s.spans, nil
}

// alt is one single-character alteration of one field.
type alt struct {
	Field string `json:"field"`
	Pos   int    `json:"pos"` // offset inside the field's value
	From  string `json:"from"`
	To    string `json:"to"`
	off   int    // absolute offset in the file
}

func (a alt) apply(js []byte) []byte {
	out := append([]byte{}, js...)
	out[a.off] = a.To[0]
	return out
}

const hexDigits = "0123456789abcdef"

// substitutes lists every replacement tried for character ch of a value of the
// given kind.
func substitutes(kind byte, ch byte) []byte {
	var out []byte
	add := func(c byte) {
		if c != ch {
			out = append(out, c)
		}
	}
	switch kind {
	case 'h':
		// every other hex digit (another byte value), the other case of a letter
		// (the same byte value), and two characters outside the alphabet
		for i := 0; i < 16; i++ {
			add(hexDigits[i])
		}
		if ch >= 'a' && ch <= 'f' {
			add(ch - 32)
		}
		if ch >= 'A' && ch <= 'F' {
			add(ch + 32)
		}
		add('g')
		add(' ')
	case 'n':
		for c := byte('0'); c <= '9'; c++ {
			add(c)
		}
		add('-')
		add('.')
		add('e')
	default:
		if ch >= 'a' && ch <= 'z' {
			add(ch - 32)
		}
		add(ch + 1)
		add('0')
		add('-')
	}
	return out
}

// enumAlts enumerates every single-character alteration of every listed field
// of the file.
func enumAlts(js []byte) ([]alt, error) {
	spans, err := findSpans(js)
	if err != nil {
		return nil, err
	}
	var out []alt
	for _, sp := range spans {
		for p := sp.Lo; p < sp.Hi; p++ {
			for _, c := range substitutes(sp.Kind, js[p]) {
				out = append(out, alt{Field: sp.Field, Pos: p - sp.Lo, From: string(js[p : p+1]), To: string([]byte{c}), off: p})
			}
		}
	}
	return out, nil
}
