package c20

import (
	"bytes"
	"fmt"
	"strings"

	"gitlab.com/aquachain/aquachain/aqua/accounts/keystore"
	"gitlab.com/aquachain/aquachain/common"
	"gitlab.com/aquachain/aquachain/crypto"
	"verif/internal/fw"
	"verif/internal/ref/refkeystore"
)

// subject is one stored key: what was stored and what must come back.
type subject struct {
	d      []byte   // 32-byte big-endian scalar
	addr   [20]byte // reference address of d
	pass   string
	format string
	js     []byte // the key file
}

type fileInput struct {
	Index    int                 `json:"index"`
	Template template            `json:"template"`
	D        string              `json:"d"`
	PassHex  string              `json:"pass_hex"`
	ScryptN  int                 `json:"scrypt_n,omitempty"` // v3_scrypt_repo: arguments of keystore.EncryptKey
	ScryptP  int                 `json:"scrypt_p,omitempty"`
	Ref      *refkeystore.Params `json:"ref,omitempty"` // formats written by the reference
}

type outcome struct {
	key *keystore.Key
	err error
	pan interface{}
}

// decrypt calls the real reader; a panic is an outcome, not the end of the case.
func decrypt(js []byte, pass string) (o outcome) {
	defer func() {
		if r := recover(); r != nil {
			o.pan = r
		}
	}()
	o.key, o.err = keystore.DecryptKey(js, pass)
	return
}

func (s *subject) same(k *keystore.Key) bool {
	return k != nil && k.PrivateKey != nil && bytes.Equal(k.PrivateKey.Serialize(), s.d) && bytes.Equal(k.Address[:], s.addr[:])
}

func describe(k *keystore.Key) string {
	if k == nil || k.PrivateKey == nil {
		return "nil key"
	}
	return fmt.Sprintf("d=%x address=%x", k.PrivateKey.Serialize(), k.Address)
}

func (s *subject) witness(extra map[string]interface{}) map[string]interface{} {
	w := map[string]interface{}{"format": s.format, "d": hx(s.d), "address": hx(s.addr[:]), "pass_hex": hx([]byte(s.pass)), "file": string(s.js)}
	for k, v := range extra {
		w[k] = v
	}
	return w
}

// makeRepoKey builds the node's Key object for scalar d the way
// newKeyFromECDSA does, checking the 32-byte encodings on the way.
func makeRepoKey(c *fw.Ctx, r *fw.Rand, d []byte, addr [20]byte) *keystore.Key {
	priv := crypto.ToECDSAUnsafe(d)
	if priv == nil {
		c.Violate("key_encoding_wrong", "ToECDSAUnsafe", "nil", fmt.Sprintf("ToECDSAUnsafe(%x) = nil", d))
		return nil
	}
	if got := crypto.FromECDSA(priv); !bytes.Equal(got, d) {
		c.Violate("key_encoding_wrong", "FromECDSA", "not_32_byte_padded", fmt.Sprintf("FromECDSA(ToECDSAUnsafe(%x)) = %x", d, got))
	}
	if got := priv.Serialize(); !bytes.Equal(got, d) {
		c.Violate("key_encoding_wrong", "Serialize", "not_32_byte_padded", fmt.Sprintf("Serialize(ToECDSAUnsafe(%x)) = %x", d, got))
	}
	a := crypto.PubkeyToAddress(priv.PubKey())
	if !bytes.Equal(a[:], addr[:]) {
		c.Violate("roundtrip_wrong_address", "PubkeyToAddress", "", fmt.Sprintf("d=%x: node derives address %x, reference %x", d, a, addr))
	}
	return &keystore.Key{Id: r.Bytes(16), Address: common.Address(addr), PrivateKey: priv}
}

// referenceReads demands that a file written by the node is a Web3 Secret
// Storage file an independent reader decrypts to the 32-byte padded scalar.
func referenceReads(c *fw.Ctx, s *subject, op string) bool {
	f, err := refkeystore.Decrypt(s.js, s.pass)
	if err != nil {
		cause := "error"
		if err == refkeystore.ErrMAC {
			cause = "mac_mismatch"
		}
		c.ViolateInput("stored_file_unreadable_by_reference", op, cause, fmt.Sprintf("independent reader: %v", err), s.witness(nil))
		return false
	}
	ok := true
	if !bytes.Equal(f.Secret, s.d) {
		ok = false
		if bytes.Equal(bytes.TrimLeft(f.Secret, "\x00"), bytes.TrimLeft(s.d, "\x00")) {
			c.ViolateInput("stored_key_not_32_byte_padded", op, "", fmt.Sprintf("stored secret is %d bytes (%x), want the 32-byte %x", len(f.Secret), f.Secret, s.d), s.witness(nil))
		} else {
			c.ViolateInput("stored_file_wrong_secret", op, "", fmt.Sprintf("independent reader decrypts %x, stored key was %x", f.Secret, s.d), s.witness(nil))
		}
	}
	if !strings.EqualFold(strings.TrimPrefix(f.Address, "0x"), hx(s.addr[:])) {
		ok = false
		c.ViolateInput("stored_file_wrong_address", op, "", fmt.Sprintf("address field %q, key's address %x", f.Address, s.addr), s.witness(nil))
	}
	if f.Version != 3 || f.Cipher != "aes-128-ctr" || f.KDF != "scrypt" {
		ok = false
		c.ViolateInput("stored_file_unreadable_by_reference", op, "format", fmt.Sprintf("version %d cipher %q kdf %q", f.Version, f.Cipher, f.KDF), s.witness(nil))
	}
	if ok {
		c.Count("reference_read_repo_file")
	}
	return ok
}

// buildSubject stores the key in the requested format.
func buildSubject(c *fw.Ctx, r *fw.Rand, in *fileInput, d []byte, pass string) *subject {
	addr, err := refkeystore.AddressOfD(d)
	if err != nil {
		panic(fmt.Sprintf("generator produced an invalid scalar %x", d))
	}
	s := &subject{d: d, addr: addr, pass: pass, format: in.Template.Format}
	if in.Ref != nil {
		js, err := refkeystore.Encrypt(d, pass, *in.Ref, hx(addr[:]))
		if err != nil {
			panic("reference writer: " + err.Error())
		}
		s.js = js
		return s
	}
	k := makeRepoKey(c, r, d, addr)
	if k == nil {
		return nil
	}
	js, err := keystore.EncryptKey(k, pass, in.ScryptN, in.ScryptP)
	if err != nil {
		c.Violate("roundtrip_failed", "EncryptKey", s.format, err.Error())
		return nil
	}
	s.js = js
	c.Note("file %s", js)
	referenceReads(c, s, "EncryptKey")
	return s
}

// tally counts what one case observed. Only the first two violations of one
// signature inside one case are written out in full (an altered IV alone gives
// hundreds per file); all of them are counted.
type tally struct {
	sigs                          map[string]int
	near, nearRejected            int
	tried, rejected, still, other int
	panics                        int
	fields                        map[string]int
}

// checkRoundTrip: the right passphrase gives back the identical key.
func checkRoundTrip(c *fw.Ctx, s *subject) bool {
	o := decrypt(s.js, s.pass)
	switch {
	case o.pan != nil:
		c.ViolateInput("roundtrip_failed", "DecryptKey", "panic", fmt.Sprintf("panic: %v", o.pan), s.witness(nil))
	case o.err != nil:
		c.ViolateInput("roundtrip_failed", "DecryptKey", s.format, fmt.Sprintf("right passphrase refused: %v", o.err), s.witness(nil))
	case !s.same(o.key):
		c.ViolateInput("roundtrip_wrong_key", "DecryptKey", s.format, fmt.Sprintf("recovered %s, stored d=%x address=%x", describe(o.key), s.d, s.addr), s.witness(nil))
	default:
		c.Count("roundtrip_ok")
		return true
	}
	return false
}

// checkNearMisses: every other passphrase is refused with an error.
func checkNearMisses(c *fw.Ctx, s *subject, nms []nearMiss, t *tally) {
	for _, m := range nms {
		o := decrypt(s.js, m.S)
		t.near++
		c.Count("nearmiss_tried")
		if m.Kind == "nfc_nfd" {
			c.Count("nearmiss_nfc_nfd")
		}
		switch {
		case o.pan != nil:
			t.report(c, "wrong_passphrase_panics", "DecryptKey", m.Kind, fmt.Sprintf("panic: %v", o.pan), s.witness(map[string]interface{}{"tried_pass_hex": hx([]byte(m.S))}))
		case o.err != nil:
			t.nearRejected++
			c.Count("nearmiss_rejected")
		default:
			t.report(c, "other_passphrase_unlocks", "DecryptKey", m.Kind,
				fmt.Sprintf("stored under passphrase %q, unlocked by the different passphrase %q: %s", s.pass, m.S, describe(o.key)),
				s.witness(map[string]interface{}{"tried_pass_hex": hx([]byte(m.S)), "kind": m.Kind}))
		}
	}
}

// checkAlterations: an altered file gives an error or the original key.
func checkAlterations(c *fw.Ctx, s *subject, alts []alt, t *tally) {
	if t.fields == nil {
		t.fields = map[string]int{}
	}
	for _, a := range alts {
		js := a.apply(s.js)
		o := decrypt(js, s.pass)
		t.tried++
		t.fields[a.Field]++
		switch {
		case o.pan != nil:
			t.panics++
			t.report(c, "tamper_panics", "DecryptKey", a.Field,
				fmt.Sprintf("%s[%d] %q -> %q: DecryptKey panics: %v", a.Field, a.Pos, a.From, a.To, o.pan),
				s.witness(map[string]interface{}{"alteration": a, "altered_file": string(js)}))
		case o.err != nil:
			t.rejected++
		case s.same(o.key):
			t.still++
		default:
			t.other++
			t.report(c, "tamper_yields_different_key", "DecryptKey", a.Field,
				fmt.Sprintf("%s[%d] %q -> %q: DecryptKey returns no error and %s; stored d=%x address=%x", a.Field, a.Pos, a.From, a.To, describe(o.key), s.d, s.addr),
				s.witness(map[string]interface{}{"alteration": a, "altered_file": string(js)}))
		}
	}
}

// report forwards a violation unless the case already wrote out two of the
// same signature.
func (t *tally) report(c *fw.Ctx, clause, op, cause, detail string, input interface{}) {
	if t.sigs == nil {
		t.sigs = map[string]int{}
	}
	k := clause + "|" + op + "|" + cause
	t.sigs[k]++
	if t.sigs[k] <= 2 {
		c.ViolateInput(clause, op, cause, detail, input)
	} else {
		c.Count("violations_not_written_out")
	}
}

func (t *tally) flush(c *fw.Ctx) {
	c.CountN("tamper_tried", t.tried)
	c.CountN("tamper_rejected", t.rejected)
	c.CountN("tamper_still_original", t.still)
	if t.other > 0 {
		c.CountN("tamper_different_key", t.other)
	}
	if t.panics > 0 {
		c.CountN("tamper_panicked", t.panics)
	}
	for f, n := range t.fields {
		c.CountN("tamper_"+f, n)
	}
}

func (t *tally) nontrivial() bool {
	return t.near > 0 && t.fields["ciphertext"] > 0 && t.fields["mac"] > 0 && t.fields["salt"] > 0 && t.fields["iv"] > 0
}

func runFile(c *fw.Ctx) {
	n := c.Pick(40, 1000) // per batch, x16 batches
	for i := 0; i < n; i++ {
		g := c.Batch*n + i
		r := c.Rand("file", fmt.Sprint(i))
		tpl := templateFor(g)
		d := genKey(r, tpl.Key)
		pass := genPass(r, tpl.Pass)
		in := &fileInput{Index: g, Template: tpl, D: hx(d), PassHex: hx([]byte(pass))}
		if tpl.Format == "v3_scrypt_repo" {
			in.ScryptN, in.ScryptP = 2, 1
		} else {
			pr := genParams(r, tpl.Format)
			in.Ref = &pr
		}
		id := fmt.Sprintf("file-%d", i)
		c.Case(id, in, func() {
			c.Count("key_" + tpl.Key)
			c.Count("pass_" + tpl.Pass)
			c.Count("format_" + tpl.Format)
			s := buildSubject(c, r, in, d, pass)
			if s == nil {
				return
			}
			ok := checkRoundTrip(c, s)
			var t tally
			checkNearMisses(c, s, nearMisses(r, pass, 24), &t)
			alts, err := enumAlts(s.js)
			if err != nil {
				c.ViolateInput("stored_file_unreadable_by_reference", "EncryptKey", "not_flat_json", err.Error(), s.witness(nil))
				return
			}
			checkAlterations(c, s, alts, &t)
			t.flush(c)
			if ok && t.nontrivial() {
				c.Nontrivial(in.D + "|" + in.PassHex + "|" + tpl.Format)
			}
			if i < 2 {
				ph := in.PassHex
				if len(ph) > 80 {
					ph = ph[:80] + "..."
				}
				c.Sample(map[string]interface{}{"case": id, "template": tpl, "d": in.D, "address": hx(s.addr[:]), "pass_hex": ph, "file": string(s.js),
					"near_miss_passphrases": t.near, "near_miss_refused": t.nearRejected,
					"alterations": t.tried, "alterations_refused": t.rejected, "alterations_still_original_key": t.still, "alterations_other_key": t.other, "alterations_panic": t.panics})
			}
		})
	}
}

// runKDF repeats the oracle at the KDF costs real files have.
func runKDF(c *fw.Ctx) {
	type job struct {
		kind   string
		n, p   int // EncryptKey arguments
		ref    *refkeystore.Params
		near   int
		perFld int // alterations per field
	}
	var jobs []job
	reps := c.Pick(1, 6)
	for k := 0; k < reps; k++ {
		jobs = append(jobs, job{kind: "light_scrypt", n: keystore.LightScryptN, p: keystore.LightScryptP, near: 12, perFld: 4})
		jobs = append(jobs, job{kind: "pbkdf2_262144", ref: &refkeystore.Params{Version: 3, KDF: "pbkdf2", C: 262144}, near: 4, perFld: 1})
	}
	if c.Batch == 1 { // batch 0 already pays for the two 256 MiB vectors of the self-test
		jobs = append(jobs, job{kind: "standard_scrypt", n: keystore.StandardScryptN, p: keystore.StandardScryptP, near: 1, perFld: 0})
	}
	for i, j := range jobs {
		g := c.Batch*len(jobs) + i
		r := c.Rand("kdf", fmt.Sprint(i))
		tpl := templateFor(g*5 + 1)
		tpl.Format = "v3_scrypt_repo"
		d := genKey(r, tpl.Key)
		pass := genPass(r, tpl.Pass)
		in := &fileInput{Index: g, Template: tpl, D: hx(d), PassHex: hx([]byte(pass)), ScryptN: j.n, ScryptP: j.p}
		if j.ref != nil {
			pr := *j.ref
			pr.Salt, pr.IV = hx(r.Bytes(32)), hx(r.Bytes(16))
			b := r.Bytes(16)
			pr.ID = fmt.Sprintf("%x-%x-%x-%x-%x", b[0:4], b[4:6], b[6:8], b[8:10], b[10:16])
			in.Ref = &pr
			in.Template.Format = "v3_pbkdf2_ref"
		}
		tpl = in.Template
		id := fmt.Sprintf("kdf-%d-%s", i, j.kind)
		c.Case(id, in, func() {
			s := buildSubject(c, r, in, d, pass)
			if s == nil {
				return
			}
			ok := checkRoundTrip(c, s)
			var t tally
			checkNearMisses(c, s, pickNear(r, nearMisses(r, pass, 6), j.near), &t)
			all, err := enumAlts(s.js)
			if err != nil {
				c.ViolateInput("stored_file_unreadable_by_reference", "EncryptKey", "not_flat_json", err.Error(), s.witness(nil))
				return
			}
			checkAlterations(c, s, sampleAlts(r, all, j.perFld, false), &t)
			t.flush(c)
			if ok {
				c.Count("kdf_" + j.kind)
				if t.nontrivial() {
					c.Nontrivial(in.D + "|" + in.PassHex + "|" + j.kind)
				}
			}
			c.Sample(map[string]interface{}{"case": id, "kdf_cost": j.kind, "template": tpl, "d": in.D, "file": string(s.js),
				"near_miss_passphrases": t.near, "near_miss_refused": t.nearRejected, "alterations": t.tried, "alterations_refused": t.rejected,
				"alterations_still_original_key": t.still, "alterations_other_key": t.other})
		})
	}
}

// sampleAlts picks perField alterations of every field (PRNG-chosen), plus -
// when forced is set - the ones known to take special paths: the other case of
// a hex letter (same bytes), a zero digit in each number, a minus sign.
func sampleAlts(r *fw.Rand, all []alt, perField int, forced bool) []alt {
	byField := map[string][]int{}
	var order []string
	for i, a := range all {
		if _, ok := byField[a.Field]; !ok {
			order = append(order, a.Field)
		}
		byField[a.Field] = append(byField[a.Field], i)
	}
	var out []alt
	for _, f := range order {
		idx := byField[f]
		used := map[int]bool{}
		if forced {
			upperDone := false
			for _, i := range idx {
				a := all[i]
				numeric := f == "n" || f == "r" || f == "p" || f == "dklen" || f == "c"
				upper := a.From[0] >= 'a' && a.From[0] <= 'f' && a.To[0] == a.From[0]-32 && !numeric
				if (numeric && (a.To == "0" || a.To == "-")) || (upper && !upperDone) {
					upperDone = upperDone || upper
					used[i] = true
					out = append(out, a)
				}
			}
		}
		left := perField
		for _, k := range r.Perm(len(idx)) {
			if left <= 0 {
				break
			}
			i := idx[k]
			if used[i] {
				continue
			}
			used[i] = true
			out = append(out, all[i])
			left--
		}
	}
	return out
}
