// Package c20: keystore encryption round-trips and rejects wrong passphrases
// and tampering.
//
// Monitor: every generated (private key, passphrase, file format) is stored by
// the real code (keystore.EncryptKey, KeyStore.NewAccount/ImportECDSA/Export/
// Import/Update) or, for the formats the node reads but never writes
// (v3-pbkdf2, v1 AES-CBC, v3 with a stripped short secret), by the independent
// writer internal/ref/refkeystore. The oracle then demands
//
//   - the right passphrase recovers exactly the 32-byte scalar and the address
//     the reference curve code derives from it, and files written by the node are
//     readable by the independent reader as a 32-byte zero-padded secret;
//   - every near-miss passphrase (each one-character substitution, deletion,
//     insertion, case flip, added blank, NFC/NFD re-spelling, ...) is refused with
//     an error;
//   - every single-character alteration of every character of ciphertext, mac,
//     salt, iv, each KDF parameter and the cipher/kdf/prf names gives an error or
//     still the original key, never another key or another address and never a
//     panic - at DecryptKey and at Unlock+SignHash, SignHashWithPassphrase,
//     Export, Import and Update on a scratch keystore directory.
package c20

import (
	"encoding/hex"
	"fmt"
	"math/big"
	"strings"
	"time"
	"unicode"
	"unicode/utf8"

	"gitlab.com/aquachain/aquachain/common/log"
	"verif/internal/fw"
	"verif/internal/ref/refkeystore"
)

func init() {
	fw.Register(&fw.Prop{
		ID:    "C20",
		Title: "Keystore encryption round-trips and rejects wrong passphrases and tampering",
		Level: "exploration",
		Rule: "cases are (private key, passphrase, key-file format) triples from a fixed template list (key classes: random, 1 and 2 leading zero bytes, D=1, D=N-1, <2^64, high; " +
			"passphrase classes: empty, 1 char, ASCII, 1 KiB, 64 and 65 bytes, non-ASCII with NFC/NFD spellings, embedded NUL, trailing NUL, trailing blank; " +
			"formats: v3-scrypt written by keystore.EncryptKey, and v3-scrypt / v3-pbkdf2 / v1-AES-CBC / v3 with leading-zero-stripped secret written by the independent writer), PRNG only chooses the values. " +
			"Leg 'file' tries every near-miss passphrase and EVERY single-character alteration of every listed field at DecryptKey; leg 'store' drives a scratch KeyStore directory " +
			"(NewAccount, ImportECDSA, Unlock+SignHash, SignHashWithPassphrase, Export, Import, Update, Delete, reopen; plus wrong passphrases and an altered file against an account that is currently unlocked, indefinitely and timed) with near-miss passphrases and sampled alterations of the file on disk; leg 'kdf' repeats the file oracle at realistic KDF costs. " +
			"A case is non-trivial when the right passphrase recovered the identical key, at least one near-miss passphrase was tried and at least one alteration of each of ciphertext, mac, salt and iv was evaluated; distinct = (scalar, passphrase, format).",
		Legs: func(tier string) []fw.Leg {
			// watchdog only: the thorough children need ~10 CPU-minutes each and the
			// machine may be shared
			to := 45 * time.Minute
			if tier == "thorough" {
				to = 3 * time.Hour
			}
			return []fw.Leg{
				{Name: "file", Variant: "plain", Batches: 16, Timeout: to},
				{Name: "store", Variant: "plain", Batches: 16, Timeout: to},
				{Name: "kdf", Variant: "plain", Batches: 4, Parallel: 4, Timeout: to},
			}
		},
		Run: run,
		Gate: func(tier string) map[string]int {
			return map[string]int{
				"roundtrip_ok": 300, "reference_read_repo_file": 100,
				"format_v3_scrypt_repo": 100, "format_v3_scrypt_ref": 20, "format_v3_pbkdf2_ref": 20, "format_v1_ref": 20, "format_v3_short_ref": 10,
				"key_lead1": 20, "key_lead2": 20, "key_one": 10, "key_nminus1": 10, "key_small": 10, "key_random": 50,
				"pass_empty": 10, "pass_one": 10, "pass_long1k": 10, "pass_len64": 10, "pass_len65": 10, "pass_nonascii": 10, "pass_nul_mid": 10, "pass_nul_end": 10,
				"nearmiss_tried": 10000, "nearmiss_rejected": 10000, "nearmiss_nfc_nfd": 10,
				"tamper_tried": 500000, "tamper_rejected": 400000, "tamper_still_original": 5000,
				"tamper_ciphertext": 50000, "tamper_mac": 50000, "tamper_salt": 50000, "tamper_iv": 30000,
				"tamper_n": 1000, "tamper_r": 1000, "tamper_p": 1000, "tamper_dklen": 2000, "tamper_c": 200, "tamper_prf": 500, "tamper_kdf": 1000, "tamper_cipher": 2000,
				"store_newaccount_checked": 16, "store_importecdsa_checked": 16, "store_preplaced_pbkdf2": 16, "store_preplaced_v1": 16,
				"store_unlock_sign_signer_checked": 200, "store_signwithpass_signer_checked": 100, "store_export_checked": 60, "store_import_checked": 60,
				"store_update_checked": 60, "store_reopen_checked": 60, "store_nearmiss_ops": 500, "store_tamper_ops": 5000, "store_plain_roundtrip": 16,
				"store_while_unlocked_indefinitely_nearmiss_tried": 600, "store_while_unlocked_timed_nearmiss_tried": 600, "store_while_unlocked_altered_tried": 200, "store_lock_checked": 400,
				"kdf_light_scrypt": 2, "kdf_pbkdf2_262144": 2, "kdf_standard_scrypt": 1,
			}
		},
		AnchorFiles: []string{"/aqua/accounts/keystore/", "/crypto/crypto.go"},
		Assumptions: []string{
			"reference = internal/ref/refkeystore: Web3 Secret Storage v3 (scrypt, pbkdf2-hmac-sha256, AES-128-CTR, MAC = Keccak-256(DK[16:32] || ciphertext)) and v1 (AES-128-CBC keyed by Keccak-256(DK[0:16])[0:16], PKCS#7), self-tested in every child against the published vectors; addresses and signer recovery by a math/big secp256k1 that shares no code with btcec",
			"a file written by the node must be readable by an independent Web3-Secret-Storage reader as exactly the 32-byte zero-padded scalar (the property's '32-byte zero-padded private key encoding')",
			"generated key files always carry the address field (the MAC defined by the format does not cover the IV, so without it no reader could notice an altered IV)",
			"an alteration is the substitution of one character inside the value of a field; insertions and deletions that change a field's length are not generated",
			"'fails with an error' means a returned error: a Go panic on an altered file is reported as a violation (clause tamper_panics)",
			"salt and IV of files written by keystore.EncryptKey come from crypto/rand inside the node and differ between runs; the verdict does not depend on them and every violation records the file it was observed on",
		},
	})
}

func run(c *fw.Ctx) {
	log.Root().SetHandler(log.DiscardHandler())
	// batch 0 of the kdf leg also reproduces the two 256 MiB vectors
	if err := refkeystore.SelfTest(c.Leg == "kdf" && c.Batch == 0); err != nil {
		// no case executed -> the driver reports a broken harness, never "held"
		fmt.Println("reference self-test failed:", err)
		c.Inconclusive("reference_selftest_failed")
		return
	}
	switch c.Leg {
	case "file":
		runFile(c)
	case "store":
		runStore(c)
	case "kdf":
		runKDF(c)
	}
}

func hx(b []byte) string { return hex.EncodeToString(b) }

// ---------------------------------------------------------------------------
// Templates.

var keyClasses = []string{"random", "lead1", "lead2", "one", "nminus1", "small", "random", "high"}
var passClasses = []string{"ascii", "empty", "one", "long1k", "len64", "len65", "nonascii", "nul_mid", "nul_end", "space_end", "nonascii"}
var formats = []string{"v3_scrypt_repo", "v3_pbkdf2_ref", "v3_scrypt_repo", "v1_ref", "v3_scrypt_repo", "v3_scrypt_ref", "v3_scrypt_repo", "v3_short_ref", "v3_scrypt_repo"}

type template struct{ Key, Pass, Format string }

// templateFor is a pure function of the global case index: the three cycles
// have pairwise coprime lengths (8, 11, 9), so 792 consecutive indices meet
// every combination and any 11 consecutive ones meet every class.
func templateFor(g int) template {
	t := template{keyClasses[g%len(keyClasses)], passClasses[g%len(passClasses)], formats[g%len(formats)]}
	if t.Format == "v3_short_ref" && !(t.Key == "lead1" || t.Key == "lead2" || t.Key == "one" || t.Key == "small") {
		// the stripped form differs from the padded one only for such keys
		t.Key = []string{"lead1", "lead2", "one", "small"}[(g/9)%4]
	}
	return t
}

func genKey(r *fw.Rand, class string) []byte {
	d := r.Bytes(32)
	switch class {
	case "lead1":
		d[0] = 0
		d[1] |= 1
	case "lead2":
		d[0], d[1] = 0, 0
		d[2] |= 1
	case "one":
		d = make([]byte, 32)
		d[31] = 1
	case "nminus1":
		v := refkeystore.N()
		v.Sub(v, big.NewInt(1))
		d = v.FillBytes(make([]byte, 32))
	case "small":
		for i := 0; i < 24; i++ {
			d[i] = 0
		}
		d[31] |= 1
	case "high":
		// N - 2 - (random < 2^64)
		v := refkeystore.N()
		v.Sub(v, big.NewInt(2))
		v.Sub(v, new(big.Int).SetUint64(r.Uint64()))
		d = v.FillBytes(make([]byte, 32))
	default:
		d[0] &= 0x7f // < N
		d[0] |= 0x01 // no leading zero byte: that is what the other classes are for
	}
	return d
}

var asciiAlphabet = "abcdefghijklmnopqrstuvwxyzABCDEFGHIJKLMNOPQRSTUVWXYZ0123456789 !#$%-_.,"

// precomposed / decomposed spellings of the same text
var nfcNfd = [][2]string{{"\u00e9", "e\u0301"}, {"\u00fc", "u\u0308"}, {"\u00c5", "A\u030a"}, {"\u00f1", "n\u0303"}}
var wide = []string{"\u00e9", "e\u0301", "\u00fc", "\u00df", "\u0416", "\u03c0", "\u4e2d", "\u6587", "\U0001F511", "\u00c5", "n\u0303", "\u200b"}

func asciiString(r *fw.Rand, n int) string {
	b := make([]byte, n)
	for i := range b {
		b[i] = asciiAlphabet[r.Intn(len(asciiAlphabet))]
	}
	return string(b)
}

func genPass(r *fw.Rand, class string) string {
	switch class {
	case "empty":
		return ""
	case "one":
		return asciiString(r, 1)
	case "long1k":
		return asciiString(r, r.Range(1024, 1100))
	case "len64":
		return asciiString(r, 64)
	case "len65":
		return asciiString(r, 65)
	case "nonascii":
		var sb strings.Builder
		sb.WriteString(nfcNfd[r.Intn(len(nfcNfd))][r.Intn(2)]) // at least one re-spellable character
		for n := r.Range(3, 12); n > 0; n-- {
			if r.Chance(1, 3) {
				sb.WriteString(asciiString(r, 1))
			} else {
				sb.WriteString(wide[r.Intn(len(wide))])
			}
		}
		return sb.String()
	case "nul_mid":
		return asciiString(r, r.Range(1, 8)) + "\x00" + asciiString(r, r.Range(1, 8))
	case "nul_end":
		return asciiString(r, r.Range(1, 12)) + "\x00"
	case "space_end":
		return asciiString(r, r.Range(3, 12)) + " "
	default:
		return asciiString(r, r.Range(6, 24))
	}
}

// ---------------------------------------------------------------------------
// Near-miss passphrases.

type nearMiss struct {
	Kind string
	S    string
}

// hmacTwin: both KDFs key HMAC-SHA256 with the passphrase, and HMAC pads keys
// shorter than its 64-byte block with zero bytes, so passphrases of at most 64
// bytes that differ only in trailing NUL characters are the same HMAC key. Such
// a near-miss gets its own kind so that its outcome carries its own signature;
// the verdict rule is the same as for every other passphrase.
func hmacTwin(a, b string) bool {
	return len(a) <= 64 && len(b) <= 64 && strings.TrimRight(a, "\x00") == strings.TrimRight(b, "\x00")
}

// nearMisses returns passphrases different from p: every single-rune
// substitution / deletion / insertion at up to maxPos positions (all positions
// for short passphrases) and whole-string variants.
func nearMisses(r *fw.Rand, p string, maxPos int) []nearMiss {
	runes := []rune(p)
	var out []nearMiss
	seen := map[string]bool{p: true}
	add := func(kind, s string) {
		if seen[s] {
			return
		}
		seen[s] = true
		if hmacTwin(p, s) {
			kind = "trailing_nul"
		}
		out = append(out, nearMiss{kind, s})
	}
	var positions []int
	if len(runes) <= maxPos {
		for i := range runes {
			positions = append(positions, i)
		}
	} else {
		pick := map[int]bool{0: true, len(runes) - 1: true, 63: true, 64: true, len(runes) / 2: true}
		for len(pick) < maxPos {
			pick[r.Intn(len(runes))] = true
		}
		for i := range runes {
			if pick[i] {
				positions = append(positions, i)
			}
		}
	}
	with := func(i int, repl []rune, del int) string {
		o := append([]rune{}, runes[:i]...)
		o = append(o, repl...)
		o = append(o, runes[i+del:]...)
		return string(o)
	}
	for _, i := range positions {
		ch := runes[i]
		add("substitute", with(i, []rune{ch + 1}, 1))
		add("substitute", with(i, []rune{ch ^ 1}, 1))
		if unicode.IsLetter(ch) {
			if unicode.IsUpper(ch) {
				add("case_flip", with(i, []rune{unicode.ToLower(ch)}, 1))
			} else {
				add("case_flip", with(i, []rune{unicode.ToUpper(ch)}, 1))
			}
		}
		add("delete", with(i, nil, 1))
		add("insert", with(i, []rune{'x'}, 0))
		add("insert", with(i, []rune{ch}, 0)) // doubled character
		if i+1 < len(runes) {
			add("transpose", with(i, []rune{runes[i+1], ch}, 2))
		}
	}
	add("insert", p+"x")
	add("trailing_blank", p+" ")
	add("leading_blank", " "+p)
	add("trailing_newline", p+"\n")
	add("append_nul", p+"\x00") // relabelled trailing_nul when it is an HMAC twin
	add("prepend_nul", "\x00"+p)
	if strings.HasSuffix(p, "\x00") {
		add("strip_nul", strings.TrimSuffix(p, "\x00"))
	}
	if strings.HasSuffix(p, " ") {
		add("delete", strings.TrimSuffix(p, " "))
	}
	for _, pair := range nfcNfd {
		if strings.Contains(p, pair[0]) {
			add("nfc_nfd", strings.Replace(p, pair[0], pair[1], 1))
		}
		if strings.Contains(p, pair[1]) {
			add("nfc_nfd", strings.Replace(p, pair[1], pair[0], 1))
		}
	}
	add("upper", strings.ToUpper(p))
	add("lower", strings.ToLower(p))
	add("doubled", p+p)
	add("empty", "")
	add("unrelated", asciiString(r, r.Range(1, 20)))
	if !utf8.ValidString(p) {
		panic("generator produced invalid UTF-8")
	}
	return out
}

// pickNear returns up to n near-misses: one of every kind present first, the
// rest chosen by the PRNG.
func pickNear(r *fw.Rand, all []nearMiss, n int) []nearMiss {
	if len(all) <= n {
		return all
	}
	var out []nearMiss
	used := map[int]bool{}
	kinds := map[string]bool{}
	for i, m := range all {
		if !kinds[m.Kind] && len(out) < n {
			kinds[m.Kind] = true
			used[i] = true
			out = append(out, m)
		}
	}
	for _, i := range r.Perm(len(all)) {
		if len(out) >= n {
			break
		}
		if !used[i] {
			out = append(out, all[i])
		}
	}
	return out
}

// ---------------------------------------------------------------------------
// Reference-written files.

func genParams(r *fw.Rand, format string) refkeystore.Params {
	pr := refkeystore.Params{Salt: hx(r.Bytes(32)), IV: hx(r.Bytes(16))}
	// uuid: 8-4-4-4-12 hex digits
	b := r.Bytes(16)
	pr.ID = fmt.Sprintf("%x-%x-%x-%x-%x", b[0:4], b[4:6], b[6:8], b[8:10], b[10:16])
	switch format {
	case "v3_pbkdf2_ref":
		pr.Version, pr.KDF = 3, "pbkdf2"
		pr.C = []int{1, 2, 7, 16, 100, 1024}[r.Intn(6)]
	case "v1_ref":
		pr.Version, pr.KDF = 1, "scrypt"
		pr.N, pr.R, pr.P = 2, 8, 1
		if r.Chance(1, 3) {
			pr.N, pr.R, pr.P = 4, 1, 2
		}
	case "v3_short_ref":
		pr.Version, pr.KDF, pr.Strip = 3, "scrypt", true
		pr.N, pr.R, pr.P = 2, 8, 1
	default: // v3_scrypt_ref
		pr.Version, pr.KDF = 3, "scrypt"
		pr.N = []int{2, 4, 16, 128}[r.Intn(4)]
		pr.R = []int{1, 8}[r.Intn(2)]
		pr.P = []int{1, 2}[r.Intn(2)]
	}
	return pr
}
