package c20

import (
	"bytes"
	"fmt"
	"os"
	"path/filepath"
	"strings"
	"time"

	"gitlab.com/aquachain/aquachain/aqua/accounts"
	"gitlab.com/aquachain/aquachain/aqua/accounts/keystore"
	"gitlab.com/aquachain/aquachain/common"
	"gitlab.com/aquachain/aquachain/crypto"
	"verif/internal/fw"
	"verif/internal/ref/refkeystore"
)

type storeAccount struct {
	How     string              `json:"how"` // import_ecdsa | preplaced | new_account
	Key     string              `json:"key_class,omitempty"`
	Pass    string              `json:"pass_class"`
	D       string              `json:"d,omitempty"`
	PassHex string              `json:"pass_hex"`
	Ref     *refkeystore.Params `json:"ref,omitempty"`
	Format  string              `json:"format"`
}

type storeInput struct {
	Index    int            `json:"index"`
	Accounts []storeAccount `json:"accounts"`
}

// st is the state of one store case.
type st struct {
	t    tally // only for its per-case limit on written-out violations
	c    *fw.Ctx
	r    *fw.Rand
	ks   *keystore.KeyStore // keystore under test
	ks2  *keystore.KeyStore // second keystore receiving imports
	dir  string
	dir2 string
	hash []byte
}

// call runs f, turning a panic into a value.
func call(f func() error) (err error, pan interface{}) {
	defer func() {
		if r := recover(); r != nil {
			pan = r
		}
	}()
	return f(), nil
}

// signerOK recovers the signer of sig with the reference curve code.
func (x *st) signer(sig []byte) (string, bool) {
	a, err := refkeystore.RecoverAddress(x.hash, sig)
	if err != nil {
		return "unrecoverable signature: " + err.Error(), false
	}
	return hx(a[:]), true
}

// opResult is what one user-level operation did with an account's file.
type opResult struct {
	err   error
	pan   interface{}
	addr  string // address that was observed (signer, imported account, ...)
	d     []byte // secret observed through an independent read of the produced file (Export/Import/Update)
	haveD bool
	// unreadable: the operation succeeded but the independent reader cannot read
	// the file it produced ("mac_mismatch" or "error"); detail in addr
	unreadable string
}

func unreadableCause(err error) string {
	if err == refkeystore.ErrMAC {
		return "mac_mismatch"
	}
	return "error"
}

// The five user-level operations. Each returns what it observed; judging is
// done by the caller so that right-passphrase, near-miss and altered-file runs
// share the code.

func (x *st) opUnlockSign(ks *keystore.KeyStore, acc accounts.Account, pass string) (res opResult) {
	res.err, res.pan = call(func() error { return ks.Unlock(acc, pass) })
	if res.err != nil || res.pan != nil {
		return
	}
	sig, err := ks.SignHash(acc, x.hash)
	ks.Lock(acc.Address)
	if err != nil {
		res.err = fmt.Errorf("unlocked, but SignHash: %v", err)
		res.addr = "sign_failed_after_unlock"
		return
	}
	res.addr, _ = x.signer(sig)
	return
}

func (x *st) opSignWithPass(ks *keystore.KeyStore, acc accounts.Account, pass string) (res opResult) {
	var sig []byte
	res.err, res.pan = call(func() error {
		var e error
		sig, e = ks.SignHashWithPassphrase(acc, pass, x.hash)
		return e
	})
	if res.err != nil || res.pan != nil {
		return
	}
	res.addr, _ = x.signer(sig)
	return
}

func (x *st) opExport(ks *keystore.KeyStore, acc accounts.Account, pass, newPass string) (res opResult, js []byte) {
	res.err, res.pan = call(func() error {
		var e error
		js, e = ks.Export(acc, pass, newPass)
		return e
	})
	if res.err != nil || res.pan != nil {
		return
	}
	f, err := refkeystore.Decrypt(js, newPass)
	if err != nil {
		res.addr, res.unreadable = "export_unreadable: "+err.Error(), unreadableCause(err)
		return
	}
	res.d, res.haveD, res.addr = f.Secret, true, f.Address
	return
}

// opImport imports a key file into the second keystore and reads back what was
// stored there; the imported account is deleted again.
func (x *st) opImport(js []byte, pass, newPass string) (res opResult) {
	var acc accounts.Account
	res.err, res.pan = call(func() error {
		var e error
		acc, e = x.ks2.Import(js, pass, newPass)
		return e
	})
	if res.err != nil || res.pan != nil {
		return
	}
	res.addr = hx(acc.Address[:])
	if b, err := os.ReadFile(acc.URL.Path); err == nil {
		if f, err := refkeystore.Decrypt(b, newPass); err == nil {
			res.d, res.haveD = f.Secret, true
		} else {
			res.addr, res.unreadable = "import_unreadable: "+err.Error(), unreadableCause(err)
		}
	} else {
		res.addr = "import_file_missing: " + err.Error()
	}
	x.ks2.Delete(acc, newPass)
	return
}

// opUpdate re-encrypts the account's file in place under newPass.
func (x *st) opUpdate(ks *keystore.KeyStore, acc accounts.Account, path, pass, newPass string) (res opResult) {
	res.err, res.pan = call(func() error { return ks.Update(acc, pass, newPass) })
	if res.err != nil || res.pan != nil {
		return
	}
	b, err := os.ReadFile(path)
	if err != nil {
		res.addr = "update_file_missing: " + err.Error()
		return
	}
	f, err := refkeystore.Decrypt(b, newPass)
	if err != nil {
		res.addr, res.unreadable = "update_unreadable: "+err.Error(), unreadableCause(err)
		return
	}
	res.d, res.haveD, res.addr = f.Secret, true, f.Address
	return
}

// judge applies the property to one observation.
//
//	mode "right":   must succeed with the original key
//	mode "near":    must fail with an error
//	mode "altered": error, or the original key
func (x *st) judge(mode, op, cause string, s *subject, res opResult, wit map[string]interface{}) (accepted bool) {
	c := x.c
	w := s.witness(wit)
	if res.pan != nil {
		clause := map[string]string{"right": "roundtrip_failed", "near": "wrong_passphrase_panics", "altered": "tamper_panics"}[mode]
		cs := cause
		if mode == "right" {
			cs = "panic"
		}
		x.t.report(c, clause, op, cs, fmt.Sprintf("%s panics: %v", op, res.pan), w)
		return false
	}
	if res.err != nil && res.addr == "" {
		switch mode {
		case "right":
			x.t.report(c, "roundtrip_failed", op, s.format, fmt.Sprintf("%s with the right passphrase: %v", op, res.err), w)
		case "near":
			c.Count("store_nearmiss_rejected")
		case "altered":
			c.Count("store_tamper_rejected")
		}
		return false
	}
	// the operation went through (or went half through: res.addr explains)
	wantAddr := hx(s.addr[:])
	sameAddr := common.HexToAddress(res.addr) == common.Address(s.addr) && len(res.addr) >= 40
	sameD := !res.haveD || bytes.Equal(res.d, s.d)
	obs := fmt.Sprintf("observed address/signer %q", res.addr)
	if res.haveD {
		obs += fmt.Sprintf(", stored secret %x", res.d)
	}
	if res.unreadable != "" && mode != "near" {
		// whatever was decrypted, what the node wrote out is not a readable key file
		x.t.report(c, "stored_file_unreadable_by_reference", op, res.unreadable, fmt.Sprintf("%s succeeded, but the file it wrote: %s", op, res.addr), w)
		return mode != "right"
	}
	if mode == "near" {
		x.t.report(c, "other_passphrase_unlocks", op, cause, fmt.Sprintf("%s accepted a passphrase different from the stored one (%s); %s", op, cause, obs), w)
		return true
	}
	if sameAddr && res.haveD && len(res.d) != 32 && bytes.Equal(bytes.TrimLeft(res.d, "\x00"), bytes.TrimLeft(s.d, "\x00")) {
		// the right key, but written out without its leading zero bytes
		x.t.report(c, "stored_key_not_32_byte_padded", op, "", fmt.Sprintf("%s wrote the secret as %d bytes (%x), want the 32-byte %x", op, len(res.d), res.d, s.d), w)
		return mode != "right"
	}
	switch mode {
	case "right":
		if !sameAddr || !sameD {
			x.t.report(c, "roundtrip_wrong_key", op, s.format, fmt.Sprintf("%s with the right passphrase: %s; want address %s d=%x", op, obs, wantAddr, s.d), w)
			return false
		}
	case "altered":
		if !sameAddr || !sameD {
			x.t.report(c, "tamper_yields_different_key", op, cause, fmt.Sprintf("%s on a file with altered %s succeeded: %s; stored address %s d=%x", op, cause, obs, wantAddr, s.d), w)
			return true
		}
		c.Count("store_tamper_still_original")
	}
	return true
}

func keyFileName(addr [20]byte, n int) string {
	return fmt.Sprintf("UTC--2018-02-0%dT10-11-12.000000000Z--%x", 1+n%9, addr)
}

func runStore(c *fw.Ctx) {
	n := c.Pick(4, 80) // keystores per batch, x16 batches; four accounts each
	for i := 0; i < n; i++ {
		g := c.Batch*n + i
		r := c.Rand("store", fmt.Sprint(i))
		in := &storeInput{Index: g}
		// account 0: ImportECDSA; 1: pre-placed v3-pbkdf2 file; 2: pre-placed v1 file
		// (or, every other case, v3 with a stripped short secret); 3: NewAccount
		specs := []struct{ how, format string }{{"import_ecdsa", "v3_scrypt_repo"}, {"preplaced", "v3_pbkdf2_ref"}, {"preplaced", "v1_ref"}, {"new_account", "v3_scrypt_repo"}}
		if g%3 == 2 {
			specs[2].format = "v3_short_ref"
		}
		ds := make([][]byte, len(specs))
		passes := make([]string, len(specs))
		for k, sp := range specs {
			tpl := templateFor(g*4 + k)
			if sp.format == "v3_short_ref" {
				tpl.Key = []string{"lead1", "lead2", "small"}[g%3]
			}
			a := storeAccount{How: sp.how, Format: sp.format, Pass: tpl.Pass}
			passes[k] = genPass(r, tpl.Pass)
			a.PassHex = hx([]byte(passes[k]))
			if sp.how != "new_account" {
				a.Key = tpl.Key
				ds[k] = genKey(r, tpl.Key)
				a.D = hx(ds[k])
			}
			if sp.how == "preplaced" {
				pr := genParams(r, sp.format)
				a.Ref = &pr
			}
			in.Accounts = append(in.Accounts, a)
		}
		id := fmt.Sprintf("store-%d", i)
		c.Case(id, in, func() {
			x := &st{c: c, r: r, dir: filepath.Join(c.Dir, id+"-a"), dir2: filepath.Join(c.Dir, id+"-b"), hash: r.Bytes(32)}
			defer os.RemoveAll(x.dir)
			defer os.RemoveAll(x.dir2)
			os.MkdirAll(x.dir, 0o700)
			os.MkdirAll(x.dir2, 0o700)
			subjects := make([]*subject, len(specs))
			paths := make([]string, len(specs))
			// pre-placed files must exist before the keystore scans its directory
			for k, a := range in.Accounts {
				if a.How != "preplaced" {
					continue
				}
				addr, _ := refkeystore.AddressOfD(ds[k])
				js, err := refkeystore.Encrypt(ds[k], passes[k], *a.Ref, hx(addr[:]))
				if err != nil {
					panic("reference writer: " + err.Error())
				}
				subjects[k] = &subject{d: ds[k], addr: addr, pass: passes[k], format: a.Format, js: js}
				paths[k] = filepath.Join(x.dir, keyFileName(addr, k))
				if err := os.WriteFile(paths[k], js, 0o600); err != nil {
					panic(err)
				}
			}
			x.ks = keystore.NewKeyStore(x.dir, 2, 1)
			x.ks2 = keystore.NewKeyStore(x.dir2, 2, 1)
			accs := make([]accounts.Account, len(specs))
			for k, a := range in.Accounts {
				switch a.How {
				case "preplaced":
					acc, err := x.ks.Find(accounts.Account{Address: common.Address(subjects[k].addr)})
					if err != nil {
						c.ViolateInput("roundtrip_failed", "Find", a.Format, fmt.Sprintf("a key file placed in the keystore directory is not listed: %v", err), subjects[k].witness(nil))
						subjects[k] = nil
						continue
					}
					accs[k] = acc
					c.Count("store_preplaced_" + map[string]string{"v3_pbkdf2_ref": "pbkdf2", "v1_ref": "v1", "v3_short_ref": "short"}[a.Format])
				case "import_ecdsa":
					addr, _ := refkeystore.AddressOfD(ds[k])
					s := &subject{d: ds[k], addr: addr, pass: passes[k], format: a.Format}
					priv := crypto.ToECDSAUnsafe(ds[k])
					acc, err := x.ks.ImportECDSA(priv, passes[k])
					if err != nil {
						c.ViolateInput("roundtrip_failed", "ImportECDSA", a.Format, err.Error(), s.witness(nil))
						continue
					}
					if acc.Address != common.Address(addr) {
						c.ViolateInput("roundtrip_wrong_key", "ImportECDSA", a.Format, fmt.Sprintf("account address %x, reference address of the imported scalar %x", acc.Address, addr), s.witness(nil))
						continue
					}
					b, err := os.ReadFile(acc.URL.Path)
					if err != nil {
						c.ViolateInput("roundtrip_failed", "ImportECDSA", "file_missing", err.Error(), s.witness(nil))
						continue
					}
					s.js = b
					c.Note("file %s", b)
					if referenceReads(c, s, "ImportECDSA") {
						c.Count("store_importecdsa_checked")
					}
					subjects[k], accs[k], paths[k] = s, acc, acc.URL.Path
				case "new_account":
					acc, err := x.ks.NewAccount(passes[k])
					if err != nil {
						c.Violate("roundtrip_failed", "NewAccount", a.Format, err.Error())
						continue
					}
					b, err := os.ReadFile(acc.URL.Path)
					if err != nil {
						c.Violate("roundtrip_failed", "NewAccount", "file_missing", err.Error())
						continue
					}
					c.Note("file %s", b)
					// the scalar is the node's own choice: learn it through the independent reader
					f, err := refkeystore.Decrypt(b, passes[k])
					if err != nil {
						cause := "error"
						if err == refkeystore.ErrMAC {
							cause = "mac_mismatch"
						}
						c.ViolateInput("stored_file_unreadable_by_reference", "NewAccount", cause, err.Error(), map[string]interface{}{"file": string(b), "pass_hex": a.PassHex})
						continue
					}
					if len(f.Secret) != 32 {
						c.ViolateInput("stored_key_not_32_byte_padded", "NewAccount", "", fmt.Sprintf("stored secret is %d bytes", len(f.Secret)), map[string]interface{}{"file": string(b), "pass_hex": a.PassHex})
						continue
					}
					addr, err := refkeystore.AddressOfD(f.Secret)
					if err != nil {
						c.ViolateInput("roundtrip_wrong_key", "NewAccount", "scalar_out_of_range", fmt.Sprintf("stored scalar %x", f.Secret), map[string]interface{}{"file": string(b), "pass_hex": a.PassHex})
						continue
					}
					s := &subject{d: f.Secret, addr: addr, pass: passes[k], format: a.Format, js: b}
					if acc.Address != common.Address(addr) {
						c.ViolateInput("roundtrip_wrong_key", "NewAccount", a.Format, fmt.Sprintf("account address %x, but the stored scalar's address is %x", acc.Address, addr), s.witness(nil))
						continue
					}
					if referenceReads(c, s, "NewAccount") {
						c.Count("store_newaccount_checked")
					}
					subjects[k], accs[k], paths[k] = s, acc, acc.URL.Path
				}
			}
			nt := 0
			for k := range specs {
				if subjects[k] != nil {
					if x.exercise(subjects[k], accs[k], paths[k], k) {
						nt++
					}
				}
			}
			if subjects[0] != nil {
				x.plainStore(subjects[0])
			}
			if nt == len(specs) {
				c.Nontrivial(fmt.Sprintf("store|%s|%s|%s|%x", in.Accounts[0].D, in.Accounts[1].D, in.Accounts[2].D, x.hash))
			}
			if i == 0 {
				c.Sample(map[string]interface{}{"case": id, "accounts": in.Accounts, "accounts_fully_exercised": nt})
			}
		})
	}
}

// exercise runs the user-level flows for one account.
func (x *st) exercise(s *subject, acc accounts.Account, path string, k int) bool {
	c, r := x.c, x.r
	orig := append([]byte{}, s.js...)
	byAddr := accounts.Account{Address: acc.Address} // address-only lookup, as RPC callers do
	pass3 := genPass(r, passClasses[(k+r.Intn(len(passClasses)))%len(passClasses)])
	good := true

	// --- right passphrase ---------------------------------------------------
	if res := x.opUnlockSign(x.ks, byAddr, s.pass); x.judge("right", "Unlock", "", s, res, nil) && res.err == nil {
		c.Count("store_unlock_sign_signer_checked")
	} else {
		good = false
	}
	if res := x.opSignWithPass(x.ks, acc, s.pass); x.judge("right", "SignHashWithPassphrase", "", s, res, nil) && res.err == nil {
		c.Count("store_signwithpass_signer_checked")
	} else {
		good = false
	}
	expPass := genPass(r, passClasses[r.Intn(len(passClasses))])
	res, exported := x.opExport(x.ks, acc, s.pass, expPass)
	if x.judge("right", "Export", "", s, res, nil) && res.err == nil {
		c.Count("store_export_checked")
		// the exported file under its own passphrase is a stored key like any other
		es := &subject{d: s.d, addr: s.addr, pass: expPass, format: "v3_scrypt_repo", js: exported}
		checkRoundTrip(c, es)
		ires := x.opImport(exported, expPass, pass3)
		if x.judge("right", "Import", "", es, ires, nil) && ires.err == nil {
			c.Count("store_import_checked")
		} else {
			good = false
		}
		for _, m := range pickNear(r, nearMisses(r, expPass, 4), 3) {
			c.Count("store_nearmiss_ops")
			x.judge("near", "Import", m.Kind, es, x.opImport(exported, m.S, pass3), map[string]interface{}{"tried_pass_hex": hx([]byte(m.S))})
		}
	} else {
		good = false
	}

	// --- wrong passphrases and an altered file while the account IS unlocked ---
	x.whileUnlocked(s, acc, byAddr, path, orig)

	// --- near-miss passphrases ----------------------------------------------
	for _, m := range pickNear(r, nearMisses(r, s.pass, 6), 8) {
		wit := map[string]interface{}{"tried_pass_hex": hx([]byte(m.S))}
		x.judge("near", "Unlock", m.Kind, s, x.opUnlockSign(x.ks, byAddr, m.S), wit)
		if _, err := x.ks.SignHash(acc, x.hash); err == nil {
			c.ViolateInput("other_passphrase_unlocks", "SignHash", "signs_after_failed_unlock", "SignHash succeeds while the account should be locked", s.witness(wit))
			x.ks.Lock(acc.Address)
		}
		x.judge("near", "SignHashWithPassphrase", m.Kind, s, x.opSignWithPass(x.ks, acc, m.S), wit)
		eres, _ := x.opExport(x.ks, acc, m.S, expPass)
		x.judge("near", "Export", m.Kind, s, eres, wit)
		ures := x.opUpdate(x.ks, acc, path, m.S, m.S)
		x.judge("near", "Update", m.Kind, s, ures, wit)
		if ures.err == nil && ures.pan == nil {
			os.WriteFile(path, orig, 0o600) // it re-encrypted the file: put the original back
		}
		c.CountN("store_nearmiss_ops", 4)
	}

	// --- altered file on disk -------------------------------------------------
	all, err := enumAlts(orig)
	if err != nil {
		c.ViolateInput("stored_file_unreadable_by_reference", "EncryptKey", "not_flat_json", err.Error(), s.witness(nil))
		return false
	}
	for ai, a := range sampleAlts(r, all, x.c.Pick(6, 10), true) {
		js := a.apply(orig)
		if err := os.WriteFile(path, js, 0o600); err != nil {
			panic(err)
		}
		wit := map[string]interface{}{"alteration": a, "altered_file": string(js)}
		x.judge("altered", "Unlock", a.Field, s, x.opUnlockSign(x.ks, byAddr, s.pass), wit)
		x.judge("altered", "SignHashWithPassphrase", a.Field, s, x.opSignWithPass(x.ks, acc, s.pass), wit)
		eres, _ := x.opExport(x.ks, acc, s.pass, expPass)
		x.judge("altered", "Export", a.Field, s, eres, wit)
		x.judge("altered", "Import", a.Field, s, x.opImport(js, s.pass, pass3), wit)
		c.CountN("store_tamper_ops", 4)
		if ai%3 == 0 {
			x.judge("altered", "Update", a.Field, s, x.opUpdate(x.ks, acc, path, s.pass, s.pass), wit)
			c.Count("store_tamper_ops")
		}
		c.Count("store_tamper_alterations")
	}
	if err := os.WriteFile(path, orig, 0o600); err != nil {
		panic(err)
	}

	// --- change of passphrase, then a fresh keystore object on the same directory
	newPass := genPass(r, passClasses[(k+1+r.Intn(3))%len(passClasses)])
	ures := x.opUpdate(x.ks, acc, path, s.pass, newPass)
	if x.judge("right", "Update", "", s, ures, nil) && ures.err == nil {
		c.Count("store_update_checked")
		ns := &subject{d: s.d, addr: s.addr, pass: newPass, format: "v3_scrypt_repo"}
		ns.js, _ = os.ReadFile(path)
		if newPass != s.pass {
			kind := "old_passphrase_after_update"
			if hmacTwin(newPass, s.pass) {
				kind = "trailing_nul"
			}
			x.judge("near", "Unlock", kind, ns, x.opUnlockSign(x.ks, byAddr, s.pass), map[string]interface{}{"tried_pass_hex": hx([]byte(s.pass))})
		}
		x.judge("right", "Unlock", "", ns, x.opUnlockSign(x.ks, byAddr, newPass), nil)
		fresh := keystore.NewKeyStore(x.dir, 2, 1)
		if res := x.opUnlockSign(fresh, byAddr, newPass); x.judge("right", "Unlock", "", ns, res, nil) && res.err == nil {
			c.Count("store_reopen_checked")
		} else {
			good = false
		}
	} else {
		good = false
	}
	return good
}

// whileUnlocked: the account is unlocked with the right passphrase (once
// indefinitely, once with a one-hour timeout) and left unlocked. In that state
// every further Unlock / TimedUnlock with another passphrase must still return
// an error, and an Unlock against an altered key file must return an error or
// leave the original key in place. Afterwards the account is locked again and
// must not sign. No wall-clock enters a verdict: the one-hour expiry never
// fires inside a case and Lock removes the key synchronously.
func (x *st) whileUnlocked(s *subject, acc, byAddr accounts.Account, path string, orig []byte) {
	c, r := x.c, x.r
	var near []nearMiss
	for _, m := range nearMisses(r, s.pass, 4) {
		if m.Kind != "trailing_nul" { // HMAC twins have their own signature elsewhere
			near = append(near, m)
		}
	}
	near = pickNear(r, near, 3)
	// one alteration of ciphertext or mac to another hex digit (another byte value)
	var cands []alt
	if all, err := enumAlts(orig); err == nil {
		for _, a := range all {
			if (a.Field == "ciphertext" || a.Field == "mac") && strings.Contains(hexDigits, a.To) && !strings.EqualFold(a.From, a.To) {
				cands = append(cands, a)
			}
		}
	}
	for _, state := range []string{"indefinitely", "timed"} {
		op := "Unlock"
		unlock := func() error { return x.ks.Unlock(byAddr, s.pass) }
		if state == "timed" {
			op = "TimedUnlock"
			unlock = func() error { return x.ks.TimedUnlock(byAddr, s.pass, time.Hour) }
		}
		err, pan := call(unlock)
		if pan != nil || err != nil {
			x.t.report(c, "roundtrip_failed", op, s.format, fmt.Sprintf("%s with the right passphrase: err=%v panic=%v", op, err, pan), s.witness(nil))
			x.ks.Lock(acc.Address)
			continue
		}
		sig, err := x.ks.SignHash(acc, x.hash)
		if err != nil {
			x.t.report(c, "roundtrip_failed", "SignHash", s.format, fmt.Sprintf("SignHash after %s: %v", op, err), s.witness(nil))
			x.ks.Lock(acc.Address)
			continue
		}
		if who, _ := x.signer(sig); who != hx(s.addr[:]) {
			x.t.report(c, "roundtrip_wrong_key", op, s.format, fmt.Sprintf("signer after %s is %s, want %x", op, who, s.addr), s.witness(nil))
		}
		cause := "while_unlocked_" + state
		for _, m := range near {
			c.CountN("store_while_unlocked_"+state+"_nearmiss_tried", 2)
			wit := map[string]interface{}{"tried_pass_hex": hx([]byte(m.S)), "kind": m.Kind, "state": "unlocked " + state}
			for _, try := range []struct {
				op string
				f  func() error
			}{
				{"Unlock", func() error { return x.ks.Unlock(byAddr, m.S) }},
				{"TimedUnlock", func() error { return x.ks.TimedUnlock(byAddr, m.S, time.Minute) }},
			} {
				err, pan := call(try.f)
				switch {
				case pan != nil:
					x.t.report(c, "wrong_passphrase_panics", try.op, cause, fmt.Sprintf("panic: %v", pan), s.witness(wit))
				case err == nil:
					x.t.report(c, "other_passphrase_unlocks", try.op, cause,
						fmt.Sprintf("account unlocked %s with the right passphrase; %s then returned nil for the different passphrase %q (%s)", state, try.op, m.S, m.Kind), s.witness(wit))
				default:
					c.Count("store_while_unlocked_" + state + "_nearmiss_rejected")
				}
			}
		}
		if len(cands) > 0 {
			a := cands[r.Intn(len(cands))]
			js := a.apply(orig)
			if err := os.WriteFile(path, js, 0o600); err != nil {
				panic(err)
			}
			wit := map[string]interface{}{"alteration": a, "altered_file": string(js), "state": "unlocked " + state}
			c.Count("store_while_unlocked_altered_tried")
			err, pan := call(func() error { return x.ks.Unlock(byAddr, s.pass) })
			switch {
			case pan != nil:
				x.t.report(c, "tamper_panics", "Unlock", a.Field+"_while_unlocked", fmt.Sprintf("panic: %v", pan), s.witness(wit))
			case err != nil:
				c.Count("store_while_unlocked_altered_rejected")
			default:
				// accepted: the property then demands that the key in use is still the original
				who := "sign_failed"
				if sig, err := x.ks.SignHash(acc, x.hash); err == nil {
					who, _ = x.signer(sig)
				}
				if who != hx(s.addr[:]) {
					x.t.report(c, "tamper_yields_different_key", "Unlock", a.Field+"_while_unlocked",
						fmt.Sprintf("Unlock on a file with altered %s while unlocked %s succeeded and the account signs as %s, want %x", a.Field, state, who, s.addr), s.witness(wit))
				} else {
					c.Count("store_while_unlocked_altered_accepted_original_key")
				}
			}
			if err := os.WriteFile(path, orig, 0o600); err != nil {
				panic(err)
			}
		}
		x.ks.Lock(acc.Address)
		if _, err := x.ks.SignHash(acc, x.hash); err == nil {
			x.t.report(c, "other_passphrase_unlocks", "SignHash", "signs_after_lock", "SignHash succeeds after Lock: later wrong-passphrase observations would not be on a locked account", s.witness(nil))
		} else {
			c.Count("store_lock_checked")
		}
	}
}

// plainStore: the unencrypted store must hand back the identical key as well
// (32-byte hex encoding of scalars with leading zero bytes).
func (x *st) plainStore(s *subject) {
	dir := filepath.Join(x.c.Dir, fmt.Sprintf("plain-%x", s.addr[:6]))
	defer os.RemoveAll(dir)
	ps := &subject{d: s.d, addr: s.addr, pass: "", format: "plain"}
	ks := keystore.NewPlaintextKeyStore(dir)
	acc, err := ks.ImportECDSA(crypto.ToECDSAUnsafe(s.d), "")
	if err != nil {
		x.c.ViolateInput("roundtrip_failed", "ImportECDSA", "plain", err.Error(), ps.witness(nil))
		return
	}
	ps.js, _ = os.ReadFile(acc.URL.Path)
	fresh := keystore.NewPlaintextKeyStore(dir)
	res := x.opUnlockSign(fresh, accounts.Account{Address: acc.Address}, "")
	if x.judge("right", "Unlock", "", ps, res, nil) && res.err == nil {
		x.c.Count("store_plain_roundtrip")
	}
}
