package c02

import (
	"fmt"
	"runtime"
	"strings"
	"sync"
	"time"

	"gitlab.com/aquachain/aquachain/aquadb"
	"gitlab.com/aquachain/aquachain/core/types"
	"gitlab.com/aquachain/aquachain/core/vm"
	"verif/internal/fw"
)

// The node has a second block writer besides InsertChain: the miner writes a
// locally sealed block with BlockChain.WriteBlockWithState directly (opt/miner
// worker), without the import lock. "All orders and batchings" therefore
// includes a local write overlapping an import. These histories run the two
// writers concurrently — with forced interleavings and free-running — and then
// apply the same oracle at rest: whichever order the writers ran in, the head
// must be the heaviest validated block and its total difficulty must not have
// gone down.

// hookDB lets a history park the first writer inside its write section: the
// block writer asks the database for a batch while it holds the chain lock.
type hookDB struct {
	aquadb.Database
	mu   sync.Mutex
	hook func()
}

func (db *hookDB) arm(hook func()) {
	db.mu.Lock()
	db.hook = hook
	db.mu.Unlock()
}

func (db *hookDB) NewBatch() aquadb.Batch {
	db.mu.Lock()
	hook := db.hook
	db.hook = nil
	db.mu.Unlock()
	if hook != nil {
		hook()
	}
	return db.Database.NewBatch()
}

// blockedOnChainLock reports whether some goroutine is parked in a mutex Lock
// called from WriteBlockWithState (the second writer waiting for the first).
func blockedOnChainLock() bool {
	buf := make([]byte, 1<<20)
	buf = buf[:runtime.Stack(buf, true)]
	for _, g := range strings.Split(string(buf), "\n\n") {
		if !strings.Contains(g, ".WriteBlockWithState(") {
			continue
		}
		head := g
		if i := strings.IndexByte(g, '\n'); i >= 0 {
			head = g[:i]
		}
		if strings.Contains(head, "Mutex.Lock") || strings.Contains(head, "semacquire") {
			return true
		}
	}
	return false
}

// writeLocal executes a block on its parent's state and writes it the way the
// miner does with a block it sealed itself.
func (m *monitor) writeLocal(x int) error {
	nd := m.t.Nodes[x]
	parent := m.t.Nodes[nd.Parent].Block
	statedb, err := m.bc.StateAt(parent.Root())
	if err != nil {
		return fmt.Errorf("no parent state: %v", err)
	}
	receipts, _, _, err := m.bc.Processor().Process(nd.Block, statedb, vm.Config{})
	if err != nil {
		return fmt.Errorf("process: %v", err)
	}
	_, err = m.bc.WriteBlockWithState(nd.Block, receipts, statedb)
	return err
}

// race runs an import of block imp and a local write of block loc concurrently.
// schedule: "import_parked" = the import is held inside its write section until
// the local write waits for the chain lock; "local_parked" = the mirror image;
// "free" = both start together, no forcing.
func (m *monitor) race(schedule string, imp, loc int) {
	if m.bc == nil {
		return
	}
	c := m.c
	doImport := func() error {
		_, err := m.bc.InsertChain(types.Blocks{m.t.Nodes[imp].Block})
		return err
	}
	doLocal := func() error { return m.writeLocal(loc) }
	first, second := doImport, doLocal
	if schedule == "local_parked" {
		first, second = doLocal, doImport
	}
	var errFirst, errSecond error
	secondDone := make(chan struct{})
	firstDone := make(chan struct{})
	switch schedule {
	case "free":
		start := make(chan struct{})
		go func() { <-start; errSecond = second(); close(secondDone) }()
		go func() { <-start; errFirst = first(); close(firstDone) }()
		close(start)
	default:
		m.hdb.arm(func() {
			// first writer: inside WriteBlockWithState, chain lock held, head not
			// yet switched. Start the second writer and stay here until it waits
			// for the lock (or has finished, should it never need the lock).
			go func() { errSecond = second(); close(secondDone) }()
			deadline := time.Now().Add(3 * time.Minute) // watchdog only
			for pause := 50 * time.Microsecond; ; {
				if blockedOnChainLock() {
					m.count("forced_interleavings_reached")
					return
				}
				select {
				case <-secondDone:
					c.Count("local_write_race/second_writer_finished_without_waiting")
					return
				default:
				}
				if time.Now().After(deadline) {
					c.Inconclusive("forced_interleaving_not_reached")
					return
				}
				time.Sleep(pause)
				if pause < 5*time.Millisecond {
					pause *= 2
				}
			}
		})
		go func() { errFirst = first(); close(firstDone) }()
	}
	<-firstDone
	<-secondDone
	m.hdb.arm(nil)
	m.calls++
	m.callsSinceRestart++
	m.count("concurrent_write_pairs")
	m.count("schedule_" + schedule)
	m.given[imp], m.given[loc] = true, true
	m.lastGiven = imp
	m.opOverride = "InsertChain||WriteBlockWithState"
	defer func() { m.opOverride = "" }()
	errImp, errLoc := errFirst, errSecond
	if schedule == "local_parked" {
		errImp, errLoc = errSecond, errFirst
	}
	for _, e := range []struct {
		who string
		x   int
		err error
	}{{"import", imp, errImp}, {"local_write", loc, errLoc}} {
		if e.err != nil && m.t.Nodes[e.x].Valid {
			c.Violate("valid_block_rejected", m.opOverride, e.who+":"+errClass(e.err),
				fmt.Sprintf("schedule %s: %s of node %d (valid, parent delivered and executed) failed: %v", schedule, e.who, e.x, e.err))
		}
	}
	var callErr error
	if errImp != nil {
		callErr = errImp
	} else if errLoc != nil {
		callErr = errLoc
	}
	m.check("race:"+schedule, []int{imp, loc}, 0, callErr)
}

// raceShape: a line of k blocks, then two children of its tip: H (heavier) and
// S (lighter), optionally equal (tie), then one child of each delivered
// sequentially afterwards.
func raceShape(r *fw.Rand, tie bool) (*shape, int, int, []hop) {
	s := &shape{Config: configNames[r.Intn(len(configNames))], Tmpl: "local_write_race"}
	k := r.Range(1, 4)
	p := 0
	for i := 0; i < k; i++ {
		p = s.push(p, pickDiff(r))
	}
	ds := diffSet[r.Intn(len(diffSet)-1)]
	dh := ds
	if !tie {
		dh = ds + diffSet[r.Intn(len(diffSet))]
	} else {
		s.Tmpl += "_tie"
	}
	h := s.push(p, dh)
	l := s.push(p, ds)
	ops := splitLine(r, line(1, k), "insert", 3)
	return s, h, l, ops
}

func runRace(c *fw.Ctx) {
	n := c.Pick(6, 60)
	free := c.Pick(4, 40)
	for i := 0; i < n; i++ {
		r := c.Rand("race", fmt.Sprint(i))
		tie := i%6 == 3
		var t *ltree
		var desc interface{}
		var h, l int
		var pre []hop
		if i%3 == 2 {
			// real difficulty rule: H sealed one second after the tip, S 240 s after
			w, db, rt, main, k := realLine(r)
			hb := plainRun(r, w, db, main[k-1], 1, 1)[0]
			sb := plainRun(r, w, db, main[k-1], 1, 240)[0]
			h, l = rt.add(k, hb, "").Idx, rt.add(k, sb, "").Idx
			if rt.Nodes[h].TD.Cmp(rt.Nodes[l].TD) <= 0 {
				c.Count("local_write_race/real_rule_template_not_constructible")
				continue
			}
			t, pre = rt, splitLine(r, line(1, k), "insert", 6)
			desc = map[string]interface{}{"template": "local_write_race_real_rules", "config": "test", "main_len": k, "heavier": h, "lighter": l,
				"td_heavier": rt.Nodes[h].TD.String(), "td_lighter": rt.Nodes[l].TD.String()}
		} else {
			var s *shape
			s, h, l, pre = raceShape(r, tie)
			s.push(l, 1) // follow-ups, delivered sequentially after the race
			s.push(h, 1)
			t = buildShape(r, s, 1).materialize(s)
			desc = *s
		}
		follow := func() []hop {
			var ops []hop
			for _, ch := range t.Nodes[l].Children {
				ops = append(ops, hop{K: "insert", B: []int{ch}})
			}
			for _, ch := range t.Nodes[h].Children {
				ops = append(ops, hop{K: "insert", B: []int{ch}})
			}
			return ops
		}()
		// each pair in all four directed schedules, plus free-running repetitions
		type sc struct {
			k        string
			imp, loc int
		}
		list := []sc{
			{"race_import_parked", h, l}, // import of the heavier block held, local lighter block waits
			{"race_local_parked", l, h},  // local heavier block held, import of the lighter one waits
			{"race_import_parked", l, h}, // controls: the lighter block goes first
			{"race_local_parked", h, l},
		}
		for j := 0; j < free; j++ {
			if j%2 == 0 {
				list = append(list, sc{"race_free", h, l})
			} else {
				list = append(list, sc{"race_free", l, h})
			}
		}
		for j, x := range list {
			ops := append(append(append([]hop{}, pre...), hop{K: x.k, B: []int{x.imp, x.loc}}), follow...)
			mode := []string{"pruning", "archive"}[(i+j)%2]
			c.Count("local_write_race/histories")
			runHistory(c, fmt.Sprintf("race-%d-%d", i, j), t, history{Tree: desc, Mode: mode, Ops: ops, Hook: true}, i == 0 && j < 2)
		}
	}
}
