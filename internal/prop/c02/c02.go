// Package c02: the head is always a heaviest fully validated block.
//
// Monitor: the harness generates a block tree (it therefore knows every block's
// parent, difficulty, ledger total difficulty and whether the block and all its
// ancestors are self-consistent), feeds parent-closed arrival orders of it to a
// real core.BlockChain in batches, and after every InsertChain call — at rest —
// compares the node with the ledger:
//
//   - the head is a block of the tree, self-consistent with all its ancestors, and
//     executed by the node;
//   - the head's ledger total difficulty equals the maximum over all blocks the
//     node has validated so far (equality of the number: a tie may go either way);
//   - the node's own total-difficulty record of the head never decreases;
//   - every stored record (cache and database) = parent's record + own difficulty;
//   - a valid block the node stored and that is heavier than the head is never
//     left unexecuted after a successful call (side chains on pruned ancestors).
//
// Legs: small (<= 7 blocks, difficulties from {1,2,3,5,8,13}, ALL topological
// arrival orders), medium (8..24 blocks, sampled orders, restarts of a pruning
// node so side chains hit the pruned-ancestor path, hostile never-executed side
// blocks), real (trees of the shared generator under the real difficulty rule
// with transactions and uncles), deep (fork > 128 blocks below the head of a
// pruning node), header (the header-only chain through InsertHeaderChain),
// local_write_race (an import and a miner-style WriteBlockWithState running
// concurrently, forced and free interleavings; thorough also under -race).
package c02

import (
	"fmt"
	"math/big"
	"runtime"
	"runtime/debug"
	"time"

	"gitlab.com/aquachain/aquachain/common/log"
	"gitlab.com/aquachain/aquachain/consensus/aquahash"
	"gitlab.com/aquachain/aquachain/core/types"
	"verif/internal/fw"
	"verif/internal/gen"
)

func init() {
	fw.Register(&fw.Prop{
		ID:    "C02",
		Title: "The head is always a heaviest fully validated block",
		Level: "exploration",
		Rule: "a case is one import history (tree, arrival order, batching, restarts) run against a fresh real BlockChain and checked after every call. " +
			"small: trees of <= 7 blocks from forced templates (shorter-heavier, tie at unequal/equal height, late-heaviest side branch, invalid heavy block, star, random) with per-block difficulties from {1,2,3,5,8,13} under the full-fake engine: every topological arrival order (quick: capped at 300 sampled orders when a tree has more) x one PRNG batching with re-deliveries; " +
			"medium: 8..24 blocks, PRNG parent-closed orders with branch runs, restarts of pruning nodes, forced pruned-ancestor, borrowed-state-root and longer-lighter-branch-regains-after-restart templates; real: gen.GrowTree trees (26..40 main blocks, forks, uncles, transactions, 23-fast-block shorter-heavier branch, equal-height tie) under the real difficulty rule; deep: fork >128 blocks below the head of a pruning node, and a 270-block line overtaken and regaining the head without a restart (block-cache eviction); header: the same trees through InsertHeaderChain; local_write_race: two sibling children of the head (heavier/lighter, or tied), one imported with InsertChain and the other written with WriteBlockWithState the way the miner does, concurrently: all four directed forced interleavings (first writer parked inside its write section until the second waits for the chain lock) plus free-running repetitions, then children of both delivered sequentially. " +
			"non-trivial = at least one reorg happened and after at least one call the head was not the last block delivered; distinct = hash of (tree description, history).",
		Legs: func(tier string) []fw.Leg {
			legs := []fw.Leg{
				{Name: "small", Variant: "plain", Batches: 16, Timeout: 120 * time.Minute},
				{Name: "medium", Variant: "plain", Batches: 16, Timeout: 120 * time.Minute},
				{Name: "real", Variant: "plain", Batches: 16, Timeout: 120 * time.Minute},
				{Name: "deep", Variant: "plain", Batches: 8, Timeout: 120 * time.Minute},
				{Name: "header", Variant: "plain", Batches: 8, Timeout: 120 * time.Minute},
				{Name: "local_write_race", Variant: "plain", Batches: 8, Timeout: 120 * time.Minute},
			}
			if tier == "thorough" {
				// the same concurrent-writer histories under the race detector
				legs = append(legs, fw.Leg{Name: "local_write_race_tsan", Variant: "race", Batches: 8, Timeout: 120 * time.Minute})
			}
			return legs
		},
		Run: run,
		Gate: func(tier string) map[string]int {
			return map[string]int{
				"small/trees_all_orders_enumerated":                           10,
				"small/reorg_to_shorter_heavier":                              20,
				"small/histories_with_tie_at_unequal_height":                  20,
				"small/histories_with_tie_at_equal_height":                    20,
				"small/side_branch_became_heaviest":                           20,
				"small/invalid_block_rejected":                                20,
				"medium/restart":                                              10,
				"medium/block_stored_without_state":                           8,
				"medium/side_block_executed_after_being_stored_without_state": 8,
				"medium/reorg_to_shorter_heavier":                             8,
				"medium/reorg_to_branch_two_longer_first_call_after_restart":  16,
				"deep/cache_eviction_histories":                               4,
				"deep/reorg_to_branch_two_longer_by_single_block":             4,
				"medium/borrowed_state_root_histories":                        8,
				"real/reorg_to_shorter_heavier":                               8,
				"real/histories_with_tie_at_equal_height":                     8,
				"real/side_branch_became_heaviest":                            8,
				"real/hostile_side_chain_histories":                           40,
				"deep/block_stored_without_state":                             4,
				"deep/side_block_executed_after_being_stored_without_state":   4,
				"header/reorgs":                                               8,
				"local_write_race/histories":                                  200,
				"local_write_race/forced_interleavings_reached":               100,
				"local_write_race/schedule_free":                              50,
				"header/reorg_to_shorter_heavier":                             4,
				"td_records_compared":                                         5000,
				"quiescent_checks":                                            2000,
			}
		},
		AnchorFiles: []string{"core/blockchain.go", "core/headerchain.go", "core/database_util.go"},
		Assumptions: []string{
			"the ledger's total difficulty of a block is the sum of the header difficulties from the genesis, computed by the harness with math/big when it generates the tree; it never reads the node's records",
			"'fully validated' = the block and all its ancestors are self-consistent (known to the generator) and header, body and the state of its root are present in the node's database / state cache after a call that offered it (read without going through the chain's block cache, so the monitor never warms it); the set is sticky across restarts of a pruning node",
			"small/medium/deep trees run under aquahash.NewFullFaker (no header rule is checked, so arbitrary difficulties are admissible; core's total-difficulty and fork-choice code is unchanged); real trees run under aquahash.NewFaker (every header rule except the seal)",
			"blocks with chosen difficulty are the builder's blocks (core.GenerateChain) re-headered with new Difficulty/ParentHash; their transactions do not read DIFFICULTY, BLOCKHASH or TIMESTAMP, so roots stay valid",
			"the header-only leg reads 'head' as CurrentHeader and 'validated' as 'header accepted', as the property's mechanism note (headerchain.WriteHeader uses the same rule) says",
		},
	})
}

func run(c *fw.Ctx) {
	log.Root().SetHandler(log.DiscardHandler())
	// thousands of short-lived chains over in-memory databases: the live heap is
	// tiny, so let it grow between collections
	debug.SetGCPercent(800)
	// the driver runs 16 children side by side; the histories are sequential
	runtime.GOMAXPROCS(2)
	switch c.Leg {
	case "small":
		runSmall(c)
	case "medium":
		runMedium(c)
	case "real":
		runReal(c)
	case "deep":
		runDeep(c)
	case "header":
		runHeader(c)
	case "local_write_race", "local_write_race_tsan":
		runRace(c)
	}
}

// history is the logged input of one case.
type history struct {
	Tree  interface{} `json:"tree"`
	Mode  string      `json:"mode"`
	Hdr   bool        `json:"header_only,omitempty"`
	Ops   []hop       `json:"ops"`
	Order []int       `json:"order,omitempty"`
	Hook  bool        `json:"-"`
}

// runHistory executes one history against a fresh node and checks after every step.
func runHistory(c *fw.Ctx, id string, t *ltree, h history, sample bool) {
	c.Case(id, h, func() {
		m, err := newMonitor(c, t, h.Mode, h.Hdr, h.Hook)
		if err != nil {
			panic(err)
		}
		defer m.close()
		for _, o := range h.Ops {
			m.step(o)
			if m.bc == nil || m.dead {
				break
			}
		}
		if m.reorgs > 0 && m.headNotLast > 0 {
			c.Nontrivial(fmt.Sprintf("%v|%v|%v|%v", h.Tree, h.Mode, h.Hdr, h.Ops))
			c.Count("nontrivial_histories")
		}
		if sample && c.WantSample() {
			c.Sample(map[string]interface{}{"case": id, "history": h, "observed": m.summary()})
		}
	})
}

func modeOf(r *fw.Rand) string {
	if r.Bool() {
		return "archive"
	}
	return "pruning"
}

// ---------------------------------------------------------------------------
// small: all arrival orders.

func runSmall(c *fw.Ctx) {
	nShapes := c.Pick(3, 40)
	capOrders := c.Pick(300, 1<<30)
	variants := c.Pick(1, 2)
	exTrees, exOrders := 0, 0
	defer func() {
		// the sub-space that was enumerated completely: every topological arrival
		// order of these trees (summed over batches by the driver)
		c.Extra("small_trees_with_all_arrival_orders_run", float64(exTrees))
		c.Extra("arrival_orders_in_exhaustive_subspace", float64(exOrders))
	}()
	for i := 0; i < nShapes; i++ {
		tmpl := smallTemplates[(c.Batch*nShapes+i)%len(smallTemplates)]
		r := c.Rand("small", fmt.Sprint(i))
		s := smallShape(r, tmpl)
		bt := buildShape(r, s, 2)
		for v := 0; v < variants; v++ {
			if v > 0 {
				// same shape, fresh difficulties
				for k := range s.Diffs {
					s.Diffs[k] = pickDiff(r)
				}
				s.Tmpl = tmpl + "+rediff"
			}
			t := bt.materialize(s)
			total := countOrders(s)
			k := 0
			runOrder := func(order []int) {
				ord := append([]int{}, order...)
				ops := batchOrder(r, s.Parents, ord, r.Intn(9), r.Chance(1, 4), "insert")
				h := history{Tree: *s, Mode: modeOf(r), Ops: ops, Order: ord}
				runHistory(c, fmt.Sprintf("small-%d-%d-%d", i, v, k), t, h, k == 0 && i < 3)
				k++
			}
			if total <= int64(capOrders) {
				allOrders(s, runOrder)
				c.Count("small/trees_all_orders_enumerated")
				exTrees, exOrders = exTrees+1, exOrders+k
				if int64(k) != total {
					panic(fmt.Sprintf("enumerated %d orders, formula says %d", k, total))
				}
			} else {
				seen := map[string]bool{}
				for tries := 0; len(seen) < capOrders && tries < 4*capOrders; tries++ {
					o := randomOrder(r, s.Parents, r.Intn(5))
					if key := orderKey(o); !seen[key] {
						seen[key] = true
						runOrder(o)
					}
				}
				c.Count("small/trees_orders_sampled")
			}
			c.CountN("small/orders_run", k)
		}
	}
}

// ---------------------------------------------------------------------------
// medium: sampled orders, restarts, pruned ancestors, hostile side blocks.

var mediumTemplates = []string{"random", "shorter_heavier", "pruned_restart", "tie", "borrowed_state_root", "invalid_heavy", "pruned_restart_one_batch", "borrowed_state_root_control",
	"longer_lighter_regains_after_restart_archive", "longer_lighter_regains_after_restart_pruning"}

// withRestarts inserts restart steps at PRNG positions.
func withRestarts(r *fw.Rand, ops []hop, perEight int) []hop {
	var out []hop
	for i, o := range ops {
		out = append(out, o)
		if i+1 < len(ops) && r.Intn(8) < perEight {
			out = append(out, hop{K: "restart"})
		}
	}
	return out
}

func line(from, to int) []int {
	var b []int
	for i := from; i <= to; i++ {
		b = append(b, i)
	}
	return b
}

// splitLine cuts a linked line into PRNG batches.
func splitLine(r *fw.Rand, b []int, kind string, maxBatch int) []hop {
	var ops []hop
	for len(b) > 0 {
		n := r.Range(1, maxBatch)
		if n > len(b) {
			n = len(b)
		}
		ops = append(ops, hop{K: kind, B: append([]int{}, b[:n]...)})
		b = b[n:]
	}
	return ops
}

// prunedRestartCase: a side branch is imported, the pruning node restarts (side
// states are gone), the branch is extended by a light block (stored without
// state) and then by a heavy one (the node must execute the whole side chain
// and adopt it).
func prunedRestartCase(r *fw.Rand, oneBatch bool) (*shape, []hop) {
	s := &shape{Config: configNames[r.Intn(len(configNames))], Tmpl: "pruned_restart"}
	k := r.Range(4, 8)
	p := 0
	for i := 0; i < k; i++ {
		p = s.push(p, 2)
	}
	fork := r.Range(1, k-3)
	s1 := s.push(fork, 1)
	s2 := s.push(s1, 1)
	s3 := s.push(s2, 1)
	s4 := s.push(s3, int64(2*k+13))
	s5 := s.push(s4, 1)
	ops := splitLine(r, line(1, k), "insert", 4)
	ops = append(ops, hop{K: "insert", B: []int{s1, s2}}, hop{K: "restart"})
	if oneBatch {
		ops = append(ops, hop{K: "insert", B: []int{s3, s4, s5}})
	} else {
		ops = append(ops, hop{K: "insert", B: []int{s3}}, hop{K: "insert", B: []int{s4}}, hop{K: "insert", B: []int{s5}})
	}
	return s, ops
}

// borrowedRootCase: after a restart of a pruning node only the states of the
// head and its parent exist. X is a sibling of the head's parent m[k-1] that
// claims m[k-1]'s state root but carries a gas figure and receipt root no
// execution can produce; its parent's state is pruned, so the node stores it
// without executing it. Y is the head block's body and header re-parented onto
// X with a large difficulty: it executes correctly on the state root X claims.
// A node that adopts Y has a head whose chain contains a block that never
// passed validation. control = the same blocks without the restart (X's parent
// state is present, X is executed and rejected).
func borrowedRootCase(r *fw.Rand, control bool) (*shape, []hop) {
	s := &shape{Config: configNames[r.Intn(len(configNames))], Tmpl: "borrowed_state_root"}
	k := r.Range(4, 8)
	p := 0
	for i := 0; i < k; i++ {
		p = s.push(p, 2)
	}
	x := s.push(k-2, 1)
	s.Clone[x-1], s.Bad[x-1] = k-1, "never_executable_borrowed_state_root"
	y := s.push(x, 13)
	s.Clone[y-1] = k
	ops := splitLine(r, line(1, k), "insert", 4)
	if !control {
		ops = append(ops, hop{K: "restart"})
	} else {
		s.Tmpl += "_control"
	}
	if r.Bool() {
		ops = append(ops, hop{K: "insert", B: []int{x, y}})
	} else {
		ops = append(ops, hop{K: "insert", B: []int{x}}, hop{K: "insert", B: []int{y}})
	}
	return s, ops
}

// regainCase: a long light line S is overtaken by a short heavy branch A, the
// node restarts (all caches empty), and then ONE more S block makes S the
// heaviest again: the reorg has to walk down a new branch that is several
// blocks longer than the old one and whose blocks were all delivered by earlier
// calls (nothing of it is in the node's caches).
func regainCase(r *fw.Rand) (*shape, []hop) {
	s := &shape{Config: configNames[r.Intn(len(configNames))], Tmpl: "longer_lighter_regains_after_restart"}
	k := r.Range(5, 8)
	p := 0
	for i := 0; i < k; i++ {
		p = s.push(p, 1)
	}
	fork := r.Intn(2) // genesis or S1
	a1 := s.push(fork, int64(k))
	a2 := s.push(a1, int64(k))
	last := s.push(k, int64(k+5)) // td(S) = 2k+5 > td(A) <= 2k+1
	ops := splitLine(r, line(1, k), "insert", 4)
	ops = append(ops, hop{K: "insert", B: []int{a1, a2}}, hop{K: "restart"}, hop{K: "insert", B: []int{last}})
	return s, ops
}

func runMedium(c *fw.Ctx) {
	nShapes := c.Pick(10, 160)
	nOrders := c.Pick(8, 40)
	for i := 0; i < nShapes; i++ {
		tmpl := mediumTemplates[(c.Batch*nShapes+i)%len(mediumTemplates)]
		r := c.Rand("medium", fmt.Sprint(i))
		switch tmpl {
		case "pruned_restart", "pruned_restart_one_batch":
			s, ops := prunedRestartCase(r, tmpl == "pruned_restart_one_batch")
			t := buildShape(r, s, 2).materialize(s)
			runHistory(c, fmt.Sprintf("medium-%d-forced", i), t, history{Tree: *s, Mode: "pruning", Ops: ops}, i < 3)
			continue
		case "longer_lighter_regains_after_restart_archive", "longer_lighter_regains_after_restart_pruning":
			s, ops := regainCase(r)
			t := buildShape(r, s, 2).materialize(s)
			mode := "archive"
			if tmpl == "longer_lighter_regains_after_restart_pruning" {
				mode = "pruning"
			}
			runHistory(c, fmt.Sprintf("medium-%d-forced", i), t, history{Tree: *s, Mode: mode, Ops: ops}, false)
			continue
		case "borrowed_state_root", "borrowed_state_root_control":
			s, ops := borrowedRootCase(r, tmpl == "borrowed_state_root_control")
			t := buildShape(r, s, 2).materialize(s)
			if tmpl == "borrowed_state_root" {
				c.Count("medium/borrowed_state_root_histories")
			}
			runHistory(c, fmt.Sprintf("medium-%d-forced", i), t, history{Tree: *s, Mode: "pruning", Ops: ops}, false)
			continue
		}
		s := mediumShape(r, tmpl)
		t := buildShape(r, s, 2).materialize(s)
		for k := 0; k < nOrders; k++ {
			order := randomOrder(r, s.Parents, r.Range(2, 7))
			ops := batchOrder(r, s.Parents, order, r.Intn(6), r.Chance(1, 3), "insert")
			mode := modeOf(r)
			if r.Chance(1, 2) {
				ops = withRestarts(r, ops, r.Range(1, 3))
			}
			runHistory(c, fmt.Sprintf("medium-%d-%d", i, k), t, history{Tree: *s, Mode: mode, Ops: ops, Order: order}, k == 0 && i < 2)
		}
	}
}

// ---------------------------------------------------------------------------
// real: trees of the shared generator under the real difficulty rule.

type realDesc struct {
	Kind   string       `json:"kind"`
	Spec   gen.TreeSpec `json:"spec"`
	Blocks int          `json:"blocks"`
	Tips   int          `json:"tips"`
	MaxTD  string       `json:"max_td"`
	Seed   string       `json:"prng_labels"`
}

func growReal(c *fw.Ctx, r *fw.Rand, label string) (*ltree, []int, realDesc) {
	w := gen.NewWorld(r, gen.ConfigTest(), 4)
	spec := gen.TreeSpec{MainLen: r.Range(26, 40), Forks: r.Range(2, 4), MaxForkLen: 8, MaxTx: 3, Uncles: true, ShorterHeavier: true, Tie: true, ReuseTx: true}
	gt := gen.GrowTree(r, w, spec)
	t := fromGenTree(gt)
	parents := make([]int, len(t.Nodes)-1)
	for i := 1; i < len(t.Nodes); i++ {
		parents[i-1] = t.Nodes[i].Parent
	}
	// the ledger's arithmetic must agree with the generator's
	if t.maxTD().Cmp(gt.MaxTD()) != 0 {
		panic("ledger arithmetic disagrees with generator")
	}
	return t, parents, realDesc{Kind: "gen.GrowTree", Spec: spec, Blocks: len(gt.Order), Tips: len(gt.Tips()), MaxTD: gt.MaxTD().String(),
		Seed: fmt.Sprintf("%s/%s/%d/%s", c.Prop, c.Leg, c.Batch, label)}
}

func (t *ltree) maxTD() *big.Int {
	m := new(big.Int)
	for _, n := range t.Nodes {
		if n.TD.Cmp(m) > 0 {
			m = n.TD
		}
	}
	return m
}

func runReal(c *fw.Ctx) {
	nTrees := c.Pick(1, 12)
	nOrders := c.Pick(8, 40)
	// hostile side chains under the real header rules
	for i := 0; i < c.Pick(1, 6); i++ {
		type mk func(r *fw.Rand) (*ltree, []hop, map[string]interface{}, bool)
		for j, f := range []mk{
			func(r *fw.Rand) (*ltree, []hop, map[string]interface{}, bool) { return borrowedRootReal(r, false) },
			func(r *fw.Rand) (*ltree, []hop, map[string]interface{}, bool) { return borrowedRootReal(r, true) },
			func(r *fw.Rand) (*ltree, []hop, map[string]interface{}, bool) {
				return prunedBodyReal(r, "bad_tx_root", false)
			},
			func(r *fw.Rand) (*ltree, []hop, map[string]interface{}, bool) {
				return prunedBodyReal(r, "bad_uncle_hash", false)
			},
			func(r *fw.Rand) (*ltree, []hop, map[string]interface{}, bool) {
				return prunedBodyReal(r, "bad_tx_root", true)
			},
		} {
			t, ops, desc, ok := f(c.Rand("real-hostile", fmt.Sprint(i), fmt.Sprint(j)))
			if !ok {
				// the difficulty rule did not give the weights the template needs
				c.Count("real/hostile_template_not_constructible")
				continue
			}
			c.Count("real/hostile_side_chain_histories")
			runHistory(c, fmt.Sprintf("real-hostile-%d-%d", i, j), t, history{Tree: desc, Mode: "pruning", Ops: ops}, false)
		}
	}
	for i := 0; i < nTrees; i++ {
		r := c.Rand("real", fmt.Sprint(i))
		t, parents, desc := growReal(c, r, fmt.Sprint(i))
		for k := 0; k < nOrders; k++ {
			var order []int
			if k == 0 {
				order = line(1, len(parents)) // generation order: main line first, the heavier shorter branch and the tie last
			} else {
				order = randomOrder(r, parents, r.Range(3, 7))
			}
			ops := batchOrder(r, parents, order, r.Intn(5), r.Chance(1, 3), "insert")
			mode := modeOf(r)
			if r.Chance(1, 3) {
				ops = withRestarts(r, ops, 1)
			}
			runHistory(c, fmt.Sprintf("real-%d-%d", i, k), t, history{Tree: desc, Mode: mode, Ops: ops}, k == 0 && i == 0)
		}
	}
}

// ---------------------------------------------------------------------------
// deep: a side branch forking more than 128 blocks below the head of a pruning
// node (its fork point's state has been garbage-collected from memory and was
// never written to disk).

// evictionCase: no restart. A 270-block light line S, a 3-block heavy branch A
// from the genesis (the reorg to A walks the whole old chain through the node's
// 256-entry block cache, pushing the top of S out of it), then one more S block
// that makes S heaviest again: the walk down the new branch reads blocks that
// are in the database only.
func runEviction(c *fw.Ctx, i int) {
	r := c.Rand("deep-evict", fmt.Sprint(i))
	s := &shape{Config: configNames[r.Intn(len(configNames))], Tmpl: "cache_eviction"}
	L := r.Range(268, 276)
	p := 0
	for k := 0; k < L; k++ {
		p = s.push(p, 1)
	}
	a := s.push(0, 100)
	a = s.push(a, 100)
	a = s.push(a, int64(L-190)) // td(A) = L+10
	last := s.push(L, 40)       // td(S) = L+40
	t := buildShape(r, s, 0).materialize(s)
	ops := splitLine(r, line(1, L), "insert", 90)
	ops = append(ops, hop{K: "insert", B: []int{a - 2, a - 1, a}}, hop{K: "insert", B: []int{last}})
	desc := map[string]interface{}{"template": "cache_eviction", "config": s.Config, "light_line": L, "heavy_branch": "3 blocks from genesis, td L+10", "last_block_difficulty": 40}
	mode := []string{"archive", "pruning"}[(c.Batch+i)%2]
	c.Count("deep/cache_eviction_histories")
	runHistory(c, fmt.Sprintf("deep-evict-%d", i), t, history{Tree: desc, Mode: mode, Ops: ops}, false)
}

func runDeep(c *fw.Ctx) {
	nTrees := c.Pick(1, 4)
	for i := 0; i < nTrees; i++ {
		runEviction(c, i)
		r := c.Rand("deep", fmt.Sprint(i))
		s := &shape{Config: configNames[r.Intn(len(configNames))], Tmpl: "deep_fork"}
		L := r.Range(134, 150)
		p := 0
		sum := int64(0)
		for k := 0; k < L; k++ {
			d := int64(r.Range(1, 3))
			sum += d
			p = s.push(p, d)
		}
		fork := r.Range(1, L-131)
		s1 := s.push(fork, 1)
		s2 := s.push(s1, 2)
		s3 := s.push(s2, sum+5)
		s4 := s.push(s3, 1)
		t := buildShape(r, s, 1).materialize(s)
		for k := 0; k < c.Pick(2, 6); k++ {
			ops := splitLine(r, line(1, L), "insert", 60)
			switch k % 3 {
			case 0:
				ops = append(ops, hop{K: "insert", B: []int{s1}}, hop{K: "insert", B: []int{s2}}, hop{K: "insert", B: []int{s3}}, hop{K: "insert", B: []int{s4}})
			case 1:
				ops = append(ops, hop{K: "insert", B: []int{s1, s2, s3, s4}})
			default:
				ops = append(ops, hop{K: "insert", B: []int{s1, s2}}, hop{K: "restart"}, hop{K: "insert", B: []int{s3, s4}})
			}
			// the input names the construction instead of 150 parent indices
			desc := map[string]interface{}{"template": "deep_fork", "config": s.Config, "main_len": L, "fork_at": fork, "side_diffs": s.Diffs[L:], "main_td": sum}
			runHistory(c, fmt.Sprintf("deep-%d-%d", i, k), t, history{Tree: desc, Mode: "pruning", Ops: compactOps(ops)}, k == 0 && i == 0)
		}
	}
}

// compactOps keeps histories over long lines readable in logs: nothing is
// changed, the ops already are index lists.
func compactOps(ops []hop) []hop { return ops }

// ---------------------------------------------------------------------------
// header: the header-only chain applies the same rule.

func runHeader(c *fw.Ctx) {
	nShapes := c.Pick(4, 120)
	nOrders := c.Pick(6, 30)
	for i := 0; i < nShapes; i++ {
		r := c.Rand("header", fmt.Sprint(i))
		var t *ltree
		var parents []int
		var desc interface{}
		if i%4 == 3 {
			var d realDesc
			t, parents, d = growReal(c, r, fmt.Sprint(i))
			desc = d
		} else {
			tm := []string{"random", "shorter_heavier", "tie"}[i%3]
			var s *shape
			if i%2 == 0 {
				s = mediumShape(r, tm)
			} else {
				s = smallShape(r, []string{"shorter_heavier", "tie_unequal_height", "tie_equal_height", "late_heaviest", "star"}[(i/2)%5])
			}
			t = buildShape(r, s, 1).materialize(s)
			parents, desc = s.Parents, *s
		}
		for k := 0; k < nOrders; k++ {
			order := randomOrder(r, parents, r.Range(0, 7))
			ops := batchOrder(r, parents, order, r.Intn(6), r.Chance(1, 3), "headers")
			if r.Chance(1, 4) {
				ops = withRestarts(r, ops, 1)
			}
			runHistory(c, fmt.Sprintf("header-%d-%d", i, k), t, history{Tree: desc, Mode: "pruning", Hdr: true, Ops: ops, Order: order}, k == 0 && i == 0)
		}
	}
}

var _ = aquahash.NewFaker
var _ types.Blocks
