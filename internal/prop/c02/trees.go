package c02

import (
	"context"
	"fmt"
	"math/big"

	"gitlab.com/aquachain/aquachain/aquadb"
	"gitlab.com/aquachain/aquachain/common"
	"gitlab.com/aquachain/aquachain/consensus"
	"gitlab.com/aquachain/aquachain/consensus/aquahash"
	"gitlab.com/aquachain/aquachain/core"
	"gitlab.com/aquachain/aquachain/core/types"
	"gitlab.com/aquachain/aquachain/core/vm"
	"gitlab.com/aquachain/aquachain/params"
	"verif/internal/fw"
	"verif/internal/gen"
)

// ---------------------------------------------------------------------------
// The ledger tree: what the harness knows about every block it generated.

// lnode is one generated block. Index 0 is the genesis block.
type lnode struct {
	Idx      int
	Parent   int
	Block    *types.Block
	Height   uint64
	Diff     *big.Int
	TD       *big.Int // ledger arithmetic: parent TD + own difficulty
	Bad      string   // non-empty: the block itself is not self-consistent (kind of corruption)
	Valid    bool     // the block and every ancestor are self-consistent
	Children []int
}

type ltree struct {
	W       *gen.World
	Genesis *types.Block
	Nodes   []*lnode
	ByHash  map[common.Hash]int
	Engine  string // "fullfake": no header rule is checked (arbitrary difficulties); "fake": every header rule except the seal
}

func (t *ltree) engine() consensus.Engine {
	if t.Engine == "fullfake" {
		return aquahash.NewFullFaker()
	}
	return aquahash.NewFaker()
}

func (t *ltree) newChain(db aquadb.Database, cache *core.CacheConfig) (*core.BlockChain, error) {
	return core.NewBlockChain(context.Background(), db, cache, t.W.Config, t.engine(), vm.Config{})
}

func (t *ltree) add(parent int, b *types.Block, bad string) *lnode {
	p := t.Nodes[parent]
	n := &lnode{Idx: len(t.Nodes), Parent: parent, Block: b, Height: b.NumberU64(), Diff: new(big.Int).Set(b.Difficulty()),
		TD: new(big.Int).Add(p.TD, b.Difficulty()), Bad: bad, Valid: p.Valid && bad == ""}
	t.Nodes = append(t.Nodes, n)
	p.Children = append(p.Children, n.Idx)
	t.ByHash[b.Hash()] = n.Idx
	return n
}

func newLtree(w *gen.World, genesis *types.Block, engine string) *ltree {
	t := &ltree{W: w, Genesis: genesis, ByHash: map[common.Hash]int{}, Engine: engine}
	t.Nodes = []*lnode{{Idx: 0, Parent: -1, Block: genesis, Diff: new(big.Int).Set(genesis.Difficulty()), TD: new(big.Int).Set(genesis.Difficulty()), Valid: true}}
	t.ByHash[genesis.Hash()] = 0
	return t
}

// isAncestor reports whether a is b or an ancestor of b.
func (t *ltree) isAncestor(a, b int) bool {
	for x := b; x >= 0; x = t.Nodes[x].Parent {
		if x == a {
			return true
		}
		if t.Nodes[x].Height <= t.Nodes[a].Height {
			return false
		}
	}
	return false
}

// fromGenTree converts a tree grown by the shared generator (real difficulty
// rule, transactions, uncles).
func fromGenTree(gt *gen.Tree) *ltree {
	t := newLtree(gt.W, gt.Genesis, "fake")
	for _, b := range gt.Order {
		p, ok := t.ByHash[b.Block.ParentHash()]
		if !ok {
			panic("generator tree not parent-closed")
		}
		t.add(p, b.Block, "")
	}
	return t
}

// ---------------------------------------------------------------------------
// Shapes with per-block difficulties chosen by the harness.

// shape describes a tree: node i+1 (1-based; 0 is the genesis) has parent
// Parents[i] < i+1, difficulty Diffs[i], and is corrupted in the way Bad[i]
// says ("" = self-consistent).
type shape struct {
	Config  string   `json:"config"`
	Parents []int    `json:"parents"`
	Diffs   []int64  `json:"diffs"`
	Bad     []string `json:"bad,omitempty"`
	// Clone[i] = j > 0: node i+1 carries the header and body the builder made for
	// node j (so it claims j's state root and is executable on the state of j's
	// parent), re-parented to Parents[i].
	Clone []int  `json:"clone,omitempty"`
	Tmpl  string `json:"template,omitempty"`
}

func (s *shape) n() int { return len(s.Parents) }

func (s *shape) push(parent int, diff int64) int {
	s.Parents = append(s.Parents, parent)
	s.Diffs = append(s.Diffs, diff)
	s.Bad = append(s.Bad, "")
	s.Clone = append(s.Clone, 0)
	return len(s.Parents)
}

func configByName(name string) *params.ChainConfig {
	switch name {
	case "versions":
		return gen.ConfigVersions()
	case "prebyz":
		return gen.ConfigPreByzantium()
	default:
		return gen.ConfigTest()
	}
}

var configNames = []string{"test", "versions", "prebyz"}

var badKinds = []string{"bad_state_root", "bad_receipt_root", "bad_gas_used", "bad_tx_root", "bad_uncle_hash"}

// badClass folds the corruption kinds into what is wrong with the block.
func badClass(kind string) string {
	switch kind {
	case "bad_tx_root", "bad_uncle_hash":
		return "header_does_not_commit_to_body"
	case "never_executable_borrowed_state_root":
		return "never_executed_block_with_borrowed_state_root"
	}
	return "state_transition_mismatch"
}

var diffSet = []int64{1, 2, 3, 5, 8, 13}

var simpleKinds = []gen.TxKind{gen.TxTransfer, gen.TxStoreSet, gen.TxLog, gen.TxToSink, gen.TxTransferSelf}

// built is a shape whose blocks exist (built once with the node's own builder
// under the real difficulty rule); materialize stamps difficulties on it.
type built struct {
	W     *gen.World
	GenDB *aquadb.MemDatabase
	Gen   *types.Block
	Orig  []*types.Block // Orig[i] = block of node i+1 as the builder made it
}

// buildRun builds n blocks on parent with core.GenerateChain (ApplyTransaction +
// Engine.Finalize): every block gets its own coinbase, so no two blocks of a
// tree share a state root, and up to maxTx simple transactions whose effect does
// not depend on the header's difficulty or on block hashes.
func buildRun(r *fw.Rand, w *gen.World, gendb aquadb.Database, parent *types.Block, n, maxTx int) []*types.Block {
	blocks, _ := core.GenerateChain(context.Background(), w.Config, parent, aquahash.NewFaker(), gendb, n, func(i int, b *core.BlockGen) {
		var cb common.Address
		copy(cb[:], r.Bytes(20))
		cb[0] = 0xcb
		b.SetCoinbase(cb)
		if r.Chance(1, 3) {
			b.SetExtra(r.Bytes(r.Range(1, 16)))
		}
		if r.Chance(1, 3) {
			b.OffsetTime(int64(-r.Range(1, 200)))
		}
		num := b.Number()
		for k := r.Intn(maxTx + 1); k > 0; k-- {
			s := r.Intn(len(w.Keys))
			b.AddTx(w.MakeTx(r, simpleKinds[r.Intn(len(simpleKinds))], s, b.TxNonce(w.Addrs[s]), num))
		}
	})
	return blocks
}

func buildShape(r *fw.Rand, s *shape, maxTx int) *built {
	w := gen.NewWorld(r, configByName(s.Config), 3)
	db, g := w.NewDB()
	bt := &built{W: w, GenDB: db, Gen: g}
	// group single-child runs so long lines cost one builder call
	for i := 0; i < s.n(); {
		if s.Clone[i] > 0 {
			bt.Orig = append(bt.Orig, bt.Orig[s.Clone[i]-1])
			i++
			continue
		}
		j := i + 1
		for j < s.n() && s.Parents[j] == j && s.Clone[j] == 0 { // node j+1 has parent j (the previous node)
			j++
		}
		parent := g
		if p := s.Parents[i]; p > 0 {
			parent = bt.Orig[p-1]
		}
		bt.Orig = append(bt.Orig, buildRun(r, w, db, parent, j-i, maxTx)...)
		i = j
	}
	return bt
}

// materialize produces the tree with the shape's difficulties: each block is
// rebuilt from a copy of the builder's header with the chosen Difficulty and
// the new parent hash (the body and therefore the state transition are
// unchanged, so state root, receipt root and gas used stay right), then the
// corruption of Bad[i] is applied.
func (bt *built) materialize(s *shape) *ltree {
	t := newLtree(bt.W, bt.Gen, "fullfake")
	for i := 0; i < s.n(); i++ {
		o := bt.Orig[i]
		h := types.CopyHeader(o.Header())
		h.ParentHash = t.Nodes[s.Parents[i]].Block.Hash()
		h.Difficulty = big.NewInt(s.Diffs[i])
		bad := ""
		if i < len(s.Bad) {
			bad = s.Bad[i]
		}
		txs := o.Transactions()
		switch bad {
		case "":
		case "bad_state_root":
			h.Root[7] ^= 0x40
		case "bad_receipt_root":
			h.ReceiptHash[3] ^= 0x01
		case "bad_gas_used":
			h.GasUsed += 21000
		case "bad_tx_root":
			h.TxHash[11] ^= 0x10
		case "bad_uncle_hash":
			h.UncleHash[5] ^= 0x04
		case "never_executable_borrowed_state_root":
			// claims the state root of the block it was cloned from, with a gas
			// figure and receipt root no execution can produce
			h.GasUsed += 21000
			h.ReceiptHash[3] ^= 0x01
			h.Extra = []byte("shadow")
		default:
			panic("unknown corruption " + bad)
		}
		nb := types.NewBlockWithHeader(h).WithBody(txs, nil)
		t.add(s.Parents[i], nb, bad)
	}
	return t
}

// ---------------------------------------------------------------------------
// Shape generators.

func pickDiff(r *fw.Rand) int64 { return diffSet[r.Intn(len(diffSet))] }

// fill adds random nodes until the shape has n nodes.
func (s *shape) fill(r *fw.Rand, n int) {
	for s.n() < n {
		p := s.n() // extend the newest node
		if r.Chance(1, 2) {
			p = r.Intn(s.n() + 1)
		}
		s.push(p, pickDiff(r))
	}
}

var smallTemplates = []string{"random", "shorter_heavier", "tie_unequal_height", "tie_equal_height", "late_heaviest", "invalid_heavy", "random", "star"}

// smallShape: at most 7 blocks.
func smallShape(r *fw.Rand, tmpl string) *shape {
	s := &shape{Config: configNames[r.Intn(len(configNames))], Tmpl: tmpl}
	switch tmpl {
	case "shorter_heavier":
		la := r.Range(2, 4)
		fork := 0
		if r.Bool() {
			fork = s.push(0, pickDiff(r)) // common first block
		}
		p := fork
		for i := 0; i < la; i++ {
			p = s.push(p, int64(r.Range(1, 2)))
		}
		p = fork
		for i, lb := 0, r.Range(1, la-1); i < lb; i++ {
			d := pickDiff(r)
			if i == lb-1 {
				d = 13 // la*2 <= 8 < 13
			}
			p = s.push(p, d)
		}
	case "tie_unequal_height":
		pairs := [][2]int64{{1, 2}, {2, 1}, {2, 3}, {3, 5}, {5, 3}, {5, 8}, {8, 5}}
		pr := pairs[r.Intn(len(pairs))]
		fork := 0
		if r.Bool() {
			fork = s.push(0, pickDiff(r))
		}
		a := s.push(fork, pr[0])
		s.push(a, pr[1])
		s.push(fork, pr[0]+pr[1])
	case "tie_equal_height":
		fork := 0
		if r.Bool() {
			fork = s.push(0, pickDiff(r))
		}
		d := pickDiff(r)
		s.push(fork, d)
		s.push(fork, d)
		if r.Bool() {
			s.push(fork, d)
		}
	case "late_heaviest":
		p := 0
		for i := 0; i < 3; i++ {
			p = s.push(p, 2)
		}
		p = r.Intn(2) // fork at genesis or first block
		p = s.push(p, 1)
		p = s.push(p, 1)
		s.push(p, 13)
	case "invalid_heavy":
		s.fill(r, r.Range(2, 5))
		bad := s.push(r.Intn(s.n()+1), 13)
		s.Bad[bad-1] = badKinds[r.Intn(len(badKinds))]
		if r.Bool() {
			s.push(bad, 13) // a child of the invalid block
		}
	case "star":
		for n := r.Range(5, 7); s.n() < n; {
			s.push(0, pickDiff(r))
		}
	default:
		s.fill(r, r.Range(3, 7))
	}
	if s.n() < 7 && tmpl != "star" {
		s.fill(r, r.Range(s.n(), 7))
	}
	return s
}

// mediumShape: 8..24 blocks, a main line and 2..5 branches, each block's
// difficulty from the set; forced sub-structures so every class exists.
func mediumShape(r *fw.Rand, tmpl string) *shape {
	s := &shape{Config: configNames[r.Intn(len(configNames))], Tmpl: tmpl}
	mainLen := r.Range(4, 9)
	p := 0
	var main []int
	for i := 0; i < mainLen; i++ {
		p = s.push(p, int64(r.Range(1, 3)))
		main = append(main, p)
	}
	nb := r.Range(1, 4)
	for b := 0; b < nb && s.n() < 22; b++ {
		p := r.Intn(s.n() + 1)
		heavy := r.Chance(1, 3)
		for i, l := 0, r.Range(1, 5); i < l && s.n() < 23; i++ {
			d := pickDiff(r)
			if heavy {
				d = diffSet[r.Range(3, 5)]
			}
			p = s.push(p, d)
		}
	}
	switch tmpl {
	case "shorter_heavier":
		// fork low on the main line, one block, heavier than the whole line
		s.push(main[r.Intn(2)]-1, 13+int64(3*mainLen))
	case "tie":
		// sibling of the main tip with the same difficulty
		s.push(s.Parents[main[mainLen-1]-1], s.Diffs[main[mainLen-1]-1])
	case "invalid_heavy":
		bad := s.push(r.Intn(s.n()+1), 100)
		s.Bad[bad-1] = badKinds[r.Intn(len(badKinds))]
		s.push(bad, 100)
	}
	return s
}

// ---------------------------------------------------------------------------
// Arrival orders.

// countOrders returns the number of topological orders of the forest below the
// genesis (n! / product of subtree sizes).
func countOrders(s *shape) int64 {
	n := s.n()
	size := make([]int64, n+1)
	for i := n; i >= 1; i-- {
		size[i]++
		size[s.Parents[i-1]] += size[i]
	}
	num := big.NewInt(1)
	for i := 2; i <= n; i++ {
		num.Mul(num, big.NewInt(int64(i)))
	}
	for i := 1; i <= n; i++ {
		num.Div(num, big.NewInt(size[i]))
	}
	if !num.IsInt64() {
		return 1 << 62
	}
	return num.Int64()
}

// allOrders calls fn with every topological order (parents before children).
// fn must not keep the slice.
func allOrders(s *shape, fn func(order []int)) {
	n := s.n()
	placed := make([]bool, n+1)
	placed[0] = true
	order := make([]int, 0, n)
	var rec func()
	rec = func() {
		if len(order) == n {
			fn(order)
			return
		}
		for i := 1; i <= n; i++ {
			if !placed[i] && placed[s.Parents[i-1]] {
				placed[i] = true
				order = append(order, i)
				rec()
				order = order[:len(order)-1]
				placed[i] = false
			}
		}
	}
	rec()
}

// randomOrder draws a topological order over parents[] (1-based nodes). With
// sticky > 0 the next block is, with probability sticky/8, a child of the block
// just delivered (so branches arrive in runs that can be batched).
func randomOrder(r *fw.Rand, parents []int, sticky int) []int {
	n := len(parents)
	placed := make([]bool, n+1)
	placed[0] = true
	order := make([]int, 0, n)
	last := 0
	for len(order) < n {
		var avail, kids []int
		for i := 1; i <= n; i++ {
			if !placed[i] && placed[parents[i-1]] {
				avail = append(avail, i)
				if parents[i-1] == last && last != 0 {
					kids = append(kids, i)
				}
			}
		}
		var pick int
		if len(kids) > 0 && r.Intn(8) < sticky {
			pick = kids[r.Intn(len(kids))]
		} else {
			pick = avail[r.Intn(len(avail))]
		}
		placed[pick] = true
		order = append(order, pick)
		last = pick
	}
	return order
}

// hop is one step of an import history.
type hop struct {
	K string `json:"k"`           // insert | restart | headers
	B []int  `json:"b,omitempty"` // node indices: one linked path segment, oldest first
}

// batchOrder turns an arrival order into insert steps. A batch must be a linked
// chain (that is what InsertChain takes), so a cut is forced wherever the next
// block is not a child of the previous one; elsewhere cutPerEight/8 decides.
// With redeliver, some batches are prefixed with already delivered ancestors and
// some delivered segments are offered again later.
func batchOrder(r *fw.Rand, parents []int, order []int, cutPerEight int, redeliver bool, kind string) []hop {
	var ops []hop
	var cur []int
	flush := func() {
		if len(cur) == 0 {
			return
		}
		b := append([]int{}, cur...)
		if redeliver && r.Chance(1, 6) {
			// prefix with up to 3 known ancestors
			for k, p := r.Range(1, 3), parents[b[0]-1]; k > 0 && p > 0; k, p = k-1, parents[p-1] {
				b = append([]int{p}, b...)
			}
		}
		ops = append(ops, hop{K: kind, B: b})
		if redeliver && r.Chance(1, 8) && len(ops) > 1 {
			old := ops[r.Intn(len(ops))]
			if old.K == kind {
				ops = append(ops, hop{K: kind, B: append([]int{}, old.B...)})
			}
		}
		cur = cur[:0]
	}
	for _, x := range order {
		if len(cur) > 0 && (parents[x-1] != cur[len(cur)-1] || r.Intn(8) < cutPerEight) {
			flush()
		}
		cur = append(cur, x)
	}
	flush()
	return ops
}

func orderKey(order []int) string { return fmt.Sprint(order) }
