package c02

import (
	"context"

	"gitlab.com/aquachain/aquachain/aquadb"
	"gitlab.com/aquachain/aquachain/common"
	"gitlab.com/aquachain/aquachain/consensus/aquahash"
	"gitlab.com/aquachain/aquachain/core"
	"gitlab.com/aquachain/aquachain/core/types"
	"verif/internal/fw"
	"verif/internal/gen"
)

// Hostile side chains under the REAL header rules (aquahash.NewFaker: every
// header rule except the seal is enforced, so difficulties follow the
// difficulty rule and cannot be chosen freely).

// plainRun builds n empty blocks on parent, gap seconds apart, each with its
// own coinbase.
func plainRun(r *fw.Rand, w *gen.World, db aquadb.Database, parent *types.Block, n int, gap int64) []*types.Block {
	blocks, _ := core.GenerateChain(context.Background(), w.Config, parent, aquahash.NewFaker(), db, n, func(i int, b *core.BlockGen) {
		var cb common.Address
		copy(cb[:], r.Bytes(20))
		cb[0] = 0xcb
		b.SetCoinbase(cb)
		if gap != 240 {
			b.OffsetTime(gap - 240)
		}
	})
	return blocks
}

// realLine builds a main line of k slow blocks (k >= 10: past every fork height
// of the test configuration, difficulty at its floor).
func realLine(r *fw.Rand) (*gen.World, *aquadb.MemDatabase, *ltree, []*types.Block, int) {
	w := gen.NewWorld(r, gen.ConfigTest(), 3)
	db, g := w.NewDB()
	k := r.Range(10, 15)
	main := plainRun(r, w, db, g, k, 240)
	t := newLtree(w, g, "fake")
	for i, b := range main {
		t.add(i, b, "")
	}
	return w, db, t, main, k
}

// borrowedRootReal: see borrowedRootCase. X copies the header of m[k-1] (so it
// satisfies every header rule on parent m[k-2]) with other extra data and a gas
// figure / receipt root no execution can produce; Y is m[k]'s header and body
// re-parented onto X, one second after X, with the difficulty the rule demands
// for that time — more than m[k]'s, so Y outweighs the head.
func borrowedRootReal(r *fw.Rand, control bool) (*ltree, []hop, map[string]interface{}, bool) {
	w, _, t, main, k := realLine(r)
	mk1, mk := main[k-2], main[k-1]
	hx := types.CopyHeader(mk1.Header())
	hx.Extra = []byte("shadow")
	hx.GasUsed += 21000
	hx.ReceiptHash[3] ^= 0x01
	X := types.NewBlockWithHeader(hx).WithBody(nil, nil)
	x := t.add(k-2, X, "never_executable_borrowed_state_root")
	hy := types.CopyHeader(mk.Header())
	hy.ParentHash = X.Hash()
	hy.Time.Add(X.Time(), common.Big1)
	hy.Difficulty = aquahash.CalcDifficulty(w.Config, hy.Time.Uint64(), X.Header(), main[k-3].Header())
	Y := types.NewBlockWithHeader(hy).WithBody(nil, nil)
	y := t.add(x.Idx, Y, "")
	ok := y.TD.Cmp(t.Nodes[k].TD) > 0 && x.TD.Cmp(t.Nodes[k].TD) < 0
	ops := splitLine(r, line(1, k), "insert", 6)
	tmpl := "borrowed_state_root_real_rules"
	if control {
		tmpl += "_control"
	} else {
		ops = append(ops, hop{K: "restart"})
	}
	if r.Bool() {
		ops = append(ops, hop{K: "insert", B: []int{x.Idx, y.Idx}})
	} else {
		ops = append(ops, hop{K: "insert", B: []int{x.Idx}}, hop{K: "insert", B: []int{y.Idx}})
	}
	desc := map[string]interface{}{"template": tmpl, "config": "test", "main_len": k, "x": "node k+1: header of m[k-1] on parent m[k-2], extra/gasUsed/receiptHash altered",
		"y": "node k+2: header+body of m[k] on parent x, time x+1, difficulty by the rule", "td_main": t.Nodes[k].TD.String(), "td_y": y.TD.String()}
	return t, ops, desc, ok
}

// prunedBodyReal: a side branch of fast blocks forks j blocks below the head of
// a restarted pruning node (fork point's state pruned). Its first blocks are
// lighter than the head and are stored without execution; its last block tips
// the total difficulty. That last block's header does not commit to its body
// (transaction root or uncle hash altered), which body validation rejects
// whenever it runs.
func prunedBodyReal(r *fw.Rand, kind string, control bool) (*ltree, []hop, map[string]interface{}, bool) {
	w, db, t, main, k := realLine(r)
	j := r.Range(3, 5)
	side := plainRun(r, w, db, main[k-j-1], j, 1)
	p := k - j
	var idx []int
	for i, b := range side {
		bad := ""
		if i == j-1 {
			h := types.CopyHeader(b.Header())
			switch kind {
			case "bad_tx_root":
				h.TxHash[11] ^= 0x10
			case "bad_uncle_hash":
				h.UncleHash[5] ^= 0x04
			}
			b = types.NewBlockWithHeader(h).WithBody(nil, nil)
			bad = kind
		}
		n := t.add(p, b, bad)
		p = n.Idx
		idx = append(idx, n.Idx)
	}
	last := t.Nodes[idx[j-1]]
	ok := last.TD.Cmp(t.Nodes[k].TD) > 0 && t.Nodes[idx[j-2]].TD.Cmp(t.Nodes[k].TD) < 0
	ops := splitLine(r, line(1, k), "insert", 6)
	tmpl := "pruned_side_chain_tip_" + kind + "_real_rules"
	if control {
		tmpl += "_control"
	} else {
		ops = append(ops, hop{K: "restart"})
	}
	if r.Bool() {
		ops = append(ops, hop{K: "insert", B: idx})
	} else {
		ops = append(ops, splitLine(r, idx, "insert", 2)...)
	}
	desc := map[string]interface{}{"template": tmpl, "config": "test", "main_len": k, "side_len": j, "fork_below_head": j,
		"td_main": t.Nodes[k].TD.String(), "td_side_tip": last.TD.String()}
	return t, ops, desc, ok
}
