package c02

import (
	"fmt"
	"os"
	"math/big"
	"regexp"
	"strings"

	"gitlab.com/aquachain/aquachain/aquadb"
	"gitlab.com/aquachain/aquachain/core"
	"gitlab.com/aquachain/aquachain/core/types"
	"verif/internal/fw"
)

// monitor watches one node (a real core.BlockChain over its own database)
// through an import history and decides the property after every call, at rest
// (InsertChain has returned; nothing else runs against the chain).
//
// What it knows independently of the node: every block's parent, difficulty and
// ledger total difficulty (sum of difficulties from the genesis, computed by the
// harness when it generated the tree), and whether the block and all its
// ancestors are self-consistent. What it learns from the node: which offered
// blocks the node has stored and which of those it has executed
// (read from the node's database and state cache, never through the block cache).
type monitor struct {
	c     *fw.Ctx
	t     *ltree
	db    *aquadb.MemDatabase
	bc    *core.BlockChain
	cache *core.CacheConfig
	mode  string  // archive | pruning
	hdr   bool    // header-only history: the head is CurrentHeader
	hdb   *hookDB // non-nil: the chain runs over this wrapper of db (concurrent-writer histories)

	opOverride string

	given     []bool // offered to the node in a call that reached it
	validated []bool // sticky: ledger-valid, offered, and the node had block+state after some call
	stateless []bool // currently stored without state (never executed so far)
	maxVal    *big.Int
	maxValIdx int

	prevHeadTD  *big.Int // the node's own record for the previous head
	prevHead    int
	lastGiven   int
	calls       int
	reorgs      int
	headNotLast int // calls after which the head was not the last block delivered
	restarts    int

	sawTie, sawTieUnequal bool
	callsSinceRestart     int
	dead                  bool // a violation was recorded that makes the rest of the history meaningless
}

func (m *monitor) chainDB() aquadb.Database {
	if m.hdb != nil {
		return m.hdb
	}
	return m.db
}

func newMonitor(c *fw.Ctx, t *ltree, mode string, hdr, hook bool) (*monitor, error) {
	m := &monitor{c: c, t: t, mode: mode, hdr: hdr}
	if mode == "archive" {
		m.cache = &core.CacheConfig{Disabled: true}
	}
	m.db = aquadb.NewMemDatabase()
	g := t.W.CommitGenesis(m.db)
	if g.Hash() != t.Genesis.Hash() {
		return nil, fmt.Errorf("genesis mismatch")
	}
	if hook {
		m.hdb = &hookDB{Database: m.db}
	}
	bc, err := t.newChain(m.chainDB(), m.cache)
	if err != nil {
		return nil, err
	}
	m.bc = bc
	n := len(t.Nodes)
	m.given, m.validated, m.stateless = make([]bool, n), make([]bool, n), make([]bool, n)
	m.given[0], m.validated[0] = true, true
	m.maxVal = new(big.Int).Set(t.Nodes[0].TD)
	m.prevHeadTD = bc.GetTd(g.Hash(), 0)
	return m, nil
}

func (m *monitor) close() {
	if m.bc != nil {
		m.bc.Stop()
		m.bc = nil
	}
}

// stored / executed read the node's database, not the chain object: a lookup
// through BlockChain.GetBlock (HasBlock, HasBlockAndState) would put the block
// into the chain's block cache and so change which code paths later imports
// take (cache hit vs. database read). The monitor must not warm caches.
func (m *monitor) stored(nd *lnode) bool {
	h, num := nd.Block.Hash(), nd.Height
	if len(core.GetHeaderRLP(m.db, h, num)) == 0 {
		return false
	}
	return m.hdr || len(core.GetBodyRLP(m.db, h, num)) != 0
}

// executed: stored and the state of the root the block commits to is present
// (opened through the state cache, which does not touch the block cache).
func (m *monitor) executed(nd *lnode) bool {
	return m.stored(nd) && m.bc.HasState(nd.Block.Root())
}

// count records an observation class, overall and per leg (the gates are per leg).
func (m *monitor) count(class string) {
	m.c.Count(class)
	m.c.Count(m.c.Leg + "/" + class)
}

func (m *monitor) opName() string {
	if m.opOverride != "" {
		return m.opOverride
	}
	if m.hdr {
		return "InsertHeaderChain"
	}
	return "InsertChain"
}

var (
	reHex = regexp.MustCompile(`(0x)?[0-9a-fA-F]{8,}…?`)
	reNum = regexp.MustCompile(`[0-9]+`)
)

// errClass strips hashes and numbers so that signatures stay stable.
func errClass(err error) string {
	s := reHex.ReplaceAllString(err.Error(), "H")
	s = reNum.ReplaceAllString(s, "N")
	if len(s) > 80 {
		s = s[:80]
	}
	return strings.TrimSpace(s)
}

// step executes one operation of a history and then checks the property.
func (m *monitor) step(o hop) {
	switch o.K {
	case "restart":
		m.restart()
	case "insert":
		m.insert(o.B)
	case "headers":
		m.insertHeaders(o.B)
	case "race_import_parked":
		m.race("import_parked", o.B[0], o.B[1])
	case "race_local_parked":
		m.race("local_parked", o.B[0], o.B[1])
	case "race_free":
		m.race("free", o.B[0], o.B[1])
	}
}

// restart stops the node and opens a new one over the same database (fresh
// caches; a pruning node keeps only the states of head, head-1, head-127).
func (m *monitor) restart() {
	m.bc.Stop()
	bc, err := m.t.newChain(m.chainDB(), m.cache)
	if err != nil {
		m.bc = nil
		m.c.Violate("reopen_failed", "NewBlockChain", errClass(err), err.Error())
		return
	}
	m.bc = bc
	m.restarts++
	m.callsSinceRestart = 0
	m.count("restart")
	m.check("restart", nil, 0, nil)
}

func (m *monitor) insert(b []int) {
	if m.bc == nil {
		return
	}
	blocks := make(types.Blocks, len(b))
	firstBad := -1
	for i, x := range b {
		blocks[i] = m.t.Nodes[x].Block
		if firstBad < 0 && !m.t.Nodes[x].Valid {
			firstBad = i
		}
	}
	n, err := m.bc.InsertChain(blocks)
	m.calls++
	m.callsSinceRestart++
	m.c.Count("insert_calls")
	reached := len(b)
	if err != nil {
		reached = n + 1 // blocks after the failing index were never looked at
		if reached > len(b) {
			reached = len(b)
		}
	}
	for _, x := range b[:reached] {
		m.given[x] = true
	}
	if reached > 0 {
		m.lastGiven = b[reached-1]
	}
	if os.Getenv("VERIF_TRACE") != "" {
		fmt.Fprintf(os.Stderr, "TRACE insert %v -> (%d, %v) head=%d\n", b, n, err, m.bc.CurrentBlock().NumberU64())
	}
	switch {
	case err != nil && (firstBad < 0 || n < firstBad) && !m.ancestorsGiven(b[n]):
		// An earlier batch was abandoned at a block before this one's ancestor
		// (the missing-state observation below, or an already reported
		// violation), so that ancestor was never looked at by the node: the
		// schedule delivered it, the node never validated nor stored it. Refusing
		// its descendant as an orphan is correct (found by the thorough tier,
		// medium-51-6). Not a violation.
		m.count("obs_descendant_of_never_reached_block_refused")
	case err != nil && (firstBad < 0 || n < firstBad) && strings.Contains(err.Error(), "missing trie node"):
		// A block that is already known WITH state (a former head or head-1 of a
		// side branch, flushed at a Stop) is re-executed when the head is below its
		// number, but its parent's state was pruned: InsertChain gives up with a
		// missing-state error. The rest of the batch is then never validated, so
		// the head is still the heaviest VALIDATED block: the property as stated
		// holds (found by the thorough tier, medium-85-2; same code path as
		// upstream). Counted as an observation, not a violation.
		m.count("obs_valid_batch_not_importable_known_block_on_pruned_parent")
	case err != nil && (firstBad < 0 || n < firstBad):
		// every block up to the failing index is self-consistent with valid,
		// already delivered ancestors: the node must take it
		m.c.Violate("valid_block_rejected", m.opName(), errClass(err),
			fmt.Sprintf("batch %v: InsertChain returned (%d, %v) but node %d (height %d) and all its ancestors are valid and were delivered", b, n, err, b[n], m.t.Nodes[b[n]].Height))
	case err != nil:
		m.count("invalid_block_rejected")
	}
	m.check("insert", b, n, err)
}

// ancestorsGiven reports whether every proper ancestor of node x was in a
// batch position the node actually reached.
func (m *monitor) ancestorsGiven(x int) bool {
	for a := m.t.Nodes[x].Parent; a > 0; a = m.t.Nodes[a].Parent {
		if !m.given[a] {
			return false
		}
	}
	return true
}

func (m *monitor) insertHeaders(b []int) {
	if m.bc == nil {
		return
	}
	hs := make([]*types.Header, len(b))
	for i, x := range b {
		hs[i] = m.t.Nodes[x].Block.Header()
	}
	n, err := m.bc.InsertHeaderChain(hs, 1)
	m.calls++
	m.callsSinceRestart++
	m.c.Count("header_insert_calls")
	if err != nil {
		m.c.Violate("valid_block_rejected", m.opName(), errClass(err), fmt.Sprintf("batch %v: InsertHeaderChain returned (%d, %v) for valid linked headers", b, n, err))
		return
	}
	for _, x := range b {
		m.given[x] = true
	}
	m.lastGiven = b[len(b)-1]
	m.check("headers", b, n, err)
}

func (m *monitor) rel(a, head int) string {
	ha, hh := m.t.Nodes[a].Height, m.t.Nodes[head].Height
	switch {
	case ha < hh:
		return "heavier_block_is_lower"
	case ha > hh:
		return "heavier_block_is_higher"
	}
	return "heavier_block_same_height"
}

// check decides the property at rest.
func (m *monitor) check(after string, batch []int, n int, callErr error) {
	c, t, bc := m.c, m.t, m.bc
	op := m.opName()
	if after == "restart" {
		op = "restart"
	}
	c.Count("quiescent_checks")

	// 1. what has the node stored / executed?
	for i := 1; i < len(t.Nodes); i++ {
		if !m.given[i] {
			continue
		}
		nd := t.Nodes[i]
		if m.hdr {
			if nd.Valid && m.stored(nd) && !m.validated[i] {
				m.validated[i] = true
				if nd.TD.Cmp(m.maxVal) > 0 {
					m.maxVal, m.maxValIdx = nd.TD, i
				}
			}
			continue
		}
		if !m.stored(nd) {
			continue
		}
		if m.executed(nd) {
			if m.stateless[i] {
				m.stateless[i] = false
				m.count("side_block_executed_after_being_stored_without_state")
			}
			if nd.Valid && !m.validated[i] {
				m.validated[i] = true
				if nd.TD.Cmp(m.maxVal) > 0 {
					m.maxVal, m.maxValIdx = nd.TD, i
				}
			}
		} else if !m.validated[i] && !m.stateless[i] {
			m.stateless[i] = true
			m.count("block_stored_without_state")
		}
	}

	// 2. the head
	var headHash = bc.CurrentBlock().Hash()
	var headNum = bc.CurrentBlock().NumberU64()
	if m.hdr {
		headHash, headNum = bc.CurrentHeader().Hash(), bc.CurrentHeader().Number.Uint64()
	}
	hi, ok := t.ByHash[headHash]
	if !ok {
		c.Violate("head_not_a_given_block", op, "", fmt.Sprintf("head %x (height %d) is not a block of the tree", headHash, headNum))
		return
	}
	head := t.Nodes[hi]
	headTD := bc.GetTd(headHash, headNum)
	if headTD == nil {
		c.Violate("td_record_missing", op, "head", fmt.Sprintf("GetTd(head node %d, height %d) = nil", hi, headNum))
		return
	}
	if !head.Valid {
		// the head itself or one of its ancestors is not self-consistent / was never executed
		cause, culprit := badClass(head.Bad), hi
		if head.Bad == "" {
			for x := head.Parent; x > 0; x = t.Nodes[x].Parent {
				if t.Nodes[x].Bad != "" {
					cause, culprit = badClass(t.Nodes[x].Bad), x
					break
				}
			}
		}
		c.Violate("head_not_fully_validated", op, cause, fmt.Sprintf("after %s %v: head is node %d (height %d, td %v); node %d on its chain is not self-consistent (%s) and can never pass full validation", after, batch, hi, headNum, headTD, culprit, t.Nodes[culprit].Bad))
		// everything after this point is a consequence of the same event
		m.dead = true
		return
	} else if !m.validated[hi] {
		c.Violate("head_not_fully_validated", op, "head_without_state", fmt.Sprintf("head is node %d (height %d) but its block or state is not in the database", hi, headNum))
	}
	// heaviest among validated (equality of total difficulty: a tie may go either way)
	if head.Valid && head.TD.Cmp(m.maxVal) != 0 {
		c.Violate("head_not_heaviest", op, m.rel(m.maxValIdx, hi),
			fmt.Sprintf("after %s %v: head is node %d (height %d, ledger td %v); validated node %d (height %d) has ledger td %v", after, batch, hi, head.Height, head.TD, m.maxValIdx, t.Nodes[m.maxValIdx].Height, m.maxVal))
	}
	// a valid delivered block heavier than the head must not be left unexecuted
	// after a call that reported success
	if !m.hdr && callErr == nil {
		for i := 1; i < len(t.Nodes); i++ {
			if m.given[i] && t.Nodes[i].Valid && !m.validated[i] && t.Nodes[i].TD.Cmp(head.TD) > 0 && m.stored(t.Nodes[i]) {
				c.Violate("heavier_valid_block_not_adopted", op, "stored_without_state",
					fmt.Sprintf("after %s %v: node %d (height %d, ledger td %v) is stored, valid and heavier than the head (node %d, td %v) but was not executed", after, batch, i, t.Nodes[i].Height, t.Nodes[i].TD, hi, head.TD))
				break
			}
		}
	}
	// never decreases (by the node's own records)
	if headTD.Cmp(m.prevHeadTD) < 0 {
		c.Violate("head_td_decreased", op, "", fmt.Sprintf("after %s %v: head td %v (node %d), before the call %v (node %d)", after, batch, headTD, hi, m.prevHeadTD, m.prevHead))
	}
	if hi != m.prevHead {
		c.Count("head_changes")
		if !t.isAncestor(m.prevHead, hi) {
			m.reorgs++
			m.count("reorgs")
			if head.Height >= t.Nodes[m.prevHead].Height+2 && len(batch) == 1 {
				// the walk down the new branch passes blocks delivered by earlier calls
				m.count("reorg_to_branch_two_longer_by_single_block")
				if m.restarts > 0 && m.callsSinceRestart == 1 {
					m.count("reorg_to_branch_two_longer_first_call_after_restart")
				}
			}
			if head.Height < t.Nodes[m.prevHead].Height {
				m.count("reorg_to_shorter_heavier")
			} else if head.Height == t.Nodes[m.prevHead].Height {
				m.count("reorg_same_height")
			}
			// the branch that won had been delivered (in part) by an earlier call and
			// was a side branch then
			if len(batch) > 0 && !t.isAncestor(t.Nodes[batch[0]].Parent, m.prevHead) {
				m.count("side_branch_became_heaviest")
			}
		}
	}
	if after != "restart" && m.lastGiven != hi {
		m.headNotLast++
		c.Count("head_is_not_last_delivered")
	}
	// ties at the top
	for i := 0; i < len(t.Nodes); i++ {
		if i != hi && m.validated[i] && t.Nodes[i].TD.Cmp(m.maxVal) == 0 && head.Valid {
			if t.Nodes[i].Height != head.Height {
				if !m.sawTieUnequal {
					m.count("histories_with_tie_at_unequal_height")
				}
				m.sawTieUnequal = true
				if head.Height < t.Nodes[i].Height {
					c.Count("tie_checks_head_is_lower_block")
				} else {
					c.Count("tie_checks_head_is_higher_block")
				}
			} else {
				if !m.sawTie {
					m.count("histories_with_tie_at_equal_height")
				}
				m.sawTie = true
			}
			break
		}
	}
	m.prevHead, m.prevHeadTD = hi, new(big.Int).Set(headTD)

	// 3. every stored total difficulty = parent's + own difficulty (cache and database)
	for i := 1; i < len(t.Nodes); i++ {
		if !m.given[i] {
			continue
		}
		nd := t.Nodes[i]
		h, num := nd.Block.Hash(), nd.Height
		stored := m.stored(nd)
		td := bc.GetTd(h, num)
		tdDB := core.GetTd(m.db, h, num)
		if !stored && td == nil && tdDB == nil {
			continue
		}
		c.Count("td_records_compared")
		kind := "executed"
		if m.stateless[i] {
			kind = "stored_without_state"
		}
		if m.hdr {
			kind = "header"
		}
		if td == nil || tdDB == nil {
			c.Violate("td_record_missing", op, kind, fmt.Sprintf("node %d (height %d): GetTd = %v, database record = %v, block stored = %v", i, num, td, tdDB, stored))
			continue
		}
		if td.Cmp(tdDB) != 0 {
			c.Violate("td_not_parent_plus_own", op, kind+":cache_differs_from_database", fmt.Sprintf("node %d: GetTd = %v, database record = %v", i, td, tdDB))
			continue
		}
		p := t.Nodes[nd.Parent]
		ptd := core.GetTd(m.db, p.Block.Hash(), p.Height)
		if ptd == nil {
			c.Violate("td_record_missing", op, "parent_of_stored_block", fmt.Sprintf("node %d (height %d) is stored, its parent node %d has no total difficulty", i, num, p.Idx))
			continue
		}
		if want := new(big.Int).Add(ptd, nd.Block.Difficulty()); td.Cmp(want) != 0 {
			c.Violate("td_not_parent_plus_own", op, kind, fmt.Sprintf("node %d (height %d, difficulty %v): stored td %v, parent's stored td %v (ledger td %v)", i, num, nd.Diff, td, ptd, nd.TD))
		}
	}

	// 4. the header head is never behind the block head
	if !m.hdr {
		ch := bc.CurrentHeader()
		htd := bc.GetTd(ch.Hash(), ch.Number.Uint64())
		if htd == nil {
			c.Violate("td_record_missing", op, "current_header", fmt.Sprintf("GetTd(CurrentHeader height %d) = nil", ch.Number.Uint64()))
		} else if htd.Cmp(headTD) < 0 {
			c.Violate("header_head_behind_block_head", op, "", fmt.Sprintf("CurrentHeader td %v (height %d) < CurrentBlock td %v (height %d)", htd, ch.Number.Uint64(), headTD, headNum))
		}
	}
}

func (m *monitor) summary() map[string]interface{} {
	return map[string]interface{}{"calls": m.calls, "reorgs": m.reorgs, "head_not_last_delivered": m.headNotLast, "restarts": m.restarts,
		"final_head_node": m.prevHead, "final_head_height": m.t.Nodes[m.prevHead].Height, "final_head_td": m.prevHeadTD.String()}
}
