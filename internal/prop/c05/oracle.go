package c05

import (
	"fmt"
	"math/big"
	"time"

	"gitlab.com/aquachain/aquachain/common"
	"gitlab.com/aquachain/aquachain/core/state"
	"gitlab.com/aquachain/aquachain/core/vm"
	"gitlab.com/aquachain/aquachain/trie"
	"verif/internal/ref/refhash"
	"verif/internal/ref/refrlp"
)

// ---------------------------------------------------------------------------
// Supply: the sum of all account balances committed to by a state root.

// supplyWalk sums the balance field of every leaf of the account trie at root.
// It does not go through the StateDB: the trie is opened by its root hash, every
// leaf is decoded with the reference RLP decoder as [nonce, balance, root, codehash].
func supplyWalk(tdb *trie.Database, root common.Hash) (*big.Int, int, error) {
	tr, err := trie.New(root, tdb)
	if err != nil {
		return nil, 0, err
	}
	sum, n := new(big.Int), 0
	it := trie.NewIterator(tr.NodeIterator(nil))
	for it.Next() {
		item, err := refrlp.Decode(it.Value)
		if err != nil || !item.IsList || len(item.List) != 4 || item.List[1].IsList {
			return nil, 0, fmt.Errorf("account leaf %x is not a 4-item list: %v", it.Key, err)
		}
		sum.Add(sum, new(big.Int).SetBytes(item.List[1].Str))
		n++
	}
	if it.Err != nil {
		return nil, 0, it.Err
	}
	return sum, n, nil
}

// acct is one account of a RawDump.
type acct struct {
	Bal     *big.Int
	Nonce   uint64
	HasCode bool
}

func (a *acct) empty() bool { return a.Nonce == 0 && a.Bal.Sign() == 0 && !a.HasCode }

const emptyCodeHashHex = "c5d2460186f7233c927e7db2dcc703c0e500b653ca82273b7bfad8045d85a470"

// dumpAccounts turns StateDB.RawDump into an address-indexed map and its sum.
func dumpAccounts(st *state.StateDB) (map[common.Address]*acct, *big.Int, error) {
	d := st.RawDump()
	out := make(map[common.Address]*acct, len(d.Accounts))
	sum := new(big.Int)
	for k, a := range d.Accounts {
		if len(k) != 40 {
			return nil, nil, fmt.Errorf("dump key %q is not an address (missing preimage)", k)
		}
		b, ok := new(big.Int).SetString(a.Balance, 10)
		if !ok {
			return nil, nil, fmt.Errorf("dump balance %q", a.Balance)
		}
		out[common.HexToAddress(k)] = &acct{Bal: b, Nonce: a.Nonce, HasCode: a.CodeHash != emptyCodeHashHex}
		sum.Add(sum, b)
	}
	return out, sum, nil
}

// ---------------------------------------------------------------------------
// Issuance, from the property text only.

var (
	aqua     = new(big.Int).Exp(big.NewInt(10), big.NewInt(18), nil)
	maxMoney = big.NewInt(42000000)
)

// issuance returns the scheduled issuance of a block at the given height that
// includes uncles at the given heights: below 42,000,000: 1 AQUA to the miner,
// (8+uH-H)/8 AQUA to each uncle's miner, 1/32 AQUA per uncle to the miner; zero
// from 42,000,000 on. Also returns the per-address credits.
func issuance(height *big.Int, coinbase common.Address, uncleHeights []*big.Int, uncleMiners []common.Address) (*big.Int, map[common.Address]*big.Int) {
	total := new(big.Int)
	per := map[common.Address]*big.Int{}
	if height.Cmp(maxMoney) >= 0 {
		return total, per
	}
	add := func(a common.Address, v *big.Int) {
		if per[a] == nil {
			per[a] = new(big.Int)
		}
		per[a].Add(per[a], v)
		total.Add(total, v)
	}
	add(coinbase, aqua)
	for i, uh := range uncleHeights {
		k := new(big.Int).Add(big.NewInt(8), uh)
		k.Sub(k, height)
		u := new(big.Int).Mul(k, aqua)
		u.Quo(u, big.NewInt(8))
		add(uncleMiners[i], u)
		add(coinbase, new(big.Int).Quo(aqua, big.NewInt(32)))
	}
	return total, per
}

// ---------------------------------------------------------------------------
// Tracer: which SELFDESTRUCTs took effect, which value transfers and touches
// were rolled back. Frame fate is read from the node's own signals: the result
// word a CALL*/CREATE leaves on its caller's stack and the error handed to
// CaptureEnd; the per-frame fault events are used as a cross-check only.

type sdRec struct {
	Addr, Ben common.Address
	Bal       *big.Int
}

type credit struct {
	To  common.Address
	Val *big.Int
}

type pendingCall struct {
	op           vm.OpCode
	to           common.Address
	val          *big.Int
	insufficient bool
	fundedCreate bool
}

type frame struct {
	faulted bool
	pending *pendingCall
	sds     []sdRec
	credits []credit
	touches []common.Address
}

// obs is what the tracer accumulated since the last begin().
type obs struct {
	SdEffective      []sdRec
	SdExecuted       int // SELFDESTRUCT instructions that ran
	SdReverted       int // ... whose frame or an ancestor failed afterwards
	SdToSelf         int
	SdRepeat         int // same address destroyed again in the same transaction
	SdThirdRefunded  int // third or later SELFDESTRUCT of an address that received value after its first one (same transaction)
	ValueIntoSuicide int // value-bearing CALL to an address that already self-destructed in this transaction
	Credits          []credit
	RevertedTouch    map[common.Address]bool
	InnerValueFail   int // value-bearing CALL/CALLCODE whose own frame failed
	ValueRolledBack  int // value-bearing CALL that succeeded but was undone by an ancestor's failure
	Insufficient     int // CALL/CALLCODE/CREATE with more value than the balance
	CreateValueFail  int // CREATE carrying value that failed
	CreateFunded     int // CREATE onto an address that already held a balance
	CallCodeValue    int
	DelegateFrames   int
	StaticFrames     int
	StaticWriteTrap  int
	PrecompileValue  int
	Frames           int
	TopFailed        int
	Disagree         int // tracer model inconsistent with itself: fall back to "a self-destruct may have happened"
	TopCredits       []credit
}

func newObs() *obs { return &obs{RevertedTouch: map[common.Address]bool{}} }

type tracer struct {
	o      *obs
	frames []*frame
	// top-level message
	topTo      common.Address
	topVal     *big.Int
	topCreate  bool
	suicidedTx map[common.Address]int
	refundedTx map[common.Address]bool // got value after self-destructing, this transaction
}

func newTracer() *tracer {
	return &tracer{o: newObs(), suicidedTx: map[common.Address]int{}, refundedTx: map[common.Address]bool{}}
}

func (t *tracer) begin() {
	t.o = newObs()
	t.frames = nil
	t.suicidedTx = map[common.Address]int{}
	t.refundedTx = map[common.Address]bool{}
}

func (t *tracer) CaptureStart(from common.Address, to common.Address, call bool, input []byte, gas uint64, value *big.Int) error {
	if len(t.frames) != 0 {
		t.o.Disagree++
	}
	t.frames = nil
	t.suicidedTx = map[common.Address]int{}
	t.refundedTx = map[common.Address]bool{}
	t.topTo, t.topVal, t.topCreate = to, new(big.Int).Set(value), !call
	return nil
}

// failFrame discards what a failed frame did.
func (t *tracer) failFrame(f *frame) {
	t.o.SdReverted += len(f.sds)
	for _, s := range f.sds {
		t.suicidedTx[s.Addr]--
	}
	t.o.ValueRolledBack += len(f.credits)
	for _, a := range f.touches {
		t.o.RevertedTouch[a] = true
	}
}

// resolve settles the pending call of frame f (at index idx) given the result
// word now on top of its stack, and folds a finished child frame into it.
func (t *tracer) resolve(idx int, stack *vm.Stack) {
	f := t.frames[idx]
	var child *frame
	if len(t.frames) > idx+1 {
		if len(t.frames) > idx+2 {
			t.o.Disagree++
		}
		child = t.frames[idx+1]
		// deeper frames (should not exist) are treated as failed
		for _, g := range t.frames[idx+2:] {
			t.failFrame(g)
		}
		t.frames = t.frames[:idx+1]
	}
	p := f.pending
	f.pending = nil
	if p == nil {
		if child != nil {
			t.o.Disagree++
			t.failFrame(child)
		}
		return
	}
	d := stack.Data()
	if len(d) == 0 {
		t.o.Disagree++
		if child != nil {
			t.failFrame(child)
		}
		return
	}
	ok := d[len(d)-1].Sign() != 0
	if child != nil {
		if child.faulted && ok {
			t.o.Disagree++
		}
		if !child.faulted && !ok && p.op != vm.CREATE {
			t.o.Disagree++
		}
		if ok {
			f.sds = append(f.sds, child.sds...)
			f.credits = append(f.credits, child.credits...)
			f.touches = append(f.touches, child.touches...)
		} else {
			t.failFrame(child)
		}
	}
	hasVal := p.val != nil && p.val.Sign() > 0
	switch p.op {
	case vm.CALL:
		if ok {
			if hasVal {
				f.credits = append(f.credits, credit{p.to, p.val})
			} else {
				f.touches = append(f.touches, p.to)
			}
		} else if hasVal && !p.insufficient {
			t.o.InnerValueFail++
		}
	case vm.CALLCODE:
		if !ok && hasVal && !p.insufficient {
			t.o.InnerValueFail++
		}
	case vm.CREATE:
		if !ok && hasVal && !p.insufficient {
			t.o.CreateValueFail++
		}
		if ok && hasVal {
			f.credits = append(f.credits, credit{p.to, p.val})
		}
	}
}

func (t *tracer) step(env *vm.EVM, op vm.OpCode, stack *vm.Stack, contract *vm.Contract, depth int, err error, fault bool) {
	if depth < 1 {
		t.o.Disagree++
		return
	}
	// a new frame
	if depth == len(t.frames)+1 {
		t.frames = append(t.frames, &frame{})
		t.o.Frames++
		if depth >= 2 {
			if p := t.frames[depth-2].pending; p != nil {
				switch p.op {
				case vm.DELEGATECALL:
					t.o.DelegateFrames++
				case vm.STATICCALL:
					t.o.StaticFrames++
				}
			} else {
				t.o.Disagree++
			}
		}
	} else if depth > len(t.frames)+1 {
		t.o.Disagree++
		for len(t.frames) < depth {
			t.frames = append(t.frames, &frame{})
		}
	}
	f := t.frames[depth-1]
	if !fault {
		// first event of this frame after a call returned: settle it
		if f.pending != nil || len(t.frames) > depth {
			t.resolve(depth-1, stack)
		}
	} else if len(t.frames) > depth {
		t.o.Disagree++
		for _, g := range t.frames[depth:] {
			t.failFrame(g)
		}
		t.frames = t.frames[:depth]
	}
	if err != nil {
		f.faulted = true
		if err.Error() == "evm: write protection" {
			t.o.StaticWriteTrap++
		}
		return
	}
	if fault {
		f.faulted = true
		return
	}
	self := contract.Address()
	switch op {
	case vm.SELFDESTRUCT:
		ben := common.BigToAddress(stack.Back(0))
		bal := new(big.Int).Set(env.StateDB.GetBalance(self))
		f.sds = append(f.sds, sdRec{Addr: self, Ben: ben, Bal: bal})
		t.o.SdExecuted++
		if ben == self {
			t.o.SdToSelf++
		}
		if t.suicidedTx[self] > 0 {
			t.o.SdRepeat++
		}
		if t.suicidedTx[self] >= 2 && t.refundedTx[self] {
			t.o.SdThirdRefunded++
		}
		t.suicidedTx[self]++
	case vm.CALL, vm.CALLCODE:
		to := common.BigToAddress(stack.Back(1))
		val := new(big.Int).Set(stack.Back(2))
		p := &pendingCall{op: op, to: to, val: val}
		if val.Sign() > 0 {
			if env.StateDB.GetBalance(self).Cmp(val) < 0 {
				p.insufficient = true
				t.o.Insufficient++
			} else {
				if op == vm.CALLCODE {
					t.o.CallCodeValue++
				}
				if op == vm.CALL && t.suicidedTx[to] > 0 {
					t.o.ValueIntoSuicide++
					t.refundedTx[to] = true
				}
				if op == vm.CALL && isPrecompileAddr(to) {
					t.o.PrecompileValue++
				}
			}
		}
		f.pending = p
	case vm.DELEGATECALL, vm.STATICCALL:
		f.pending = &pendingCall{op: op, to: common.BigToAddress(stack.Back(1))}
	case vm.CREATE:
		val := new(big.Int).Set(stack.Back(0))
		p := &pendingCall{op: op, val: val}
		nonce := env.StateDB.GetNonce(self)
		p.to = createAddress(self, nonce)
		if val.Sign() > 0 && env.StateDB.GetBalance(self).Cmp(val) < 0 {
			p.insufficient = true
			t.o.Insufficient++
		}
		if env.StateDB.GetBalance(p.to).Sign() > 0 {
			p.fundedCreate = true
			t.o.CreateFunded++
		}
		f.pending = p
	}
}

// createAddress = last 20 bytes of keccak(rlp([creator, nonce])).
func createAddress(creator common.Address, nonce uint64) common.Address {
	enc := refrlp.Encode(refrlp.L(refrlp.S(creator[:]), refrlp.U(nonce)))
	return common.BytesToAddress(refhash.Keccak256(enc)[12:])
}

func isPrecompileAddr(a common.Address) bool {
	for i := 0; i < 19; i++ {
		if a[i] != 0 {
			return false
		}
	}
	return a[19] >= 1 && a[19] <= 8
}

func (t *tracer) CaptureState(env *vm.EVM, pc uint64, op vm.OpCode, gas, cost uint64, memory *vm.Memory, stack *vm.Stack, contract *vm.Contract, depth int, err error) error {
	t.step(env, op, stack, contract, depth, err, false)
	return nil
}

func (t *tracer) CaptureFault(env *vm.EVM, pc uint64, op vm.OpCode, gas, cost uint64, memory *vm.Memory, stack *vm.Stack, contract *vm.Contract, depth int, err error) error {
	t.step(env, op, stack, contract, depth, err, true)
	return nil
}

func (t *tracer) CaptureEnd(output []byte, gasUsed uint64, d time.Duration, err error) error {
	if len(t.frames) > 1 {
		t.o.Disagree++
		for _, g := range t.frames[1:] {
			t.failFrame(g)
		}
		t.frames = t.frames[:1]
	}
	failed := err != nil
	if len(t.frames) == 1 {
		f := t.frames[0]
		if f.faulted && !failed {
			t.o.Disagree++
		}
		if failed {
			t.failFrame(f)
		} else {
			t.o.SdEffective = append(t.o.SdEffective, f.sds...)
			t.o.Credits = append(t.o.Credits, f.credits...)
		}
	}
	if failed {
		t.o.TopFailed++
	} else if t.topVal != nil && t.topVal.Sign() > 0 {
		t.o.TopCredits = append(t.o.TopCredits, credit{t.topTo, t.topVal})
	}
	t.frames = nil
	return nil
}
