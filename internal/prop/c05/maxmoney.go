package c05

import (
	"context"
	"fmt"
	"math/big"

	"gitlab.com/aquachain/aquachain/common"
	"gitlab.com/aquachain/aquachain/consensus/aquahash"
	"gitlab.com/aquachain/aquachain/core"
	"gitlab.com/aquachain/aquachain/core/types"
	"gitlab.com/aquachain/aquachain/core/vm"
	"gitlab.com/aquachain/aquachain/params"
	"gitlab.com/aquachain/aquachain/rlp"
	"verif/internal/fw"
	"verif/internal/gen"
)

func mustRLP(v interface{}) []byte {
	b, err := rlp.EncodeToBytes(v)
	if err != nil {
		panic(err)
	}
	return b
}

// ---------------------------------------------------------------------------
// maxmoney leg: the reward cut-off. No chain of 42,000,000 blocks can be built,
// so StateProcessor.Process (which validates nothing about the header) and
// Engine.Finalize are driven directly on synthetic blocks numbered around the
// cut-off, over a real genesis state, with uncles and value-moving transactions.

type mmInput struct {
	Config string   `json:"config"`
	Index  int      `json:"index"`
	Height uint64   `json:"height"`
	Uncles []uint64 `json:"uncle_heights"`
	Mode   string   `json:"mode"` // process | finalize
	NTpl   int      `json:"templates"`
	SameCB bool     `json:"uncle_miner_is_block_miner"`
}

var mmHeights = []uint64{41999998, 41999999, 42000000, 42000001, 41999993, 42000006, 1, 21000000, 50000000, 4200000000}

func runMaxMoney(c *fw.Ctx) {
	n := c.Pick(60, 2400)
	for i := 0; i < n; i++ {
		r := c.Rand("mm", fmt.Sprint(i))
		ci := (i + c.Batch) % len(configs)
		h := mmHeights[i%len(mmHeights)]
		if i%len(mmHeights) >= 6 && r.Bool() {
			h = uint64(41999990 + r.Intn(20))
		}
		in := mmInput{Config: configs[ci].Name, Index: i, Height: h, Mode: "process", NTpl: r.Intn(3), SameCB: r.Chance(1, 4)}
		if i%5 == 4 {
			in.Mode = "finalize"
			in.NTpl = 0
		}
		nu := (i / 2) % 3
		for j := 0; j < nu; j++ {
			d := uint64(r.Range(1, 6))
			if h > d {
				in.Uncles = append(in.Uncles, h-d)
			}
		}
		id := fmt.Sprintf("mm-%d", i)
		c.Case(id, in, func() { doMaxMoney(c, r, configs[ci].Cfg(), in) })
	}
}

func doMaxMoney(c *fw.Ctx, r *fw.Rand, cfg *params.ChainConfig, in mmInput) {
	w := gen.NewWorld(r, cfg, 4)
	x := extendWorld(r, w)
	db, genesis := w.NewDB()
	tr := newTracer()
	vmcfg := vm.Config{Debug: true, Tracer: tr}
	bc, err := core.NewBlockChain(context.Background(), db, &core.CacheConfig{Disabled: true}, cfg, aquahash.NewFaker(), vmcfg)
	if err != nil {
		panic(err)
	}
	defer bc.Stop()
	num := new(big.Int).SetUint64(in.Height)
	st, err := bc.StateAt(genesis.Root())
	if err != nil {
		panic(err)
	}
	look, _ := bc.StateAt(genesis.Root())
	k := &chk{c: c, bc: bc, sums: map[common.Hash]*rootInfo{}}
	pi, err := k.root(genesis.Root())
	if err != nil {
		c.Inconclusive("state_unreadable")
		c.Note("%v", err)
		return
	}
	cbs := append(append([]common.Address{}, w.Coinbases...), w.Addrs[0], x.Empties[0], gen.AddrSink, addrSOA1)
	coinbase := cbs[r.Intn(len(cbs))]
	header := &types.Header{ParentHash: common.BytesToHash(r.Bytes(32)), Coinbase: coinbase, Number: num, GasLimit: params.GenesisGasLimit,
		Time: big.NewInt(1700000000), Difficulty: big.NewInt(1 << 20), Version: cfg.GetBlockVersion(num)}
	var uncles []*types.Header
	var uh []*big.Int
	var um []common.Address
	for _, u := range in.Uncles {
		m := cbs[r.Intn(len(cbs))]
		if in.SameCB {
			m = coinbase
		}
		un := new(big.Int).SetUint64(u)
		uncles = append(uncles, &types.Header{ParentHash: common.BytesToHash(r.Bytes(32)), Coinbase: m, Number: un, GasLimit: params.GenesisGasLimit,
			Time: big.NewInt(1699990000), Difficulty: big.NewInt(1 << 20), Version: cfg.GetBlockVersion(un)})
		uh = append(uh, un)
		um = append(um, m)
	}
	// transactions
	var txs []*types.Transaction
	var kinds []string
	env := &tplEnv{w: w, x: x, r: r, st: look, num: num, used: map[int]uint64{}}
	signer := w.Signer(num)
	gas := uint64(0)
	for j := 0; j < in.NTpl; j++ {
		name := templateNames[r.Intn(len(templateNames))]
		if name == "touch_revert_coinbase" || name == "coinbase_is_sender" || name == "coinbase_selfdestructs" {
			name = "random_program"
		}
		tpl := env.build(name)
		if tpl == nil {
			continue
		}
		for _, s := range tpl.Txs {
			if gas+s.Gas > params.GenesisGasLimit {
				// keep nonces contiguous: stop adding anything
				j = in.NTpl
				break
			}
			var tx *types.Transaction
			price := big.NewInt(int64(r.Range(1, 40)) * 1e9)
			if s.To == nil {
				tx = types.NewContractCreation(s.Nonce, s.Val, s.Gas, price, s.Data)
			} else {
				tx = types.NewTransaction(s.Nonce, *s.To, s.Val, s.Gas, price, s.Data)
			}
			signed, err := types.SignTx(tx, signer, w.Keys[s.Sender])
			if err != nil {
				panic(err)
			}
			gas += s.Gas
			txs = append(txs, signed)
			kinds = append(kinds, s.Name)
		}
	}
	iss, per := issuance(num, coinbase, uh, um)
	fees := new(big.Int)
	delEmpty := cfg.IsEIP158(num)
	tr.begin()
	op := "Process"
	if in.Mode == "finalize" {
		op = "Finalize"
		if _, err := bc.Engine().Finalize(bc, header, st, nil, uncles, nil); err != nil {
			c.Inconclusive("finalize_failed")
			return
		}
	} else {
		block := types.NewBlock(header, txs, uncles, nil)
		sp := core.NewStateProcessor(cfg, bc, bc.Engine())
		receipts, _, _, err := sp.Process(block, st, vmcfg)
		if err != nil {
			c.Count("maxmoney_process_rejected")
			c.Inconclusive("process_rejected")
			c.Note("Process rejected the synthetic block: %v (kinds %v)", err, kinds)
			return
		}
		fees = blockFees(block, receipts)
	}
	root, err := st.Commit(delEmpty)
	if err != nil {
		c.Inconclusive("state_unreadable")
		return
	}
	sum, _, err := supplyWalk(st.Database().TrieDB(), root)
	if err != nil {
		c.Inconclusive("state_unreadable")
		return
	}
	o := tr.o
	delta := new(big.Int).Sub(sum, pi.sum)
	sd := len(o.SdEffective) > 0 || o.Disagree > 0
	c.Count("maxmoney_cases")
	c.CountN("maxmoney_txs", len(txs))
	if num.Cmp(maxMoney) < 0 {
		c.Count("maxmoney_below_cutoff")
	} else {
		c.Count("maxmoney_at_or_above_cutoff")
	}
	if len(uncles) > 0 {
		c.Count("maxmoney_with_uncles")
	}
	if in.Height == 41999999 || in.Height == 42000000 {
		c.Count("maxmoney_boundary_height")
	}
	if sd {
		c.Count("maxmoney_upper_bound_only")
	}
	countObs(c, o)
	if len(uncles) > 0 || len(txs) > 0 {
		c.Nontrivial(fmt.Sprintf("mm %s %d %v %s %v", in.Config, in.Height, in.Uncles, in.Mode, kinds))
	}
	cause := "below_cutoff"
	if num.Cmp(maxMoney) >= 0 {
		cause = "at_or_above_cutoff"
	}
	if len(uncles) > 0 {
		cause += "_with_uncles"
	}
	if len(txs) > 0 {
		cause += "_with_transactions"
	}
	detail := fmt.Sprintf("synthetic block %d (%s, %s): sum of balances changed by %v, scheduled issuance %v (uncle heights %v), effective self-destructs %d, tx kinds %v",
		in.Height, in.Config, in.Mode, delta, iss, in.Uncles, len(o.SdEffective), kinds)
	switch {
	case delta.Cmp(iss) > 0:
		c.Violate("total_rose_above_issuance", op, cause, detail)
	case !sd && delta.Cmp(iss) < 0:
		if bi, err := k.root(root); err == nil && explainLostCredits(pi.accs, bi.accs, o, coinbase, fees, per, new(big.Int).Sub(iss, delta)) {
			cause = causeF5
		}
		c.Violate("coins_destroyed_without_selfdestruct", op, cause, detail)
	}
	if c.WantSample() && in.Index%7 == 0 {
		c.Sample(map[string]interface{}{"case": in, "delta": delta.String(), "issuance": iss.String(), "tx_kinds": kinds})
	}
}
