package c05

import (
	"encoding/hex"
	"math/big"

	"gitlab.com/aquachain/aquachain/common"
	"gitlab.com/aquachain/aquachain/core"
	"gitlab.com/aquachain/aquachain/core/state"
	"verif/internal/fw"
	"verif/internal/gen"
)

// ---------------------------------------------------------------------------
// Straight-line value-moving programs. A program is a list of steps (calls of
// the four kinds, creations running a nested program as init code, a storage
// write) and an ending (stop, revert, invalid, self-destruct, deploy runtime
// code). They are assembled per case and run as init code of creation
// transactions, of nested CREATEs, or through the pre-deployed factory.
//
// Memory: word 0 ("reg") keeps the address returned by the last CREATE; call
// data / init code are staged from 0x40.

type Step struct {
	Op   string `json:"op"`            // call | callcode | delegatecall | staticcall | create | sstore
	To   string `json:"to,omitempty"`  // 0x-address | "reg" | "self"
	Val  string `json:"val,omitempty"` // decimal | "all" (own balance) | "over" (own balance + 1)
	Data string `json:"data,omitempty"`
	Gas  uint64 `json:"gas,omitempty"` // calls only: gas cap (0 = all but 1/64)
	Init *Prog  `json:"init,omitempty"`
}

type Prog struct {
	Steps []Step `json:"steps,omitempty"`
	End   string `json:"end"` // stop | revert | invalid | selfdestruct | deploy
	Ben   string `json:"ben,omitempty"`
	Code  string `json:"code,omitempty"` // runtime code for "deploy"
}

const stageAt = 0x40

func hx(b []byte) string { return hex.EncodeToString(b) }
func unhx(s string) []byte {
	b, _ := hex.DecodeString(s)
	return b
}

func addrS(a common.Address) string { return "0x" + hx(a[:]) }

func pushTo(a *gen.Asm, to string) {
	switch to {
	case "reg":
		a.Push(0).Op(gen.MLOAD)
	case "self":
		a.Op(gen.ADDRESS)
	default:
		a.PushBytes(common.HexToAddress(to).Bytes())
	}
}

func pushVal(a *gen.Asm, v string) {
	switch v {
	case "", "0":
		a.Push(0)
	case "all":
		a.Op(gen.ADDRESS, gen.BALANCE)
	case "over":
		a.Op(gen.ADDRESS, gen.BALANCE).Push(1).Op(gen.ADD)
	default:
		b, ok := new(big.Int).SetString(v, 10)
		if !ok {
			panic("bad value " + v)
		}
		a.PushBig(b)
	}
}

func pushGas(a *gen.Asm, g uint64) {
	if g == 0 {
		a.Op(gen.GAS)
	} else {
		a.Push(g)
	}
}

// stage writes data to memory at stageAt with PUSH32/MSTORE words.
func stage(a *gen.Asm, data []byte) int {
	for i := 0; i < len(data); i += 32 {
		var w [32]byte
		copy(w[:], data[i:])
		a.PushBytes(w[:]).Push(uint64(stageAt + i)).Op(gen.MSTORE)
	}
	return len(data)
}

func (p *Prog) Bytes() []byte {
	a := gen.NewAsm()
	for _, s := range p.Steps {
		switch s.Op {
		case "call", "callcode":
			n := stage(a, unhx(s.Data))
			a.Push(0).Push(0).Push(uint64(n)).Push(stageAt)
			pushVal(a, s.Val)
			pushTo(a, s.To)
			op := byte(gen.CALL)
			if s.Op == "callcode" {
				op = gen.CALLCODE
			}
			pushGas(a, s.Gas)
			a.Op(op, gen.POP)
		case "delegatecall", "staticcall":
			n := stage(a, unhx(s.Data))
			a.Push(0).Push(0).Push(uint64(n)).Push(stageAt)
			pushTo(a, s.To)
			op := byte(gen.DELEGATECALL)
			if s.Op == "staticcall" {
				op = gen.STATICCALL
			}
			pushGas(a, s.Gas)
			a.Op(op, gen.POP)
		case "create":
			n := stage(a, s.Init.Bytes())
			a.Push(uint64(n)).Push(stageAt)
			pushVal(a, s.Val)
			a.Op(gen.CREATE).Push(0).Op(gen.MSTORE)
		case "sstore":
			a.Push(1).Push(7).Op(gen.SSTORE)
		default:
			panic("unknown step " + s.Op)
		}
	}
	switch p.End {
	case "stop":
		a.Op(gen.STOP)
	case "revert":
		a.Push(0).Push(0).Op(gen.REVERT)
	case "invalid":
		a.Op(gen.INVALID)
	case "selfdestruct":
		pushTo(a, p.Ben)
		a.Op(gen.SELFDESTRUCT)
	case "toolarge":
		// returns 24577 zero bytes as runtime code: over the size limit where there
		// is one, unaffordable code deposit elsewhere
		a.PushBytes([]byte{0x60, 0x01}).Push(0).Op(gen.RETURN)
	case "deploy":
		n := stage(a, unhx(p.Code))
		a.Push(uint64(n)).Push(stageAt).Op(gen.RETURN)
	default:
		panic("unknown end " + p.End)
	}
	return a.Bytes()
}

// depth of nested creations (for evidence).
func (p *Prog) depth() int {
	d := 0
	for _, s := range p.Steps {
		if s.Init != nil {
			if x := s.Init.depth(); x > d {
				d = x
			}
		}
	}
	return d + 1
}

// ---------------------------------------------------------------------------
// Extra pre-deployed contracts and accounts of this check (added to the
// world's genesis allocation before the genesis block is committed).

var (
	addrSOA1       = common.HexToAddress("0x0000000000000000000000000000000000c05001") // self-destruct-or-accept
	addrSOA2       = common.HexToAddress("0x0000000000000000000000000000000000c05002")
	addrCallRevert = common.HexToAddress("0x0000000000000000000000000000000000c05003")
	addrCallInval  = common.HexToAddress("0x0000000000000000000000000000000000c05004")
)

// soaCode: empty calldata -> STOP (accepts value); else SELFDESTRUCT(calldata[0:32]).
func soaCode() []byte {
	a := gen.NewAsm()
	a.Op(gen.CALLDATASIZE, gen.ISZERO).Jumpi("stop")
	a.Push(0).Op(gen.CALLDATALOAD, gen.SELFDESTRUCT)
	a.Label("stop").Op(gen.STOP)
	return a.Bytes()
}

// callThenFailCode: calldata = to(32) value(32): CALL(to, value, all gas) and then
// fail the frame (REVERT, or INVALID).
func callThenFailCode(invalid bool) []byte {
	a := gen.NewAsm()
	a.Push(0).Push(0).Push(0).Push(0).Push(32).Op(gen.CALLDATALOAD).Push(0).Op(gen.CALLDATALOAD).Op(gen.GAS, gen.CALL, gen.POP)
	if invalid {
		a.Op(gen.INVALID)
	} else {
		a.Push(0).Push(0).Op(gen.REVERT)
	}
	return a.Bytes()
}

type extras struct {
	Empties []common.Address // exist in genesis with nonce 0, balance 0, no code
}

const nEmpties = 12

func extendWorld(r *fw.Rand, w *gen.World) *extras {
	x := &extras{}
	w.Spec.Alloc[addrSOA1] = core.GenesisAccount{Code: soaCode(), Balance: big.NewInt(3e15)}
	w.Spec.Alloc[addrSOA2] = core.GenesisAccount{Code: soaCode(), Balance: big.NewInt(0)}
	w.Spec.Alloc[addrCallRevert] = core.GenesisAccount{Code: callThenFailCode(false), Balance: big.NewInt(2e15)}
	w.Spec.Alloc[addrCallInval] = core.GenesisAccount{Code: callThenFailCode(true), Balance: big.NewInt(2e15)}
	for i := 0; i < nEmpties; i++ {
		var a common.Address
		copy(a[:], r.Bytes(20))
		a[0] = 0xe0
		w.Spec.Alloc[a] = core.GenesisAccount{Balance: new(big.Int)}
		x.Empties = append(x.Empties, a)
	}
	return x
}

// ---------------------------------------------------------------------------
// Templates.

type txSpec struct {
	Name   string
	Sender int
	Nonce  uint64
	To     *common.Address
	Val    *big.Int
	Gas    uint64
	Data   []byte
	Prog   *Prog
}

type blockTpl struct {
	Name     string
	Txs      []txSpec
	Coinbase *common.Address
}

// tplEnv is what a template may look at: the parent state (nonces, which empty
// accounts still exist), the height and the fork rules there.
type tplEnv struct {
	w    *gen.World
	x    *extras
	r    *fw.Rand
	st   *state.StateDB
	num  *big.Int
	used map[int]uint64
	// empties created by zero-value transfers on this run (pre-EIP158 heights)
	madeEmpties []common.Address
}

func (e *tplEnv) nonce(s int) uint64 {
	n := e.st.GetNonce(e.w.Addrs[s]) + e.used[s]
	e.used[s]++
	return n
}

func (e *tplEnv) sender() int { return e.r.Intn(len(e.w.Keys)) }

func (e *tplEnv) fresh() common.Address {
	var a common.Address
	copy(a[:], e.r.Bytes(20))
	a[0] = 0xee
	return a
}

// newNonce: nonce a freshly created contract starts with.
func (e *tplEnv) newNonce() uint64 {
	if e.w.Config.IsEIP158(e.num) {
		return 1
	}
	return 0
}

// liveEmpty returns an address that exists and is empty in the parent state.
func (e *tplEnv) liveEmpty() (common.Address, bool) {
	cands := append(append([]common.Address{}, e.x.Empties...), e.madeEmpties...)
	for _, i := range e.r.Perm(len(cands)) {
		a := cands[i]
		if e.st.Exist(a) && e.st.Empty(a) {
			return a, true
		}
	}
	return common.Address{}, false
}

func (e *tplEnv) smallVal() *big.Int {
	switch e.r.Intn(4) {
	case 0:
		return big.NewInt(1)
	case 1:
		return big.NewInt(int64(e.r.Range(2, 1000)))
	default:
		return new(big.Int).Mul(big.NewInt(int64(e.r.Range(1, 1e6))), big.NewInt(1e9))
	}
}

func dec(v *big.Int) string { return v.String() }

// someone: a beneficiary / recipient from the hostile pool.
func (e *tplEnv) someone() common.Address {
	switch e.r.Intn(9) {
	case 0:
		return e.fresh()
	case 1:
		return e.w.Addrs[e.r.Intn(len(e.w.Addrs))]
	case 2:
		return common.Address{19: byte(e.r.Range(1, 9))}
	case 3:
		return e.w.Coinbases[e.r.Intn(len(e.w.Coinbases))]
	case 4:
		return e.w.Dealloc[e.r.Intn(len(e.w.Dealloc))]
	case 5:
		if a, ok := e.liveEmpty(); ok {
			return a
		}
		return e.fresh()
	case 6:
		return gen.AddrSink
	case 7:
		return []common.Address{gen.AddrSuicide, gen.AddrSuicide2, addrSOA1, addrSOA2}[e.r.Intn(4)]
	default:
		return e.fresh()
	}
}

// every transaction reserves its nonce when it is made, so the order of making
// is the order in the block and predicted creation addresses are exact
func (e *tplEnv) progTx(name string, p *Prog, val *big.Int) txSpec {
	s := e.sender()
	return txSpec{Name: name, Sender: s, Nonce: e.nonce(s), Val: val, Gas: 1500000, Data: p.Bytes(), Prog: p}
}

func (e *tplEnv) progTxFrom(name string, s int, n uint64, p *Prog, val *big.Int) txSpec {
	return txSpec{Name: name, Sender: s, Nonce: n, Val: val, Gas: 1500000, Data: p.Bytes(), Prog: p}
}

func (e *tplEnv) callTx(name string, to common.Address, val *big.Int, data []byte) txSpec {
	s := e.sender()
	return txSpec{Name: name, Sender: s, Nonce: e.nonce(s), To: &to, Val: val, Gas: 400000, Data: data}
}

func (e *tplEnv) sendTx(name string, s int, to common.Address, val *big.Int, gas uint64) txSpec {
	return txSpec{Name: name, Sender: s, Nonce: e.nonce(s), To: &to, Val: val, Gas: gas}
}

// failingChild runs init (a program that ends in failure) as a creation frame
// carrying value v. A frame that fails by REVERT keeps its caller's gas and is
// created directly; one that burns all its gas (INVALID, or REVERT where that
// opcode does not exist yet) is created through the pre-deployed factory under a
// gas cap, so that the caller can go on afterwards.
func (e *tplEnv) failingChild(v string, init *Prog) Step {
	if init.End == "revert" && e.w.Config.IsByzantium(e.num) {
		return Step{Op: "create", Val: v, Init: init}
	}
	return Step{Op: "call", To: addrS(gen.AddrFactory), Gas: 300000, Val: v, Data: hx(init.Bytes())}
}

func deploySOA() *Prog { return &Prog{End: "deploy", Code: hx(soaCode())} }

var templateNames = []string{
	"inner_transfer_then_revert", "outer_revert_after_inner_transfer", "failed_create_with_value",
	"create_on_funded_address", "failed_create_on_funded_address", "selfdestruct_to_self", "selfdestruct_to_other",
	"send_into_selfdestructed", "double_selfdestruct", "repeated_selfdestruct_after_refund", "selfdestruct_in_reverted_frame",
	"touch_revert_credit_same_tx", "touch_revert_credit_cross_tx", "touch_revert_coinbase",
	"value_above_balance", "precompile_value", "delegate_selfdestruct", "static_write_attempt",
	"coinbase_is_sender", "coinbase_selfdestructs", "refund_dealloc", "make_empty", "random_program",
}

// build returns the block template of the given name (nil if it does not apply
// at this point, e.g. no live empty account).
func (e *tplEnv) build(name string) *blockTpl {
	r := e.r
	t := &blockTpl{Name: name}
	switch name {
	case "inner_transfer_then_revert":
		// library contract forwards value and then fails: everything is undone
		to := addrCallRevert
		if r.Bool() {
			to = addrCallInval
		}
		v := e.smallVal()
		t.Txs = append(t.Txs, e.callTx(name, to, v, gen.Cat(gen.WordAddr(e.someone()), gen.WordBig(v))))
	case "outer_revert_after_inner_transfer":
		// nested: a created frame transfers and reverts; the creator goes on and transfers again
		v := e.smallVal()
		end := []string{"revert", "invalid"}[r.Intn(2)]
		inner := &Prog{Steps: []Step{{Op: "call", To: addrS(e.someone()), Val: dec(v)}, {Op: "sstore"}}, End: end}
		p := &Prog{Steps: []Step{e.failingChild(dec(new(big.Int).Mul(v, big.NewInt(2))), inner), {Op: "call", To: addrS(e.someone()), Val: dec(v)}}, End: "stop"}
		t.Txs = append(t.Txs, e.progTx(name, p, new(big.Int).Mul(v, big.NewInt(5))))
	case "failed_create_with_value":
		v := e.smallVal()
		p := &Prog{Steps: []Step{
			e.failingChild(dec(v), &Prog{End: "revert"}),
			e.failingChild(dec(v), &Prog{Steps: []Step{{Op: "sstore"}}, End: "invalid"}),
			e.failingChild(dec(v), &Prog{End: "toolarge"}),
			{Op: "create", Val: dec(v), Init: &Prog{End: []string{"revert", "invalid", "toolarge"}[r.Intn(3)]}},
		}, End: "stop"}
		if r.Bool() {
			p.End = "selfdestruct"
			p.Ben = addrS(e.someone())
		}
		t.Txs = append(t.Txs, e.progTx(name, p, new(big.Int).Mul(v, big.NewInt(5))))
		// and a top-level one
		t.Txs = append(t.Txs, e.progTx(name, &Prog{Steps: []Step{{Op: "call", To: addrS(e.someone()), Val: dec(v)}}, End: "revert"}, new(big.Int).Mul(v, big.NewInt(2))))
	case "create_on_funded_address", "failed_create_on_funded_address":
		// tx A funds the address tx B's creation will use; inside B a nested CREATE
		// lands on an address B has just funded itself
		v := e.smallVal()
		s := e.sender()
		nA, nB := e.nonce(s), e.nonce(s) // funding tx from the same sender, so B's nonce is fixed
		bAddr := createAddress(e.w.Addrs[s], nB)
		child := createAddress(bAddr, e.newNonce())
		childProg := deploySOA()
		end := "stop"
		if name == "failed_create_on_funded_address" {
			childProg = &Prog{Steps: []Step{{Op: "sstore"}}, End: []string{"revert", "invalid"}[r.Intn(2)]}
			if r.Bool() {
				end = "revert"
			}
		}
		p := &Prog{Steps: []Step{{Op: "call", To: addrS(child), Val: dec(v)}, {Op: "create", Val: dec(v), Init: childProg}}, End: end}
		t.Txs = append(t.Txs,
			txSpec{Name: name, Sender: s, Nonce: nA, To: &bAddr, Val: e.smallVal(), Gas: 21000, Data: nil},
			e.progTxFrom(name, s, nB, p, new(big.Int).Mul(v, big.NewInt(3))))
	case "selfdestruct_to_self":
		v := e.smallVal()
		switch r.Intn(3) {
		case 0:
			p := &Prog{Steps: []Step{{Op: "create", Val: dec(v), Init: &Prog{End: "selfdestruct", Ben: "self"}}}, End: "stop"}
			t.Txs = append(t.Txs, e.progTx(name, p, new(big.Int).Mul(v, big.NewInt(2))))
		case 1:
			t.Txs = append(t.Txs, e.progTx(name, &Prog{End: "selfdestruct", Ben: "self"}, v))
		default:
			a := []common.Address{addrSOA1, addrSOA2, gen.AddrSuicide}[r.Intn(3)]
			t.Txs = append(t.Txs, e.callTx(name, a, v, gen.WordAddr(a)))
		}
	case "selfdestruct_to_other":
		v := e.smallVal()
		a := []common.Address{addrSOA1, addrSOA2, gen.AddrSuicide, gen.AddrSuicide2}[r.Intn(4)]
		ben := e.someone()
		if r.Chance(1, 4) {
			ben = a // covered elsewhere too
		}
		t.Txs = append(t.Txs, e.callTx(name, a, v, gen.WordAddr(ben)))
		t.Txs = append(t.Txs, e.progTx(name, &Prog{Steps: []Step{{Op: "sstore"}}, End: "selfdestruct", Ben: addrS(e.someone())}, e.smallVal()))
	case "send_into_selfdestructed", "double_selfdestruct":
		v, v2 := e.smallVal(), e.smallVal()
		s := e.sender()
		nP := e.nonce(s)
		pAddr := createAddress(e.w.Addrs[s], nP)
		child := createAddress(pAddr, e.newNonce())
		steps := []Step{
			{Op: "create", Val: dec(v), Init: deploySOA()},
			{Op: "call", To: addrS(child), Data: hx(gen.WordAddr(e.someone()))},
			{Op: "call", To: "reg", Val: dec(v2)},
		}
		if name == "double_selfdestruct" {
			steps = steps[:2]
			steps = append(steps, Step{Op: "call", To: addrS(child), Data: hx(gen.WordAddr(e.someone()))})
			if r.Bool() {
				// refill between the two
				steps = append(steps[:2], Step{Op: "call", To: "reg", Val: dec(v2)}, steps[2])
			}
		}
		p := &Prog{Steps: steps, End: "stop"}
		t.Txs = append(t.Txs, e.progTxFrom(name, s, nP, p, new(big.Int).Add(new(big.Int).Mul(v, big.NewInt(2)), v2)))
		if name == "double_selfdestruct" {
			// the same against a pre-deployed self-destructor, through the nested-caller library
			a := []common.Address{addrSOA1, gen.AddrSuicide}[r.Intn(2)]
			p2 := &Prog{Steps: []Step{
				{Op: "call", To: addrS(a), Val: dec(v), Data: hx(gen.WordAddr(e.someone()))},
				{Op: "call", To: addrS(a), Val: dec(v2), Data: hx(gen.WordAddr(e.someone()))},
			}, End: "stop"}
			t.Txs = append(t.Txs, e.progTx(name, p2, new(big.Int).Add(new(big.Int).Mul(v, big.NewInt(2)), v2)))
		}
	case "repeated_selfdestruct_after_refund":
		// SD ; fund ; SD ; SD [; fund ; SD ; SD]: three or more SELFDESTRUCTs of one
		// account in one transaction with value arriving in between. Every
		// SELFDESTRUCT after the first must still zero the balance it hands over.
		v, v2 := e.smallVal(), e.smallVal()
		s := e.sender()
		nP := e.nonce(s)
		pAddr := createAddress(e.w.Addrs[s], nP)
		child := createAddress(pAddr, e.newNonce())
		sd := func(to common.Address, val *big.Int) Step {
			return Step{Op: "call", To: addrS(to), Val: dec(val), Data: hx(gen.WordAddr(e.someone()))}
		}
		zero := new(big.Int)
		seq := func(to common.Address) []Step {
			st := []Step{sd(to, zero)}
			if r.Bool() {
				st = append(st, Step{Op: "call", To: addrS(to), Val: dec(v2)}) // plain refill (empty calldata: accepted)
				st = append(st, sd(to, zero))
			} else {
				st = append(st, sd(to, v2)) // the refill rides on the second SELFDESTRUCT call
			}
			st = append(st, sd(to, zero))
			if r.Bool() {
				st = append(st, sd(to, v2), sd(to, zero), sd(to, zero))
			}
			return st
		}
		steps := append([]Step{{Op: "create", Val: dec(v), Init: deploySOA()}}, seq(child)...)
		total := new(big.Int).Add(new(big.Int).Mul(v, big.NewInt(2)), new(big.Int).Mul(v2, big.NewInt(3)))
		t.Txs = append(t.Txs, e.progTxFrom(name, s, nP, &Prog{Steps: steps, End: "stop"}, total))
		// the same against a pre-deployed self-destructor (a plain account once it is gone)
		a := []common.Address{addrSOA1, addrSOA2, gen.AddrSuicide, gen.AddrSuicide2}[r.Intn(4)]
		t.Txs = append(t.Txs, e.progTx(name, &Prog{Steps: seq(a), End: "stop"}, total))
	case "selfdestruct_in_reverted_frame":
		// (a) a contract funded earlier in the same transaction is destroyed, with no
		// value sent along, under a frame that fails: its balance must come back;
		// (b) a contract created and destroyed under a failing frame; (c) a
		// pre-deployed self-destructor destroyed under a failing frame
		v := e.smallVal()
		s := e.sender()
		nP := e.nonce(s)
		pAddr := createAddress(e.w.Addrs[s], nP)
		child := createAddress(pAddr, e.newNonce())
		fail := func() string { return []string{"revert", "invalid"}[r.Intn(2)] }
		p4 := &Prog{Steps: []Step{{Op: "call", To: addrS(child), Data: hx(gen.WordAddr(e.someone()))}}, End: fail()}
		p3 := &Prog{End: "selfdestruct", Ben: addrS(e.someone())}
		p2 := &Prog{Steps: []Step{{Op: "create", Val: dec(v), Init: p3}}, End: fail()}
		steps := []Step{{Op: "create", Val: dec(v), Init: deploySOA()}, e.failingChild("0", p4), e.failingChild(dec(v), p2)}
		if r.Bool() {
			p5 := &Prog{Steps: []Step{{Op: "call", To: addrS([]common.Address{addrSOA1, addrSOA2, gen.AddrSuicide2}[r.Intn(3)]), Val: dec(v), Data: hx(gen.WordAddr(e.someone()))}}, End: fail()}
			steps = append(steps, e.failingChild(dec(v), p5))
		}
		t.Txs = append(t.Txs, e.progTxFrom(name, s, nP, &Prog{Steps: steps, End: "stop"}, new(big.Int).Mul(v, big.NewInt(5))))
	case "touch_revert_credit_same_tx":
		E, ok := e.liveEmpty()
		if !ok {
			return nil
		}
		v := e.smallVal()
		p := &Prog{Steps: []Step{
			e.failingChild("0", &Prog{Steps: []Step{{Op: "call", To: addrS(E)}}, End: []string{"revert", "invalid"}[r.Intn(2)]}),
			{Op: "call", To: addrS(E), Val: dec(v)},
		}, End: "stop"}
		t.Txs = append(t.Txs, e.progTx(name, p, new(big.Int).Mul(v, big.NewInt(2))))
	case "touch_revert_credit_cross_tx":
		E, ok := e.liveEmpty()
		if !ok {
			return nil
		}
		to := addrCallRevert
		if r.Bool() {
			to = addrCallInval
		}
		t.Txs = append(t.Txs, e.callTx(name, to, new(big.Int), gen.Cat(gen.WordAddr(E), gen.WordU(0))))
		t.Txs = append(t.Txs, e.sendTx(name, e.sender(), E, e.smallVal(), 21000))
	case "touch_revert_coinbase":
		E, ok := e.liveEmpty()
		if !ok {
			return nil
		}
		t.Coinbase = &E
		t.Txs = append(t.Txs, e.callTx(name, addrCallRevert, new(big.Int), gen.Cat(gen.WordAddr(E), gen.WordU(0))))
	case "value_above_balance":
		p := &Prog{Steps: []Step{
			{Op: "call", To: addrS(e.someone()), Val: "over"},
			{Op: "callcode", To: addrS(gen.AddrSink), Val: "over"},
			{Op: "create", Val: "over", Init: &Prog{End: "stop"}},
			{Op: "call", To: addrS(e.someone()), Val: "all"},
		}, End: "stop"}
		t.Txs = append(t.Txs, e.progTx(name, p, e.smallVal()))
	case "precompile_value":
		var steps []Step
		for i := 0; i < 3; i++ {
			steps = append(steps, Step{Op: []string{"call", "callcode"}[r.Intn(2)], To: addrS(common.Address{19: byte(r.Range(1, 9))}), Val: dec(e.smallVal()), Data: hx(r.Bytes(r.Intn(100)))})
		}
		t.Txs = append(t.Txs, e.progTx(name, &Prog{Steps: steps, End: "stop"}, new(big.Int).Mul(big.NewInt(4e15), big.NewInt(1))))
	case "delegate_selfdestruct":
		v := e.smallVal()
		op := []string{"delegatecall", "callcode"}[r.Intn(2)]
		p := &Prog{Steps: []Step{
			{Op: op, To: addrS([]common.Address{addrSOA1, gen.AddrSuicide}[r.Intn(2)]), Data: hx(gen.WordAddr(e.someone()))},
			{Op: "call", To: addrS(e.someone()), Val: dec(v)},
		}, End: "stop"}
		t.Txs = append(t.Txs, e.progTx(name, p, new(big.Int).Mul(v, big.NewInt(2))))
	case "static_write_attempt":
		p := &Prog{Steps: []Step{
			{Op: "staticcall", To: addrS(addrSOA1), Data: hx(gen.WordAddr(e.someone()))},
			{Op: "staticcall", To: addrS(addrCallRevert), Data: hx(gen.Cat(gen.WordAddr(e.someone()), gen.WordU(5)))},
			{Op: "staticcall", To: addrS(gen.AddrForwarder), Data: hx(gen.WordAddr(e.someone()))},
		}, End: "stop"}
		t.Txs = append(t.Txs, e.progTx(name, p, e.smallVal()))
	case "coinbase_is_sender":
		s := e.sender()
		cb := e.w.Addrs[s]
		t.Coinbase = &cb
		to := e.someone()
		t.Txs = append(t.Txs, e.sendTx(name, s, to, e.smallVal(), 60000))
		t.Txs = append(t.Txs, e.sendTx(name, s, cb, e.smallVal(), 21000))
	case "coinbase_selfdestructs":
		cb := []common.Address{addrSOA1, addrSOA2, gen.AddrSuicide}[r.Intn(3)]
		t.Coinbase = &cb
		t.Txs = append(t.Txs, e.callTx(name, cb, e.smallVal(), gen.WordAddr(e.someone())))
		t.Txs = append(t.Txs, e.callTx(name, gen.AddrSink, e.smallVal(), nil))
	case "refund_dealloc":
		d := e.w.Dealloc[r.Intn(len(e.w.Dealloc))]
		t.Txs = append(t.Txs, e.sendTx(name, e.sender(), d, e.smallVal(), 21000))
	case "make_empty":
		// only creates an empty account where EIP158 is not active; elsewhere a no-op touch
		a := e.fresh()
		t.Txs = append(t.Txs, e.sendTx(name, e.sender(), a, new(big.Int), 21000))
		if !e.w.Config.IsEIP158(e.num) {
			e.madeEmpties = append(e.madeEmpties, a)
		}
	case "random_program":
		p := e.randProg(0)
		t.Txs = append(t.Txs, e.progTx(name, p, e.smallVal()))
		if r.Bool() {
			// the same kind of program under the pre-deployed factory (CREATE at depth 1)
			q := e.randProg(1)
			fs := e.sender()
			fa := gen.AddrFactory
			t.Txs = append(t.Txs, txSpec{Name: name, Sender: fs, Nonce: e.nonce(fs), To: &fa, Val: e.smallVal(), Gas: 1500000, Data: q.Bytes(), Prog: q})
		}
	default:
		panic("unknown template " + name)
	}
	for i := range t.Txs {
		if t.Txs[i].Val == nil {
			t.Txs[i].Val = new(big.Int)
		}
	}
	return t
}

func (e *tplEnv) randTarget() string {
	r := e.r
	switch r.Intn(12) {
	case 0:
		return "reg"
	case 1:
		return "self"
	case 2, 3:
		lib := []common.Address{gen.AddrSink, gen.AddrSuicide, gen.AddrSuicide2, gen.AddrReverter, gen.AddrInvalid, gen.AddrForwarder,
			gen.AddrStore, gen.AddrSpinner, addrSOA1, addrSOA2, addrCallRevert, addrCallInval}
		return addrS(lib[r.Intn(len(lib))])
	default:
		return addrS(e.someone())
	}
}

func (e *tplEnv) randVal() string {
	switch e.r.Intn(8) {
	case 0, 1:
		return "0"
	case 2:
		return "all"
	case 3:
		return "over"
	default:
		return dec(e.smallVal())
	}
}

func (e *tplEnv) randData(to string) []byte {
	r := e.r
	switch common.HexToAddress(to) {
	case gen.AddrSuicide, gen.AddrSuicide2, addrSOA1, addrSOA2, gen.AddrForwarder:
		if r.Chance(1, 4) {
			return nil
		}
		return gen.WordAddr(e.someone())
	case addrCallRevert, addrCallInval:
		return gen.Cat(gen.WordAddr(e.someone()), gen.WordBig(e.smallVal()))
	}
	if to == "reg" && r.Bool() {
		return gen.WordAddr(e.someone())
	}
	return r.Bytes(r.Intn(40))
}

func (e *tplEnv) randProg(depth int) *Prog {
	r := e.r
	p := &Prog{}
	n := r.Range(0, 4)
	for i := 0; i < n; i++ {
		switch x := r.Intn(11); {
		case x < 4:
			to := e.randTarget()
			p.Steps = append(p.Steps, Step{Op: "call", To: to, Val: e.randVal(), Data: hx(e.randData(to))})
		case x < 5:
			to := e.randTarget()
			p.Steps = append(p.Steps, Step{Op: "callcode", To: to, Val: e.randVal(), Data: hx(e.randData(to))})
		case x < 6:
			to := e.randTarget()
			p.Steps = append(p.Steps, Step{Op: "delegatecall", To: to, Data: hx(e.randData(to))})
		case x < 7:
			to := e.randTarget()
			p.Steps = append(p.Steps, Step{Op: "staticcall", To: to, Data: hx(e.randData(to))})
		case x < 10:
			if depth < 3 {
				init := e.randProg(depth + 1)
				v := e.randVal()
				if (init.End == "revert" || init.End == "invalid") && r.Bool() {
					p.Steps = append(p.Steps, e.failingChild(v, init))
				} else {
					p.Steps = append(p.Steps, Step{Op: "create", Val: v, Init: init})
				}
			}
		default:
			p.Steps = append(p.Steps, Step{Op: "sstore"})
		}
	}
	switch x := r.Intn(10); {
	case x < 4:
		p.End = "stop"
	case x < 6:
		p.End = "revert"
	case x < 7:
		p.End = "invalid"
	case x < 9:
		p.End = "selfdestruct"
		p.Ben = e.randTarget()
	default:
		p.End = "deploy"
		p.Code = hx(soaCode())
	}
	return p
}
