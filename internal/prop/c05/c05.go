// Package c05: coins are created only by the block reward schedule.
//
// Monitor: the real chain (core.BlockChain.InsertChain -> StateProcessor.Process,
// and step by step core.ApplyTransaction / Engine.Finalize) runs generated block
// trees full of value-moving programs. At every block boundary the oracle sums
// every account balance committed to by the parent root and by the block root
// (independent walk over the account trie, cross-checked with StateDB.RawDump)
// and compares the difference with the issuance the property text schedules for
// that block. Whether a contract self-destructed is observed with a vm.Tracer on
// the importing chain; only self-destructs that survived (own frame and every
// ancestor frame succeeded) relax "exactly" to "at most".
package c05

import (
	"context"
	"fmt"
	"math/big"
	"sort"
	"strings"
	"time"

	"gitlab.com/aquachain/aquachain/common"
	"gitlab.com/aquachain/aquachain/common/log"
	"gitlab.com/aquachain/aquachain/consensus/aquahash"
	"gitlab.com/aquachain/aquachain/consensus/misc"
	"gitlab.com/aquachain/aquachain/core"
	"gitlab.com/aquachain/aquachain/core/state"
	"gitlab.com/aquachain/aquachain/core/types"
	"gitlab.com/aquachain/aquachain/core/vm"
	"gitlab.com/aquachain/aquachain/params"
	"verif/internal/fw"
	"verif/internal/gen"
)

func init() {
	fw.Register(&fw.Prop{
		ID:    "C05",
		Title: "Coins are created only by the block reward schedule",
		Level: "exploration",
		Rule: "leg tree: a tree case generates one block tree (main chain of 52 + side branches + uncle siblings) over one of three fork schedules with the node's own block builder and imports it block by block; every block is then one case; " +
			"every block carries forced value-moving templates (reverting inner frames after a transfer, failed creations with value, creation on a funded address, " +
			"self-destruct to self/other/inside a reverted frame/twice/three and more times with refills in between, zero-value touches of empty accounts inside reverted frames followed by credits, " +
			"value above balance, precompile recipients, DELEGATECALL/CALLCODE/STATICCALL self-destructs, special coinbases, the HF4 de-allocation) plus PRNG programs nested up to 4 frames; " +
			"every block is imported by a real BlockChain with a tracer and re-executed transaction by transaction. " +
			"leg maxmoney: StateProcessor.Process / Engine.Finalize on synthetic blocks numbered around 42,000,000 with 0-2 uncles. " +
			"A block is non-trivial when a value-bearing inner frame failed or was rolled back, or a SELFDESTRUCT executed in it; distinct = block hash.",
		Legs: func(tier string) []fw.Leg {
			// generous watchdogs (their firing is inconclusive, never a verdict): the
			// machine is shared
			to := 45 * time.Minute
			if tier == "thorough" {
				to = 240 * time.Minute
			}
			return []fw.Leg{
				{Name: "tree", Variant: "plain", Batches: 16, Timeout: to},
				{Name: "maxmoney", Variant: "plain", Batches: 4, Timeout: to},
			}
		},
		Run: run,
		Gate: func(tier string) map[string]int {
			g := map[string]int{
				"blocks_checked": 1500, "txs_checked": 4000, "blocks_exact": 500, "blocks_upper_bound_only": 100,
				"hf4_block": 8, "hf4_block_with_funded_listed_account": 8, "block_with_1_uncle": 20, "block_with_2_uncles": 10,
				"sd_effective": 100, "sd_reverted": 20, "sd_to_self": 20, "sd_repeat_same_tx": 20, "sd_third_or_later_after_refund_same_tx": 20, "value_into_selfdestructed_same_tx": 20,
				"inner_value_frame_failed": 20, "value_transfer_rolled_back": 20, "value_above_balance": 20,
				"create_with_value_failed": 20, "create_on_funded_address": 20, "reverted_touch_of_empty_account": 20,
				"callcode_with_value": 20, "delegatecall_frame": 20, "staticcall_frame": 20, "static_write_trapped": 20,
				"value_to_precompile": 20, "side_branch_block": 50, "pre_eip158_block": 50,
				"maxmoney_cases": 100, "maxmoney_below_cutoff": 30, "maxmoney_at_or_above_cutoff": 30, "maxmoney_with_uncles": 40,
			}
			for _, n := range templateNames {
				g["tpl:"+n] = 20
			}
			return g
		},
		AnchorFiles: []string{"consensus/aquahash/consensus.go", "core/evm.go", "core/state_transition.go", "core/vm/evm.go", "core/vm/instructions.go",
			"core/state/statedb.go", "core/state/journal.go", "consensus/misc/hf.go"},
		Assumptions: []string{
			"issuance is computed from the property text only: height < 42,000,000: 10^18 to the miner + per uncle (8+uH-H)*10^18/8 to its miner + 10^18/32 to the miner; else 0",
			"total = sum of the balance field of every leaf of the account trie at a root (reference RLP decoder), cross-checked against StateDB.RawDump",
			"'a contract self-destructs' = a SELFDESTRUCT instruction ran and neither its frame nor an ancestor frame failed afterwards, decided from the result word each CALL*/CREATE leaves on the caller's stack and the error given to CaptureEnd; if the tracer's bookkeeping is inconsistent the block/transaction falls back to the upper bound only",
			"HF4 block: the listed accounts are the entries of misc.DeallocListHF4 (data, not logic); expected change = issuance - their balances at the parent",
			"blocks are valid by construction (built with core.GenerateChain); heights around 42,000,000 use StateProcessor.Process on synthetic headers because no chain that long can be built",
		},
	})
}

func run(c *fw.Ctx) {
	log.Root().SetHandler(log.DiscardHandler())
	switch c.Leg {
	case "tree":
		runTree(c)
	case "maxmoney":
		runMaxMoney(c)
	}
}

var configs = []struct {
	Name string
	Cfg  func() *params.ChainConfig
}{
	{"test", gen.ConfigTest},
	{"prebyzantium", gen.ConfigPreByzantium},
	{"versions", gen.ConfigVersions},
}

// ---------------------------------------------------------------------------
// tree leg

type treeInput struct {
	Config  string `json:"config"`
	Index   int    `json:"index"`
	MainLen int    `json:"main_len"`
}

func runTree(c *fw.Ctx) {
	n := c.Pick(3, 160)
	for i := 0; i < n; i++ {
		ci := (i + c.Batch) % len(configs)
		in := treeInput{Config: configs[ci].Name, Index: i, MainLen: 2*len(templateNames) + 8}
		id := fmt.Sprintf("tree-%d", i)
		// one case builds the tree and imports it into a real chain (recording what
		// the tracer saw per block); then every block is a case of its own
		var k *chk
		body := func() {
			r := c.Rand("tree", fmt.Sprint(i))
			k = importTree(c, doTree(c, r, configs[ci].Cfg(), in))
		}
		if !c.Case(id, in, body) {
			// replay of a single block case: the tree is still needed
			func() {
				defer func() { recover() }()
				body()
			}()
		}
		if k == nil {
			continue
		}
		for j, built := range k.b.t.Order {
			o := k.obs[built.Block.Hash()]
			if o == nil {
				continue // rejected at import (recorded there)
			}
			bin := blockInput{Config: in.Config, Tree: i, Block: j, Number: built.Block.NumberU64(), TxKinds: k.kinds(built.Block, built)}
			c.Case(fmt.Sprintf("%s/blk-%d", id, j), bin, func() { k.block(built, o) })
		}
		k.bc.Stop()
	}
}

type blockInput struct {
	Config  string   `json:"config"`
	Tree    int      `json:"tree"`
	Block   int      `json:"block_index"`
	Number  uint64   `json:"number"`
	TxKinds []string `json:"tx_kinds"`
}

type builder struct {
	c     *fw.Ctx
	r     *fw.Rand
	w     *gen.World
	x     *extras
	t     *gen.Tree
	sdb   state.Database
	names map[common.Hash]string // tx hash -> template name
	progs map[common.Hash]*Prog
	made  []common.Address
	side  map[common.Hash]bool
}

func (b *builder) coinbase() common.Address {
	r := b.r
	switch r.Intn(8) {
	case 0:
		return b.w.Addrs[r.Intn(len(b.w.Addrs))]
	case 1:
		return b.w.Dealloc[r.Intn(len(b.w.Dealloc))]
	case 2:
		return b.x.Empties[r.Intn(len(b.x.Empties))]
	case 3:
		return gen.AddrSink
	default:
		return b.w.Coinbases[r.Intn(len(b.w.Coinbases))]
	}
}

// block builds one block on parent carrying the named templates.
func (b *builder) block(parent *types.Block, tpls []string, nKinds int, uncles int) *gen.Built {
	r := b.r
	st, err := state.New(parent.Root(), b.sdb)
	if err != nil {
		panic(err)
	}
	num := new(big.Int).Add(parent.Number(), big.NewInt(1))
	env := &tplEnv{w: b.w, x: b.x, r: r, st: st, num: num, used: map[int]uint64{}, madeEmpties: b.made}
	plan := gen.BlockPlan{Coinbase: b.coinbase(), Kinds: gen.RandomKinds(r, nKinds)}
	if r.Chance(1, 4) {
		plan.TimeOffset = int64(-r.Range(1, 230))
	} else if r.Chance(1, 8) {
		plan.TimeOffset = int64(r.Range(1, 500))
	}
	signer := b.w.Signer(num)
	gas := uint64(0)
	for _, name := range tpls {
		tpl := env.build(name)
		if tpl == nil {
			continue
		}
		if tpl.Coinbase != nil {
			plan.Coinbase = *tpl.Coinbase
		}
		for _, s := range tpl.Txs {
			var tx *types.Transaction
			price := big.NewInt(int64(r.Range(1, 40)) * 1e9)
			if s.To == nil {
				tx = types.NewContractCreation(s.Nonce, s.Val, s.Gas, price, s.Data)
			} else {
				tx = types.NewTransaction(s.Nonce, *s.To, s.Val, s.Gas, price, s.Data)
			}
			signed, err := types.SignTx(tx, signer, b.w.Keys[s.Sender])
			if err != nil {
				panic(err)
			}
			gas += s.Gas
			plan.Reuse = append(plan.Reuse, &gen.TxMeta{Kind: gen.TxKind("c05:" + s.Name), Sender: s.Sender, Tx: signed})
			b.names[signed.Hash()] = s.Name
			if s.Prog != nil {
				b.progs[signed.Hash()] = s.Prog
			}
		}
	}
	b.made = env.madeEmpties
	if uncles > 0 {
		// two uncles are allowed only before HF5
		if cands := b.t.UncleCandidates(parent); len(cands) > 0 {
			plan.Uncles = cands[:1]
			if len(cands) > 1 && !b.w.Config.IsHF(5, num) && (uncles == 2 || r.Bool()) {
				plan.Uncles = cands[:2]
			}
		}
	}
	built := b.t.Add(r, parent, plan)
	want := 0
	for _, m := range plan.Reuse {
		_ = m
		want++
	}
	got := 0
	for _, m := range built.Txs {
		if len(m.Kind) > 4 && m.Kind[:4] == "c05:" {
			got++
		}
	}
	if got != want {
		b.c.CountN("template_tx_dropped", want-got)
	}
	return built
}

func doTree(c *fw.Ctx, r *fw.Rand, cfg *params.ChainConfig, in treeInput) *builder {
	w := gen.NewWorld(r, cfg, 6)
	x := extendWorld(r, w)
	t := gen.NewTree(w)
	b := &builder{c: c, r: r, w: w, x: x, t: t, sdb: state.NewDatabase(t.GenDB), names: map[common.Hash]string{}, progs: map[common.Hash]*Prog{}, side: map[common.Hash]bool{}}

	// every template is forced at least once on the main chain, in PRNG order;
	// the touch templates come early while the genesis empties are still there
	order := r.Perm(len(templateNames))
	var sched [][]string
	for _, i := range order {
		sched = append(sched, []string{templateNames[i]})
	}
	for len(sched) < in.MainLen {
		k := r.Range(1, 2)
		var s []string
		for j := 0; j < k; j++ {
			s = append(s, templateNames[r.Intn(len(templateNames))])
		}
		sched = append(sched, s)
	}
	// mix the forced ones over the chain
	p := r.Perm(len(sched))
	mixed := make([][]string, len(sched))
	for i, j := range p {
		mixed[i] = sched[j]
	}
	sched = mixed

	parent := t.Genesis
	var main []*gen.Built
	for h := 0; h < in.MainLen; h++ {
		if h > 0 && r.Chance(1, 3) {
			// sibling of the parent: a future uncle, with a hostile coinbase
			gp := t.Parent(parent)
			sb := t.Add(r, gp, gen.BlockPlan{Coinbase: b.coinbase(), Extra: []byte{0x55, byte(h)}})
			b.side[sb.Block.Hash()] = true
		}
		nu := 0
		if r.Chance(2, 3) {
			nu = 1
		}
		if h == 1 && !cfg.IsHF(5, big.NewInt(2)) {
			// forced: two siblings of block 1 become the two uncles of block 2
			for j := 0; j < 2; j++ {
				sb := t.Add(r, t.Genesis, gen.BlockPlan{Coinbase: b.coinbase(), Extra: []byte{0x66, byte(j)}})
				b.side[sb.Block.Hash()] = true
			}
			nu = 2
		}
		bl := b.block(parent, sched[h], r.Intn(3), nu)
		main = append(main, bl)
		parent = bl.Block
		// side branch of 1-3 blocks carrying templates of its own
		if h > 2 && r.Chance(1, 8) {
			from := main[h-r.Range(1, 3)].Block
			sp := t.Parent(from)
			for k := r.Range(1, 3); k > 0; k-- {
				sb := b.block(sp, []string{templateNames[r.Intn(len(templateNames))]}, r.Intn(2), r.Intn(2))
				b.side[sb.Block.Hash()] = true
				sp = sb.Block
			}
		}
	}
	return b
}

// chk is the per-tree checking state.
type chk struct {
	c    *fw.Ctx
	b    *builder
	bc   *core.BlockChain
	tr   *tracer
	sums map[common.Hash]*rootInfo
	obs  map[common.Hash]*obs // what the tracer saw while each block was imported
}

type rootInfo struct {
	sum  *big.Int
	accs map[common.Address]*acct
}

func (k *chk) root(root common.Hash) (*rootInfo, error) {
	if ri, ok := k.sums[root]; ok {
		return ri, nil
	}
	st, err := k.bc.StateAt(root)
	if err != nil {
		return nil, err
	}
	accs, dsum, err := dumpAccounts(st)
	if err != nil {
		return nil, err
	}
	wsum, n, err := supplyWalk(st.Database().TrieDB(), root)
	if err != nil {
		return nil, err
	}
	if wsum.Cmp(dsum) != 0 || n != len(accs) {
		return nil, fmt.Errorf("RawDump (%d accounts, sum %v) and trie walk (%d leaves, sum %v) disagree at root %x", len(accs), dsum, n, wsum, root)
	}
	ri := &rootInfo{sum: wsum, accs: accs}
	k.sums[root] = ri
	return ri, nil
}

func listedSum(accs map[common.Address]*acct) (*big.Int, int) {
	s, n := new(big.Int), 0
	seen := map[common.Address]bool{}
	for _, h := range misc.DeallocListHF4 {
		a := common.HexToAddress(h)
		if seen[a] {
			continue
		}
		seen[a] = true
		if x := accs[a]; x != nil && x.Bal.Sign() > 0 {
			s.Add(s, x.Bal)
			n++
		}
	}
	return s, n
}

func isHF4Block(cfg *params.ChainConfig, num *big.Int) bool {
	h := cfg.GetHF(4)
	return h != nil && h.Sign() > 0 && h.Cmp(num) == 0
}

// sumOfLive commits a copy of a live StateDB and walks the committed trie.
func sumOfLive(st *state.StateDB, deleteEmpty bool) (*big.Int, common.Hash, error) {
	cp := st.Copy()
	root, err := cp.Commit(deleteEmpty)
	if err != nil {
		return nil, common.Hash{}, err
	}
	s, _, err := supplyWalk(cp.Database().TrieDB(), root)
	return s, root, err
}

// importTree feeds every block of the tree, parents first, one at a time, to a
// real BlockChain (archive mode, fake seal check only) whose EVM runs with the
// tracer installed.
func importTree(c *fw.Ctx, b *builder) *chk {
	w := b.w
	db, _ := w.NewDB()
	tr := newTracer()
	bc, err := core.NewBlockChain(context.Background(), db, &core.CacheConfig{Disabled: true}, w.Config, aquahash.NewFaker(), vm.Config{Debug: true, Tracer: tr})
	if err != nil {
		panic(err)
	}
	k := &chk{c: c, b: b, bc: bc, tr: tr, sums: map[common.Hash]*rootInfo{}, obs: map[common.Hash]*obs{}}
	for _, built := range b.t.Order {
		blk := built.Block
		tr.begin()
		if _, err := bc.InsertChain(types.Blocks{blk}); err != nil {
			c.Count("import_rejected")
			c.Inconclusive("import_rejected")
			c.Note("block %d rejected by InsertChain: %v", blk.NumberU64(), err)
			continue
		}
		k.obs[blk.Hash()] = tr.o
	}
	return k
}

type blockWitness struct {
	Config        string   `json:"config"`
	Number        uint64   `json:"number"`
	Hash          string   `json:"hash"`
	Coinbase      string   `json:"coinbase"`
	Uncles        []uint64 `json:"uncle_heights,omitempty"`
	TxKinds       []string `json:"tx_kinds"`
	Programs      []*Prog  `json:"programs,omitempty"`
	Delta         string   `json:"delta"`
	Issuance      string   `json:"issuance"`
	Expected      string   `json:"expected"`
	SelfDestructs int      `json:"selfdestructs_effective"`
}

func (k *chk) kinds(blk *types.Block, built *gen.Built) []string {
	var out []string
	for i, tx := range blk.Transactions() {
		if n, ok := k.b.names[tx.Hash()]; ok {
			out = append(out, n)
		} else if built != nil && i < len(built.Txs) {
			out = append(out, string(built.Txs[i].Kind))
		} else {
			out = append(out, "?")
		}
	}
	return out
}

func cfgName(cfg *params.ChainConfig) string {
	for _, x := range configs {
		if x.Cfg().ChainId.Cmp(cfg.ChainId) == 0 {
			return x.Name
		}
	}
	return "?"
}

func (k *chk) block(built *gen.Built, o *obs) {
	c, w := k.c, k.b.w
	blk := built.Block
	parent := k.b.t.Parent(blk)
	num := blk.Number()
	pi, err := k.root(parent.Root())
	if err != nil {
		c.Inconclusive("state_unreadable")
		c.Note("parent state: %v", err)
		return
	}
	bi, err := k.root(blk.Root())
	if err != nil {
		c.Inconclusive("state_unreadable")
		c.Note("block state: %v", err)
		return
	}
	var uh []*big.Int
	var um []common.Address
	var uhs []uint64
	for _, u := range blk.Uncles() {
		uh = append(uh, u.Number)
		um = append(um, u.Coinbase)
		uhs = append(uhs, u.Number.Uint64())
	}
	iss, per := issuance(num, blk.Coinbase(), uh, um)
	expected := new(big.Int).Set(iss)
	hf4 := isHF4Block(w.Config, num)
	if hf4 {
		ls, n := listedSum(pi.accs)
		expected.Sub(expected, ls)
		c.Count("hf4_block")
		if n > 0 {
			c.Count("hf4_block_with_funded_listed_account")
		}
	}
	delta := new(big.Int).Sub(bi.sum, pi.sum)
	kinds := k.kinds(blk, built)
	sd := len(o.SdEffective) > 0
	if o.Disagree > 0 {
		c.Count("tracer_model_inconsistent")
		c.Inconclusive("tracer_model_inconsistent")
		sd = true
	}

	// observation classes
	c.Count("blocks_checked")
	c.CountN("txs_checked", len(blk.Transactions()))
	switch len(uh) {
	case 1:
		c.Count("block_with_1_uncle")
	case 2:
		c.Count("block_with_2_uncles")
	}
	if k.b.side[blk.Hash()] {
		c.Count("side_branch_block")
	}
	if !w.Config.IsEIP158(num) {
		c.Count("pre_eip158_block")
	}
	if !w.Config.IsByzantium(num) {
		c.Count("pre_byzantium_block")
	}
	if sd {
		c.Count("blocks_upper_bound_only")
	} else {
		c.Count("blocks_exact")
	}
	for _, n := range kinds {
		if _, ok := templateIndex[n]; ok {
			c.Count("tpl:" + n)
		}
	}
	countObs(c, o)
	if o.SdExecuted > 0 || o.InnerValueFail > 0 || o.ValueRolledBack > 0 || o.CreateValueFail > 0 {
		c.NontrivialBytes(blk.Hash().Bytes())
	}

	wit := func() *blockWitness {
		bw := &blockWitness{Config: cfgName(w.Config), Number: blk.NumberU64(), Hash: blk.Hash().Hex(), Coinbase: blk.Coinbase().Hex(), Uncles: uhs,
			TxKinds: kinds, Delta: delta.String(), Issuance: iss.String(), Expected: expected.String(), SelfDestructs: len(o.SdEffective)}
		for _, tx := range blk.Transactions() {
			if p := k.b.progs[tx.Hash()]; p != nil {
				bw.Programs = append(bw.Programs, p)
			}
		}
		return bw
	}

	// step by step first: it localises which transaction (or the reward step) is off
	bad := k.stepwise(built, pi, iss, per, kinds)

	// the property, end to end over the real import path
	fees := blockFees(blk, built.Receipts)
	switch {
	case delta.Cmp(iss) > 0:
		c.ViolateInput("total_rose_above_issuance", "InsertChain", causeBlock(bad), fmt.Sprintf("block %d (%s): sum of balances changed by %v, scheduled issuance %v (%d uncles, %d effective self-destructs); tx kinds %v",
			blk.NumberU64(), cfgName(w.Config), delta, iss, len(uh), len(o.SdEffective), kinds), wit())
	case !sd && delta.Cmp(expected) < 0:
		cause := causeBlock(bad)
		deficit := new(big.Int).Sub(expected, delta)
		if explainLostCredits(pi.accs, bi.accs, o, blk.Coinbase(), fees, per, deficit) {
			cause = causeF5
		}
		c.ViolateInput("coins_destroyed_without_selfdestruct", "InsertChain", cause, fmt.Sprintf("block %d (%s): sum of balances changed by %v, expected exactly %v (issuance %v, hf4 block %v), no self-destruct took effect; %v wei vanished; tx kinds %v",
			blk.NumberU64(), cfgName(w.Config), delta, expected, iss, hf4, deficit, kinds), wit())
	case !sd && delta.Cmp(expected) > 0:
		// only possible in the HF4 block: the zeroing was incomplete; not a creation of coins
		c.Count("hf4_zeroing_incomplete")
	}
	if c.WantSample() && sd && len(kinds) > 0 {
		c.Sample(wit())
	}
}

var templateIndex = func() map[string]int {
	m := map[string]int{}
	for i, n := range templateNames {
		m[n] = i
	}
	return m
}()

func countObs(c *fw.Ctx, o *obs) {
	c.CountN("sd_effective", len(o.SdEffective))
	c.CountN("sd_executed", o.SdExecuted)
	c.CountN("sd_reverted", o.SdReverted)
	c.CountN("sd_to_self", o.SdToSelf)
	c.CountN("sd_repeat_same_tx", o.SdRepeat)
	c.CountN("sd_third_or_later_after_refund_same_tx", o.SdThirdRefunded)
	c.CountN("value_into_selfdestructed_same_tx", o.ValueIntoSuicide)
	c.CountN("inner_value_frame_failed", o.InnerValueFail)
	c.CountN("value_transfer_rolled_back", o.ValueRolledBack)
	c.CountN("value_above_balance", o.Insufficient)
	c.CountN("create_with_value_failed", o.CreateValueFail)
	c.CountN("create_on_funded_address", o.CreateFunded)
	c.CountN("callcode_with_value", o.CallCodeValue)
	c.CountN("delegatecall_frame", o.DelegateFrames)
	c.CountN("staticcall_frame", o.StaticFrames)
	c.CountN("static_write_trapped", o.StaticWriteTrap)
	c.CountN("value_to_precompile", o.PrecompileValue)
	c.CountN("evm_frames", o.Frames)
	c.CountN("top_level_failed", o.TopFailed)
}

func blockFees(blk *types.Block, receipts types.Receipts) *big.Int {
	f := new(big.Int)
	for i, tx := range blk.Transactions() {
		if i < len(receipts) {
			f.Add(f, new(big.Int).Mul(new(big.Int).SetUint64(receipts[i].GasUsed), tx.GasPrice()))
		}
	}
	return f
}

const causeF5 = "credit_to_empty_account_lost_after_reverted_touch"

// explainLostCredits decides whether a deficit is exactly the credits that went
// to accounts which (a) existed empty in the parent state and (b) were touched by
// a zero-value CALL inside a frame that was rolled back. Such an account has no
// key and no code, so its balance after the block must be the sum of what it was
// sent; what is missing there is what the journal bug loses.
func explainLostCredits(accP, accB map[common.Address]*acct, o *obs, coinbase common.Address, fees *big.Int, per map[common.Address]*big.Int, deficit *big.Int) bool {
	if deficit.Sign() <= 0 {
		return false
	}
	total := new(big.Int)
	for e := range o.RevertedTouch {
		a := accP[e]
		if a == nil || !a.empty() {
			continue
		}
		exp := new(big.Int)
		for _, cr := range o.Credits {
			if cr.To == e {
				exp.Add(exp, cr.Val)
			}
		}
		for _, cr := range o.TopCredits {
			if cr.To == e {
				exp.Add(exp, cr.Val)
			}
		}
		for _, s := range o.SdEffective {
			if s.Ben == e && s.Addr != e {
				exp.Add(exp, s.Bal)
			}
		}
		if v := per[e]; v != nil {
			exp.Add(exp, v)
		}
		if e == coinbase && fees != nil {
			exp.Add(exp, fees)
		}
		act := new(big.Int)
		if x := accB[e]; x != nil {
			act = x.Bal
		}
		if exp.Cmp(act) > 0 {
			total.Add(total, new(big.Int).Sub(exp, act))
		}
	}
	return total.Cmp(deficit) == 0
}

// causeBlock gives a stable class for a block-level violation that has no
// specific diagnosis: the kinds of the steps the step-by-step re-execution found
// off (transaction templates, "rewards"), or "unlocalised".
func causeBlock(bad []string) string {
	if len(bad) == 0 {
		return "unlocalised"
	}
	set := map[string]bool{}
	for _, n := range bad {
		set[n] = true
	}
	var ks []string
	for n := range set {
		ks = append(ks, n)
	}
	sort.Strings(ks)
	if len(ks) > 2 {
		return "several_steps"
	}
	return strings.Join(ks, "+")
}

// stepwise re-executes the block as Process does, one step at a time, summing
// after the HF4 step, after every transaction and after Finalize.
func (k *chk) stepwise(built *gen.Built, pi *rootInfo, iss *big.Int, per map[common.Address]*big.Int, kinds []string) (bad []string) {
	c, w := k.c, k.b.w
	blk := built.Block
	num := blk.Number()
	delEmpty := w.Config.IsEIP158(num)
	parent := k.b.t.Parent(blk)
	st, err := k.bc.StateAt(parent.Root())
	if err != nil {
		c.Inconclusive("state_unreadable")
		return
	}
	tr := newTracer()
	vmcfg := vm.Config{Debug: true, Tracer: tr}
	header := blk.Header()
	gp := new(core.GasPool).AddGas(blk.GasLimit())
	usedGas := new(uint64)
	prev, prevRoot := pi.sum, parent.Root()
	if isHF4Block(w.Config, num) {
		misc.ApplyHardFork4(st)
		s, root, err := sumOfLive(st, delEmpty)
		if err != nil {
			c.Inconclusive("state_unreadable")
			return
		}
		if s.Cmp(prev) > 0 {
			c.Violate("hf4_step_increased_total", "ApplyHardFork4", "", fmt.Sprintf("block %d: the de-allocation step changed the total from %v to %v", blk.NumberU64(), prev, s))
		}
		c.Count("hf4_step_checked")
		prev, prevRoot = s, root
	}
	if h := w.Config.GetHF(5); h != nil && h.Cmp(num) == 0 {
		misc.ApplyHardFork5(st)
	}
	var receipts types.Receipts
	touched := map[common.Address]bool{}
	for i, tx := range blk.Transactions() {
		st.Prepare(tx.Hash(), blk.Hash(), i)
		tr.begin()
		rc, _, err := core.ApplyTransaction(w.Config, k.bc, nil, gp, st, header, tx, usedGas, vmcfg)
		if err != nil {
			c.Inconclusive("stepwise_tx_rejected")
			c.Note("block %d tx %d rejected in stepwise re-execution: %v", blk.NumberU64(), i, err)
			return
		}
		receipts = append(receipts, rc)
		o := tr.o
		for a := range o.RevertedTouch {
			touched[a] = true
			if x := pi.accs[a]; x != nil && x.empty() {
				c.Count("reverted_touch_of_empty_account")
			}
		}
		s, root, err := sumOfLive(st, delEmpty)
		if err != nil {
			c.Inconclusive("state_unreadable")
			return
		}
		d := new(big.Int).Sub(s, prev)
		sd := len(o.SdEffective) > 0 || o.Disagree > 0
		c.Count("tx_steps_checked")
		if sd {
			c.Count("tx_steps_upper_bound_only")
		}
		kind := kinds[i]
		in := map[string]interface{}{"config": cfgName(w.Config), "block": blk.NumberU64(), "tx_index": i, "kind": kind, "tx_rlp": hx(mustRLP(tx)),
			"program": k.b.progs[tx.Hash()], "delta": d.String(), "block_kinds": kinds, "coinbase": blk.Coinbase().Hex()}
		switch {
		case d.Sign() > 0:
			bad = append(bad, kind)
			c.ViolateInput("tx_increased_total", "ApplyTransaction", kind, fmt.Sprintf("block %d (%s) tx %d (%s): sum of balances rose by %v while executing the transaction (status %d, %d effective self-destructs)",
				blk.NumberU64(), cfgName(w.Config), i, kind, d, rc.Status, len(o.SdEffective)), in)
		case d.Sign() < 0 && !sd:
			cause := kind
			o2 := *o
			o2.RevertedTouch = touched
			fee := new(big.Int).Mul(new(big.Int).SetUint64(rc.GasUsed), tx.GasPrice())
			if k.explainStep(prevRoot, root, &o2, pi, blk.Coinbase(), fee, nil, new(big.Int).Neg(d)) {
				cause = causeF5
			} else {
				bad = append(bad, kind)
			}
			c.ViolateInput("tx_destroyed_coins_without_selfdestruct", "ApplyTransaction", cause, fmt.Sprintf("block %d (%s) tx %d (%s): sum of balances fell by %v while executing the transaction, no self-destruct took effect (status %d)",
				blk.NumberU64(), cfgName(w.Config), i, kind, new(big.Int).Neg(d), rc.Status), in)
		}
		prev, prevRoot = s, root
	}
	// rewards
	if _, err := k.bc.Engine().Finalize(k.bc, header, st, blk.Transactions(), blk.Uncles(), receipts); err != nil {
		c.Inconclusive("finalize_failed")
		return
	}
	s, root, err := sumOfLive(st, delEmpty)
	if err != nil {
		c.Inconclusive("state_unreadable")
		return
	}
	d := new(big.Int).Sub(s, prev)
	c.Count("finalize_steps_checked")
	if d.Cmp(iss) != 0 {
		clause, cause := "rewards_above_issuance", "rewards"
		if len(blk.Uncles()) > 0 {
			cause = "rewards_with_uncles"
		}
		if d.Cmp(iss) < 0 {
			clause = "rewards_below_issuance"
			o2 := newObs()
			o2.RevertedTouch = touched
			if k.explainStep(prevRoot, root, o2, pi, blk.Coinbase(), nil, per, new(big.Int).Sub(iss, d)) {
				cause = causeF5
			}
		}
		if cause != causeF5 {
			bad = append(bad, cause)
		}
		c.ViolateInput(clause, "Finalize", cause, fmt.Sprintf("block %d (%s): the reward step changed the sum of balances by %v, scheduled issuance %v (%d uncles)",
			blk.NumberU64(), cfgName(w.Config), d, iss, len(blk.Uncles())),
			map[string]interface{}{"config": cfgName(w.Config), "block": blk.NumberU64(), "coinbase": blk.Coinbase().Hex(), "uncles": len(blk.Uncles()), "block_kinds": kinds})
	}
	if root != blk.Root() {
		c.Count("stepwise_root_differs_from_block_root")
		c.Inconclusive("stepwise_root_mismatch")
	}
	return bad
}

// explainStep: like explainLostCredits for one step between two committed roots.
func (k *chk) explainStep(before, after common.Hash, o *obs, pi *rootInfo, coinbase common.Address, fee *big.Int, per map[common.Address]*big.Int, deficit *big.Int) bool {
	sb, err := k.bc.StateAt(before)
	if err != nil {
		return false
	}
	sa, err := k.bc.StateAt(after)
	if err != nil {
		return false
	}
	total := new(big.Int)
	for e := range o.RevertedTouch {
		a := pi.accs[e]
		if a == nil || !a.empty() {
			continue
		}
		exp := new(big.Int)
		for _, cr := range o.Credits {
			if cr.To == e {
				exp.Add(exp, cr.Val)
			}
		}
		for _, cr := range o.TopCredits {
			if cr.To == e {
				exp.Add(exp, cr.Val)
			}
		}
		for _, s := range o.SdEffective {
			if s.Ben == e && s.Addr != e {
				exp.Add(exp, s.Bal)
			}
		}
		if per != nil && per[e] != nil {
			exp.Add(exp, per[e])
		}
		if e == coinbase && fee != nil {
			exp.Add(exp, fee)
		}
		act := new(big.Int).Sub(sa.GetBalance(e), sb.GetBalance(e))
		if exp.Cmp(act) > 0 {
			total.Add(total, new(big.Int).Sub(exp, act))
		}
	}
	return deficit.Sign() > 0 && total.Cmp(deficit) == 0
}
