// Package c15: the pool's pending transactions are always executable, in order
// and bounded.
//
// Monitor: a real core.TxPool follows a real core.BlockChain (fake PoW) whose
// blocks are built with the node's own block builder. Generated hostile
// histories of local/remote submissions, price-threshold changes, head advances
// and reorganisations run against it; after every operation (sequential leg),
// on every sampled instant and at every quiescent point (concurrent leg, under
// the race detector) an H3 snapshot taken under the pool's own lock is checked
// against the property: per sender a gap-free pending run from the chain nonce
// the pool works against, every pending transaction affordable, one transaction
// per (sender, nonce), limits for non-local senders. Replacements are judged at
// the client boundary against the price-bump rule, reorganisations against the
// ledger of the generated block tree, and concurrent per-slot histories against
// a register model with porcupine.
package c15

import (
	"time"

	"gitlab.com/aquachain/aquachain/common/log"
	"verif/internal/fw"
)

func init() {
	fw.Register(&fw.Prop{
		ID:    "C15",
		Title: "The pool's pending transactions are always executable, in order and bounded",
		Level: "exploration",
		Rule: "seq: PRNG histories of 110-190 operations (single/batch local/remote submissions from 17 hostile templates relative to the pool's current content, SetGasPrice, " +
			"blocks mined from Pending() plus unseen nonce-consuming/draining/funding transactions, reorganisations of depth 1-3 inserted at once or block by block) with one forced scenario each " +
			"(bump ladder, balance drain, gas-limit fall, full and partial re-injection, pending/queue spam, threshold demotion, full pool, lower-but-heavier reorganisation) over PRNG pool configurations; " +
			"non-trivial = >=10 accepted submissions, >=1 accepted replacement and >=1 head change that invalidated pending transactions; distinct = hash of all submitted transactions. " +
			"conc: phases of 8-32 goroutines submitting/reading while one head change is imported and a sampler takes snapshots; non-trivial = distinct completion order. " +
			"lin: concurrent add/get/status histories per (sender, nonce) slot checked for linearizability against a register model.",
		Legs: func(tier string) []fw.Leg {
			// generous watchdogs (a loaded machine can be 20-30x slower); firing is inconclusive
			to := 4 * time.Hour
			if tier == "thorough" {
				to = 24 * time.Hour
			}
			return []fw.Leg{
				{Name: "seq", Variant: "plain", Batches: 16, Timeout: to},
				{Name: "conc", Variant: "race", Batches: 16, Timeout: to},
				{Name: "lin", Variant: "race", Batches: 8, Timeout: to},
			}
		},
		Run:         run,
		Gate:        gate,
		AnchorFiles: []string{"core/tx_pool.go", "core/tx_list.go", "core/tx_journal.go", "core/state/managed_state.go", "core/tx_pool_verif.go"},
		Assumptions: []string{
			"the yardstick for 'chain nonce' and 'balance' is the state the pool itself currently works against (reported by the H3 snapshot under pool.mu); the pool follows the chain asynchronously and 'the pool has processed head X' is decided exactly: InsertChain delivers its ChainHeadEvent into the pool's channel before returning, the harness then pushes channel-capacity+1 empty sentinel events through the same channel (the loop takes it in order and ignores events without a block), and ONE snapshot taken after the last sentinel was accepted must show X's state (unique coinbase per generated block); otherwise head_not_followed",
			"'still valid' for a dropped transaction = nonce >= chain nonce, cost <= balance, gas <= gas limit at the new head, and price >= the pool's threshold unless the sender is local; the demand is waived when the pool's limits could have evicted it (counted as reorg_check_skipped_*)",
			"the wall-clock eviction of idle queues is switched off through the public Lifetime setting (maximum duration); reorganisations deeper than 64 blocks are not generated",
			"limits for non-local senders are read as: queue per account <= AccountQueue, queued total <= GlobalQueue, pending total > GlobalSlots implies no account above AccountSlots, total <= GlobalSlots+GlobalQueue",
			"the virtual nonce (State().GetNonce) and the price-heap size are recorded as observations only: the property text does not constrain them",
		},
	})
}

func gate(tier string) map[string]int {
	return map[string]int{
		"snapshots_checked": 5000, "public_views_checked": 100,
		"replacement_accepted": 50, "replacement_accepted_at_exact_bump": 10, "replacement_refused": 50, "replacement_refused_one_below_bump": 10,
		"head_advance": 100, "head_reorg": 30, "head_consumed_pending_nonce": 30, "head_made_pending_unaffordable": 5, "head_lowered_gas_limit_below_pending": 3,
		"head_rolled_nonce_back": 20, "reorg_to_equal_height": 10, "reorg_to_lower_height": 3, "reorg_tx_pooled_again": 20, "reorg_partial_reinject_with_pending_tail": 4,
		"pending_truncated_at_global_slots": 3, "queue_capped_at_account_queue": 3, "queue_truncated_at_global_queue": 1,
		"setgasprice_demoted_pending_run": 3, "pool_full_eviction": 3,
		"add_result_ok": 1000, "add_result_nonce_too_low": 5, "add_result_insufficient_funds": 20, "add_result_gas_limit": 5, "add_result_underpriced": 10,
		"add_result_known": 10, "add_result_intrinsic_gas": 5,
		"concurrent_phases": 200, "concurrent_operations": 50000, "concurrent_snapshots_checked": 2000, "concurrent_head_advance": 50, "concurrent_head_reorg": 20,
		"conc_add_ok": 5000, "conc_set_gas_price": 100, "conc_read_pending": 500, "conc_read_state_nonce": 500,
		"lin_slot_histories_checked": 500, "lin_slot_operations": 10000, "lin_slots_with_replacement": 200, "lin_runs_with_concurrent_head_events": 10,
	}
}

func run(c *fw.Ctx) {
	log.Root().SetHandler(log.DiscardHandler())
	switch c.Leg {
	case "seq":
		runSeq(c)
	case "conc":
		runConc(c)
	case "lin":
		runLin(c)
	}
}
