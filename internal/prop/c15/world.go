package c15

import (
	"encoding/hex"
	"fmt"
	"math"
	"math/big"
	"sort"
	"sync"
	"time"

	"gitlab.com/aquachain/aquachain/aqua/event"
	"gitlab.com/aquachain/aquachain/common"
	"gitlab.com/aquachain/aquachain/core"
	"gitlab.com/aquachain/aquachain/core/state"
	"gitlab.com/aquachain/aquachain/core/types"
	"gitlab.com/aquachain/aquachain/crypto"
	"gitlab.com/aquachain/aquachain/params"
	"verif/internal/fw"
	"verif/internal/gen"
)

// snap is the H3 view of the pool (taken under the pool's own lock).
type snap = core.VerifPoolSnapshot

// poolCfg is the JSON-loggable pool configuration of a case.
type poolCfg struct {
	AccountSlots uint64 `json:"account_slots"`
	GlobalSlots  uint64 `json:"global_slots"`
	AccountQueue uint64 `json:"account_queue"`
	GlobalQueue  uint64 `json:"global_queue"`
	PriceBump    uint64 `json:"price_bump"`
	PriceLimit   uint64 `json:"price_limit"`
	NoLocals     bool   `json:"no_locals"`
	Journal      bool   `json:"journal"`
	Chain        string `json:"chain"` // "test" | "versions"
	Rich         int    `json:"rich"`
	Poor         int    `json:"poor"`
}

// genCfg draws a pool configuration. tight = the small limits of the design
// (slots 1-16/4-64, queues 1-8/4-32); roomy = limits that never bind.
func genCfg(r *fw.Rand, tight bool) poolCfg {
	cfg := poolCfg{
		PriceBump:  uint64([]int{1, 2, 5, 10, 10, 25, 33, 50}[r.Intn(8)]),
		PriceLimit: uint64(r.Range(1, 10)),
		NoLocals:   r.Chance(1, 4),
		Journal:    r.Chance(1, 10),
		Chain:      []string{"test", "versions"}[r.Intn(2)],
		Rich:       r.Range(2, 3),
		Poor:       r.Range(2, 4),
	}
	if tight {
		cfg.AccountSlots = uint64(r.Range(1, 16))
		cfg.GlobalSlots = uint64(r.Range(4, 64))
		cfg.AccountQueue = uint64(r.Range(1, 8))
		cfg.GlobalQueue = uint64(r.Range(4, 32))
	} else {
		cfg.AccountSlots = 16
		cfg.GlobalSlots = 4096
		cfg.AccountQueue = 64
		cfg.GlobalQueue = 1024
	}
	return cfg
}

// universe is one world + block tree + real chain + real pool.
type universe struct {
	c      *fw.Ctx
	r      *fw.Rand
	cfg    poolCfg
	w      *gen.World
	tree   *gen.Tree
	chain  *core.BlockChain
	tap    *chainTap
	pool   *core.TxPool
	signer types.Signer
	badSig types.Signer

	senders []common.Address // accounts that submit to the pool (rich first, then poor)
	keyIdx  map[common.Address]int
	nRich   int

	mu       sync.Mutex
	txSender map[common.Hash]common.Address // every transaction the harness ever made
	made     []*types.Transaction           // submissions so far (for duplicates)

	cbSeq  int
	cbOf   map[common.Hash]common.Address // block -> its unique coinbase
	head   *types.Block                   // head the pool is known to have processed
	states map[common.Hash]*state.StateDB

	recent  []string        // last operations, for violation details
	prevBad map[string]bool // state-clause violations present in the previously checked snapshot
	opName  string
}

var maxDuration = time.Duration(math.MaxInt64)

func newUniverse(c *fw.Ctx, r *fw.Rand, cfg poolCfg) *universe {
	chainCfg := gen.ConfigTest()
	if cfg.Chain == "versions" {
		chainCfg = gen.ConfigVersions()
	}
	w := gen.NewWorld(r, chainCfg, cfg.Rich)
	u := &universe{c: c, r: r, cfg: cfg, w: w, keyIdx: map[common.Address]int{}, txSender: map[common.Hash]common.Address{},
		cbOf: map[common.Hash]common.Address{}, states: map[common.Hash]*state.StateDB{}, nRich: cfg.Rich}
	// poor accounts: small genesis balances so that affordability matters
	for i := 0; i < cfg.Poor; i++ {
		kb := r.Bytes(32)
		kb[0] &= 0x7f
		kb[31] |= 1
		k, err := crypto.HexToBtcec(hex.EncodeToString(kb))
		if err != nil {
			panic(err)
		}
		a := crypto.PubkeyToAddress(k.PubKey())
		w.Keys = append(w.Keys, k)
		w.Addrs = append(w.Addrs, a)
		w.Spec.Alloc[a] = core.GenesisAccount{Balance: big.NewInt(int64(r.Range(2_000_000, 60_000_000)))}
	}
	for i, a := range w.Addrs {
		u.keyIdx[a] = i
		u.senders = append(u.senders, a)
	}
	u.signer = types.NewEIP155Signer(chainCfg.ChainId)
	u.badSig = types.NewEIP155Signer(new(big.Int).Add(chainCfg.ChainId, big.NewInt(1)))
	u.tree = gen.NewTree(w)
	db, _ := w.NewDB()
	chain, err := w.NewChain(db, &core.CacheConfig{Disabled: true})
	if err != nil {
		panic(err)
	}
	u.chain = chain
	u.head = u.tree.Genesis
	pc := core.TxPoolConfig{
		NoLocals: cfg.NoLocals, Rejournal: time.Hour,
		PriceLimit: cfg.PriceLimit, PriceBump: cfg.PriceBump,
		AccountSlots: cfg.AccountSlots, GlobalSlots: cfg.GlobalSlots, AccountQueue: cfg.AccountQueue, GlobalQueue: cfg.GlobalQueue,
		// time.Since saturates at the maximum duration, so nothing is ever "older"
		// than this: the wall-clock eviction ticker never removes anything
		Lifetime: maxDuration,
	}
	if cfg.Journal {
		pc.Journal = fmt.Sprintf("%s/journal-%d.rlp", c.Dir, time.Now().UnixNano())
	}
	u.tap = &chainTap{BlockChain: chain}
	u.pool = core.NewTxPool(pc, chainCfg, u.tap)
	return u
}

func (u *universe) close() {
	u.pool.Stop()
	u.chain.Stop()
}

func (u *universe) isRich(a common.Address) bool { return u.keyIdx[a] < u.nRich }

// stateAt returns the ledger state of a tree block (generator's archive db).
func (u *universe) stateAt(b *types.Block) *state.StateDB {
	u.mu.Lock()
	defer u.mu.Unlock()
	if s, ok := u.states[b.Hash()]; ok {
		return s
	}
	s, err := state.New(b.Root(), state.NewDatabase(u.tree.GenDB))
	if err != nil {
		panic(fmt.Sprintf("generator state of block %d missing: %v", b.NumberU64(), err))
	}
	u.states[b.Hash()] = s
	return s
}

type acct struct {
	nonce uint64
	bal   *big.Int
}

// ledger returns nonce/balance of every sender at block b.
func (u *universe) ledger(b *types.Block) map[common.Address]acct {
	s := u.stateAt(b)
	u.mu.Lock()
	defer u.mu.Unlock()
	out := map[common.Address]acct{}
	for _, a := range u.senders {
		out[a] = acct{s.GetNonce(a), new(big.Int).Set(s.GetBalance(a))}
	}
	return out
}

func (u *universe) note(format string, args ...interface{}) {
	s := fmt.Sprintf(format, args...)
	u.mu.Lock()
	u.recent = append(u.recent, s)
	if len(u.recent) > 14 {
		u.recent = u.recent[len(u.recent)-14:]
	}
	u.mu.Unlock()
	u.c.Note("%s", s)
}

func (u *universe) recentOps() string {
	u.mu.Lock()
	defer u.mu.Unlock()
	out := ""
	for _, s := range u.recent {
		out += "\n    " + s
	}
	return out
}

// snapshot takes the H3 view for all senders (+ extra addresses).
func (u *universe) snapshot(extra ...common.Address) *snap {
	addrs := append(append([]common.Address{}, u.senders...), extra...)
	return u.pool.VerifSnapshot(addrs)
}

// ---------------------------------------------------------------------------
// transactions

func intrinsic(data []byte) uint64 {
	g := uint64(21000)
	for _, b := range data {
		if b == 0 {
			g += 4
		} else {
			g += 68
		}
	}
	return g
}

func cost(tx *types.Transaction) *big.Int {
	c := new(big.Int).Mul(new(big.Int).SetUint64(tx.Gas()), tx.GasPrice())
	return c.Add(c, tx.Value())
}

func (u *universe) fresh(r *fw.Rand) common.Address {
	var a common.Address
	copy(a[:], r.Bytes(20))
	a[0] = 0xee
	return a
}

func (u *universe) mkTx(from common.Address, nonce uint64, to common.Address, value *big.Int, gas uint64, price *big.Int, data []byte, bad bool) *types.Transaction {
	tx := types.NewTransaction(nonce, to, value, gas, price, data)
	s := u.signer
	if bad {
		s = u.badSig
	}
	signed, err := types.SignTx(tx, s, u.w.Keys[u.keyIdx[from]])
	if err != nil {
		panic(err)
	}
	u.mu.Lock()
	u.txSender[signed.Hash()] = from
	u.mu.Unlock()
	return signed
}

func (u *universe) senderOf(tx *types.Transaction) common.Address {
	u.mu.Lock()
	defer u.mu.Unlock()
	a, ok := u.txSender[tx.Hash()]
	if !ok {
		panic(fmt.Sprintf("harness: transaction %x was not made by the harness", tx.Hash()))
	}
	return a
}

func txStr(u *universe, tx *types.Transaction) string {
	a := u.senderOf(tx)
	return fmt.Sprintf("{s%d n%d p%v g%d v%v h%x}", u.keyIdx[a], tx.Nonce(), tx.GasPrice(), tx.Gas(), tx.Value(), tx.Hash().Bytes()[:4])
}

// bumpOK is the replacement rule of the property: the new price is strictly
// higher and at least old*(100+bump)/100 (integer division as configured).
func bumpOK(oldPrice, newPrice *big.Int, bump uint64) bool {
	if newPrice.Cmp(oldPrice) <= 0 {
		return false
	}
	thr := new(big.Int).Mul(oldPrice, new(big.Int).SetUint64(100+bump))
	thr.Div(thr, big.NewInt(100))
	return newPrice.Cmp(thr) >= 0
}

func bumpThreshold(oldPrice *big.Int, bump uint64) *big.Int {
	thr := new(big.Int).Mul(oldPrice, new(big.Int).SetUint64(100+bump))
	thr.Div(thr, big.NewInt(100))
	if thr.Cmp(oldPrice) <= 0 {
		thr = new(big.Int).Add(oldPrice, big.NewInt(1))
	}
	return thr
}

// ---------------------------------------------------------------------------
// blocks

type blockPlan struct {
	txs   []*types.Transaction // candidates in order; those that do not apply are skipped
	fast  bool
	extra []byte
}

// buildBlock builds one block on parent from the candidates that apply (nonce
// fits, cost covered by the running balance, gas fits) and returns it with the
// included transactions.
func (u *universe) buildBlock(parent *types.Block, p blockPlan) *gen.Built {
	led := u.ledger(parent)
	gasLimit := core.CalcGasLimit(parent)
	used := uint64(0)
	var metas []*gen.TxMeta
	for _, tx := range p.txs {
		from := u.senderOf(tx)
		a := led[from]
		if tx.Nonce() != a.nonce || cost(tx).Cmp(a.bal) > 0 || used+tx.Gas() > gasLimit || tx.Gas() < intrinsic(tx.Data()) {
			continue
		}
		used += tx.Gas()
		// plain transfers to accounts without code burn exactly the intrinsic gas;
		// calls into the spinner burn everything
		burn := intrinsic(tx.Data())
		if tx.To() != nil && *tx.To() == gen.AddrSpinner {
			burn = tx.Gas()
			a.bal = new(big.Int).Sub(a.bal, new(big.Int).Mul(new(big.Int).SetUint64(burn), tx.GasPrice()))
		} else {
			a.bal = new(big.Int).Sub(a.bal, new(big.Int).Mul(new(big.Int).SetUint64(burn), tx.GasPrice()))
			a.bal.Sub(a.bal, tx.Value())
			if tx.To() != nil {
				if ra, ok := led[*tx.To()]; ok && *tx.To() != from {
					ra.bal = new(big.Int).Add(ra.bal, tx.Value())
					led[*tx.To()] = ra
				} else if *tx.To() == from {
					a.bal.Add(a.bal, tx.Value())
				}
			}
		}
		a.nonce++
		led[from] = a
		metas = append(metas, &gen.TxMeta{Kind: gen.TxTransfer, Sender: u.keyIdx[from], Tx: tx})
	}
	u.cbSeq++
	var cb common.Address
	cb[0] = 0xcb
	cb[18], cb[19] = byte(u.cbSeq>>8), byte(u.cbSeq)
	plan := gen.BlockPlan{Coinbase: cb, Reuse: metas, Extra: p.extra}
	if p.fast {
		plan.TimeOffset = -200
	}
	b := u.tree.Add(u.r, parent, plan)
	if len(b.Txs) != len(metas) {
		panic(fmt.Sprintf("harness: block builder included %d of %d planned transactions", len(b.Txs), len(metas)))
	}
	u.cbOf[b.Block.Hash()] = cb
	if u.stateAt(b.Block).GetBalance(cb).Sign() <= 0 {
		panic("harness: coinbase of a built block has no balance")
	}
	return b
}

// chainTap is the chain the pool is given: the real BlockChain, except that
// the channel the pool subscribes for head events is remembered so that the
// harness can put sentinels behind the chain's own events.
type chainTap struct {
	*core.BlockChain
	mu sync.Mutex
	ch chan<- core.ChainHeadEvent
}

func (t *chainTap) SubscribeChainHeadEvent(ch chan<- core.ChainHeadEvent) event.Subscription {
	t.mu.Lock()
	t.ch = ch
	t.mu.Unlock()
	return t.BlockChain.SubscribeChainHeadEvent(ch)
}

// headBarrier returns when the pool's event loop has completely handled every
// head event the chain posted before the call. InsertChain delivers its
// ChainHeadEvent into the pool's channel before it returns; the loop is one
// goroutine that takes the channel in order and ignores events without a block;
// the channel holds at most headChanCap items. Once headChanCap+1 empty
// sentinels have been accepted, at most headChanCap of them are still buffered,
// so the loop has received at least one sentinel, which it only does after it
// finished the iteration for the real event before it. No clock decides
// anything; the watchdog only covers a loop that does not take events at all.
const headChanCap = 10 // core.chainHeadChanSize

func (u *universe) headBarrier() bool {
	u.tap.mu.Lock()
	ch := u.tap.ch
	u.tap.mu.Unlock()
	if ch == nil {
		panic("harness: the pool never subscribed to head events")
	}
	done := make(chan struct{})
	go func() {
		for i := 0; i < headChanCap+1; i++ {
			ch <- core.ChainHeadEvent{}
		}
		close(done)
	}()
	select {
	case <-done:
		return true
	case <-time.After(30 * time.Minute):
		u.c.Inconclusive("pool_loop_takes_no_head_events")
		return false
	}
}

// waitHead is called after the last InsertChain of a step returned, with x the
// chain's current head. It passes the delivery barrier and takes ONE snapshot:
// the pool must then work against the state of x (x's unique coinbase has a
// balance there). ok=false with a snapshot: the pool did not follow (a
// violation has been recorded); nil snapshot: inconclusive.
func (u *universe) waitHead(x *types.Block, concurrent bool) (*snap, bool) {
	if x.Hash() == u.tree.Genesis.Hash() {
		return u.snapshot(), true
	}
	if !u.headBarrier() {
		return nil, false
	}
	cb := u.cbOf[x.Hash()]
	s := u.snapshot(cb)
	if s.Accounts[cb].StateBalance.Sign() > 0 {
		led := u.ledger(x)
		for a, want := range led {
			got := s.Accounts[a]
			if got.StateNonce != want.nonce || got.StateBalance.Cmp(want.bal) != 0 {
				panic(fmt.Sprintf("harness: pool state of %x is (%d,%v), ledger at head %d says (%d,%v)", a, got.StateNonce, got.StateBalance, x.NumberU64(), want.nonce, want.bal))
			}
		}
		if s.CurrentMaxGas != x.GasLimit() {
			panic("harness: pool gas cap differs from the head's gas limit")
		}
		u.head = x
		return s, true
	}
	old := u.head
	op := "head_advance"
	if !u.tree.IsAncestor(old, x) {
		op = "head_reorg"
	}
	if concurrent {
		op = "concurrent"
	}
	cause := "higher"
	if x.NumberU64() == old.NumberU64() {
		cause = "equal_height"
	} else if x.NumberU64() < old.NumberU64() {
		cause = "lower_height"
	}
	oldState := "the state of the previous head"
	if ocb, ok := u.cbOf[old.Hash()]; ok {
		if u.snapshot(ocb).Accounts[ocb].StateBalance.Sign() == 0 {
			oldState = "neither the new nor the previous head's state"
		}
	}
	u.c.Violate("head_not_followed", op, cause, fmt.Sprintf("the chain announced head #%d %x (previous head #%d %x, reorganisation: %v); after the pool's event loop had taken that event and %d later ones it still works against %s (gas cap %d, head's gas limit %d)%s",
		x.NumberU64(), x.Hash().Bytes()[:4], old.NumberU64(), old.Hash().Bytes()[:4], !u.tree.IsAncestor(old, x), headChanCap+1, oldState, s.CurrentMaxGas, x.GasLimit(), u.recentOps()))
	return s, false
}

// branchTxs returns the transactions of the blocks from (exclusive) ancestor to tip.
func (u *universe) branchTxs(anc, tip *types.Block) []*types.Transaction {
	var out []*types.Transaction
	for b := tip; b.Hash() != anc.Hash(); b = u.tree.Parent(b) {
		out = append(out, b.Transactions()...)
	}
	return out
}

func (u *universe) commonAncestor(a, b *types.Block) *types.Block {
	for a.NumberU64() > b.NumberU64() {
		a = u.tree.Parent(a)
	}
	for b.NumberU64() > a.NumberU64() {
		b = u.tree.Parent(b)
	}
	for a.Hash() != b.Hash() {
		a, b = u.tree.Parent(a), u.tree.Parent(b)
	}
	return a
}

func sortedAddrs(m map[common.Address]types.Transactions) []common.Address {
	out := make([]common.Address, 0, len(m))
	for a := range m {
		out = append(out, a)
	}
	sort.Slice(out, func(i, j int) bool { return string(out[i][:]) < string(out[j][:]) })
	return out
}

var _ = params.TestChainConfig
