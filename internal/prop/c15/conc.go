package c15

import (
	"fmt"
	"hash/fnv"
	"math/big"
	"runtime"
	"sync"
	"sync/atomic"
	"time"

	"gitlab.com/aquachain/aquachain/common"
	"gitlab.com/aquachain/aquachain/core/types"
	"verif/internal/fw"
)

// Concurrent leg (built with -race): phases in which 8-32 goroutines submit and
// read while exactly one head change is imported and a sampler goroutine checks
// every "at all times" clause on H3 snapshots. Between phases the pool is
// quiescent: everything is checked again there, including re-injection after
// the phase's reorganisation.

type concInput struct {
	Cfg     poolCfg `json:"cfg"`
	Procs   int     `json:"gomaxprocs"`
	Phases  int     `json:"phases"`
	Workers int     `json:"workers"`
	PerW    int     `json:"ops_per_worker_and_phase"`
	Index   int     `json:"index"`
}

type wop struct {
	kind  string // add | batch | pending | content | stats | status | get | statenonce | gasprice | setgasprice
	txs   []*types.Transaction
	local bool
	price *big.Int
}

func runConc(c *fw.Ctx) {
	n := c.Pick(3, 40)
	for i := 0; i < n; i++ {
		r := c.Rand("conc", fmt.Sprint(i))
		workers := []int{8, 12, 16, 24, 32}[r.Intn(5)]
		phases := r.Range(6, 10)
		in := concInput{Cfg: genCfg(r, r.Bool()), Procs: []int{2, 4, 16}[(i+c.Batch)%3], Phases: phases, Workers: workers, PerW: 2000/(phases*workers) + 1, Index: i}
		id := fmt.Sprintf("conc-%d", i)
		c.Case(id, in, func() { runConcCase(c, r, in, id) })
	}
}

func runConcCase(c *fw.Ctx, r *fw.Rand, in concInput, id string) {
	prev := runtime.GOMAXPROCS(in.Procs)
	defer runtime.GOMAXPROCS(prev)
	u := newUniverse(c, r, in.Cfg)
	defer u.close()
	q := &seqRun{u: u, r: r}
	q.s = u.snapshot()
	u.checkInv(q.s, opCtx{op: "init"})
	order := fnv.New64a()
	totalOps, samples := 0, 0
	for ph := 0; ph < in.Phases && !q.dead; ph++ {
		s0 := q.s
		oldHead := u.head
		// --- plan the head change (built before the phase starts)
		var blocks []*types.Block
		kind := "none"
		switch x := r.Intn(10); {
		case x < 5:
			kind = "advance"
			blocks = []*types.Block{u.buildBlock(u.head, q.minerPlan(r, u.head, r.Chance(1, 4))).Block}
			if r.Chance(1, 3) {
				blocks = append(blocks, u.buildBlock(blocks[0], blockPlan{}).Block)
			}
		case x < 8 && u.head.NumberU64() > 0:
			kind = "reorg"
			d := r.Range(1, minI(3, int(u.head.NumberU64())))
			anc := u.ancestorOf(u.head, d)
			old := u.branchTxs(anc, u.head)
			for i, j := 0, len(old)-1; i < j; i, j = i+1, j-1 {
				old[i], old[j] = old[j], old[i]
			}
			keep := r.Range(0, 3)
			blocks = q.buildFork(anc, r.Range(1, d+1), func(i int, parent *types.Block) []*types.Transaction {
				var cands []*types.Transaction
				for _, tx := range old {
					if r.Chance(keep, 3) {
						cands = append(cands, tx)
					}
				}
				return cands
			})
		}
		// --- plan the workers' operations from the quiescent view
		plans := make([][]wop, in.Workers)
		q.nextOff = map[common.Address]uint64{}
		submitted := 0
		var allTxs []*types.Transaction
		raisedTo := new(big.Int).Set(s0.GasPrice)
		for w := range plans {
			for k := 0; k < in.PerW; k++ {
				var o wop
				switch x := r.Intn(100); {
				case x < 62:
					tx, local, _ := q.genTx(r, "")
					o = wop{kind: "add", txs: []*types.Transaction{tx}, local: local}
				case x < 72:
					o = wop{kind: "batch", local: r.Chance(1, 4)}
					for j := r.Range(2, 5); j > 0; j-- {
						tx, _, _ := q.genTx(r, "")
						o.txs = append(o.txs, tx)
					}
				case x < 75 && kind != "reorg":
					p := new(big.Int).Add(s0.GasPrice, big.NewInt(int64(r.Range(-2, 5))))
					if p.Sign() <= 0 {
						p = big.NewInt(1)
					}
					if p.Cmp(raisedTo) > 0 {
						raisedTo = p
					}
					o = wop{kind: "setgasprice", price: p}
				default:
					o = wop{kind: []string{"pending", "content", "stats", "status", "get", "statenonce", "gasprice"}[r.Intn(7)]}
					if len(allTxs) > 0 {
						o.txs = []*types.Transaction{allTxs[r.Intn(len(allTxs))]}
					}
				}
				if o.kind == "add" || o.kind == "batch" {
					submitted += len(o.txs)
					allTxs = append(allTxs, o.txs...)
				}
				plans[w] = append(plans[w], o)
			}
		}
		// contention: some workers fight for the same slots with different prices
		if len(allTxs) > 0 {
			for w := 0; w < in.Workers/2; w++ {
				base := allTxs[r.Intn(len(allTxs))]
				from := u.senderOf(base)
				p := bumpThreshold(base.GasPrice(), u.cfg.PriceBump)
				if r.Bool() {
					p = new(big.Int).Add(base.GasPrice(), big.NewInt(int64(r.Range(0, 2))))
				}
				if u.isRich(from) && base.Nonce() < 1<<62 {
					tx := u.mkTx(from, base.Nonce(), u.fresh(r), big.NewInt(int64(w)), 21000, p, nil, false)
					plans[w][r.Intn(len(plans[w]))] = wop{kind: "add", txs: []*types.Transaction{tx}, local: r.Chance(1, 4)}
					submitted++
					allTxs = append(allTxs, tx)
				}
			}
		}
		u.mu.Lock()
		u.made = append(u.made, allTxs...)
		u.mu.Unlock()
		u.note("--- phase %d: %s with %d block(s), %d workers x %d ops, %d transactions submitted, GOMAXPROCS %d", ph, kind, len(blocks), in.Workers, in.PerW, submitted, in.Procs)

		// --- run
		var seq int64
		var wg sync.WaitGroup
		start := make(chan struct{})
		stamps := make([][]int64, in.Workers)
		for w := range plans {
			wg.Add(1)
			go func(w int) {
				defer wg.Done()
				<-start
				for _, o := range plans[w] {
					execWop(u, o)
					stamps[w] = append(stamps[w], atomic.AddInt64(&seq, 1))
				}
			}(w)
		}
		headDelay := r.Intn(200)
		wg.Add(1)
		go func() {
			defer wg.Done()
			<-start
			if len(blocks) == 0 {
				return
			}
			for i := 0; i < headDelay; i++ {
				runtime.Gosched()
			}
			if _, err := u.chain.InsertChain(blocks); err != nil {
				panic(fmt.Sprintf("harness: generated block rejected: %v", err))
			}
		}()
		stop := make(chan struct{})
		sdone := make(chan int)
		go func() {
			<-start
			n := 0
			last := s0
			seen := int64(-4)
			for {
				select {
				case <-stop:
					sdone <- n
					return
				default:
				}
				// one sample per four completed operations: the sampler's work is
				// bounded by the workload, not by how long the machine takes
				if atomic.LoadInt64(&seq) < seen+4 {
					time.Sleep(20 * time.Microsecond)
					continue
				}
				seen = atomic.LoadInt64(&seq)
				s := u.snapshot()
				u.checkInv(s, opCtx{op: "concurrent", before: last})
				last = s
				n++
			}
		}()
		close(start)
		wg.Wait()
		close(stop)
		samples += <-sdone
		totalOps += in.Workers * in.PerW
		for w := range stamps {
			for _, st := range stamps[w] {
				fmt.Fprintf(order, "%d:%d,", w, st)
			}
		}

		// --- quiescent checks
		cur := u.chain.CurrentBlock()
		x := u.head
		if cur.Hash() != oldHead.Hash() {
			x = u.tree.ByHash[cur.Hash()].Block
		}
		after, followed := u.waitHead(x, true)
		if after == nil {
			q.dead = true
			break
		}
		if !followed {
			if !u.tree.IsAncestor(oldHead, x) {
				u.checkReorg(s0, after, oldHead, x, submitted, nil)
			}
			q.dead = true
			break
		}
		u.checkInv(after, opCtx{op: "quiescent", before: s0})
		u.checkViews(after)
		c.Count("concurrent_phases")
		if x.Hash() != oldHead.Hash() {
			if u.tree.IsAncestor(oldHead, x) {
				c.Count("concurrent_head_advance")
			} else {
				c.Count("concurrent_head_reorg")
				u.checkReorg(s0, after, oldHead, x, submitted, func(tx *types.Transaction) string {
					if !isLocal(s0, u.senderOf(tx)) && tx.GasPrice().Cmp(raisedTo) < 0 {
						return "threshold_raised_concurrently"
					}
					return ""
				})
			}
		}
		q.observeHead(s0, after, oldHead, x)
		q.s = after
	}
	c.CountN("concurrent_operations", totalOps)
	c.CountN("concurrent_snapshots_checked", samples)
	c.Nontrivial(fmt.Sprintf("conc %x", order.Sum64()))
	if c.WantSample() {
		c.Sample(map[string]interface{}{"case": id, "cfg": in.Cfg, "gomaxprocs": in.Procs, "phases": in.Phases, "workers": in.Workers, "operations": totalOps,
			"sampled_snapshots": samples, "completion_order_hash": fmt.Sprintf("%x", order.Sum64()), "final_head": u.head.NumberU64(), "last_ops": u.recent})
	}
}

func execWop(u *universe, o wop) {
	c := u.c
	switch o.kind {
	case "add":
		var err error
		if o.local {
			err = u.pool.AddLocal(o.txs[0])
		} else {
			err = u.pool.AddRemote(o.txs[0])
		}
		c.Count("conc_add_" + errClass(err))
	case "batch":
		var errs []error
		if o.local {
			errs = u.pool.AddLocals(o.txs)
		} else {
			errs = u.pool.AddRemotes(o.txs)
		}
		for _, e := range errs {
			c.Count("conc_add_" + errClass(e))
		}
	case "setgasprice":
		u.pool.SetGasPrice(new(big.Int).Set(o.price))
		c.Count("conc_set_gas_price")
	case "pending":
		p, _ := u.pool.Pending()
		// whatever instant this is: every list handed out is a strictly increasing nonce run
		for a, l := range p {
			for i := 1; i < len(l); i++ {
				if l[i].Nonce() != l[i-1].Nonce()+1 {
					c.Count("conc_pending_view_with_gap")
					_ = a
					break
				}
			}
		}
		c.Count("conc_read_pending")
	case "content":
		u.pool.Content()
		c.Count("conc_read_content")
	case "stats":
		u.pool.Stats()
		c.Count("conc_read_stats")
	case "status":
		if len(o.txs) > 0 {
			u.pool.Status([]common.Hash{o.txs[0].Hash()})
		}
		c.Count("conc_read_status")
	case "get":
		if len(o.txs) > 0 {
			u.pool.Get(o.txs[0].Hash())
		}
		c.Count("conc_read_get")
	case "statenonce":
		st := u.pool.State()
		for _, a := range u.senders {
			st.GetNonce(a)
		}
		c.Count("conc_read_state_nonce")
	case "gasprice":
		u.pool.GasPrice()
		c.Count("conc_read_gas_price")
	}
}
