package c15

import "verif/internal/fw"

func runConc(c *fw.Ctx) {}
func runLin(c *fw.Ctx)  {}
