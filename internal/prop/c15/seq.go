package c15

import (
	"fmt"
	"hash/fnv"
	"math"
	"math/big"

	"gitlab.com/aquachain/aquachain/common"
	"gitlab.com/aquachain/aquachain/core"
	"gitlab.com/aquachain/aquachain/core/types"
	"verif/internal/fw"
	"verif/internal/gen"
)

// seqRun drives one pool sequentially; q.s is always the H3 snapshot of the
// current quiescent state.
type seqRun struct {
	u *universe
	r *fw.Rand
	s *snap

	dead bool // a head wait was inconclusive: stop the case

	// nextOff: while operations are planned ahead (concurrent phases) the "next"
	// template continues the run it has planned so far for the sender
	nextOff map[common.Address]uint64

	accepted, replaced, headAffected, reinjected, limitDrops int
}

func big64(v uint64) *big.Int { return new(big.Int).SetUint64(v) }

func slotTx(s *snap, a common.Address, nonce uint64) (*types.Transaction, string) {
	for _, tx := range s.Pending[a] {
		if tx.Nonce() == nonce {
			return tx, "pending"
		}
	}
	for _, tx := range s.Queue[a] {
		if tx.Nonce() == nonce {
			return tx, "queued"
		}
	}
	return nil, ""
}

func errClass(err error) string {
	switch {
	case err == nil:
		return "ok"
	case err == core.ErrReplaceUnderpriced:
		return "replace_underpriced"
	case err == core.ErrUnderpriced:
		return "underpriced"
	case err == core.ErrNonceTooLow:
		return "nonce_too_low"
	case err == core.ErrInsufficientFunds:
		return "insufficient_funds"
	case err == core.ErrGasLimit:
		return "gas_limit"
	case err == core.ErrIntrinsicGas:
		return "intrinsic_gas"
	case err == core.ErrInvalidSender:
		return "invalid_sender"
	case err == core.ErrOversizedData:
		return "oversized"
	case err == core.ErrNegativeValue:
		return "negative_value"
	case len(err.Error()) >= 5 && err.Error()[:5] == "known":
		return "known"
	}
	return "other"
}

// ---------------------------------------------------------------------------
// submissions

func (q *seqRun) submit(txs []*types.Transaction, local, batch bool) []error {
	u := q.u
	name := "AddRemote"
	if local {
		name = "AddLocal"
	}
	if batch {
		name += "s"
	}
	desc := ""
	touched := map[common.Address]bool{}
	for _, tx := range txs {
		desc += txStr(u, tx)
		touched[u.senderOf(tx)] = true
	}
	u.mu.Lock()
	u.made = append(u.made, txs...)
	u.mu.Unlock()
	before := q.s
	var errs []error
	switch {
	case batch && local:
		errs = u.pool.AddLocals(txs)
	case batch:
		errs = u.pool.AddRemotes(txs)
	case local:
		errs = []error{u.pool.AddLocal(txs[0])}
	default:
		errs = []error{u.pool.AddRemote(txs[0])}
	}
	res := ""
	for _, e := range errs {
		res += " " + errClass(e)
		u.c.Count("add_result_" + errClass(e))
		if e == nil {
			q.accepted++
		}
	}
	u.note("%s %s ->%s", name, desc, res)
	after := u.snapshot()
	u.checkInv(after, opCtx{op: name, touched: touched, before: before})
	q.checkReplace(before, after, txs, errs, name)
	if countTxs(after.Pending)+countTxs(after.Queue) < countTxs(before.Pending)+countTxs(before.Queue) {
		q.limitDrops++
		u.c.Count("add_shrank_pool")
	}
	q.s = after
	return errs
}

// checkReplace: a same-nonce replacement is accepted only with the configured
// price bump (decided at the client boundary from the snapshots around the call).
func (q *seqRun) checkReplace(before, after *snap, txs []*types.Transaction, errs []error, op string) {
	u := q.u
	c := u.c
	type slot struct {
		a common.Address
		n uint64
	}
	perSlot := map[slot]int{}
	for _, tx := range txs {
		perSlot[slot{u.senderOf(tx), tx.Nonce()}]++
	}
	full := uint64(len(before.All)+len(txs)) > u.cfg.GlobalSlots+u.cfg.GlobalQueue
	for i, tx := range txs {
		from := u.senderOf(tx)
		old, where := slotTx(before, from, tx.Nonce())
		if old == nil || old.Hash() == tx.Hash() {
			continue
		}
		if perSlot[slot{from, tx.Nonce()}] > 1 {
			c.Count("replace_check_skipped_same_slot_twice_in_batch")
			continue
		}
		ok := bumpOK(old.GasPrice(), tx.GasPrice(), u.cfg.PriceBump)
		switch {
		case errs[i] == nil:
			now, _ := slotTx(after, from, tx.Nonce())
			_, oldStill := after.All[old.Hash()]
			if now == nil || now.Hash() != tx.Hash() || oldStill {
				continue
			}
			if full {
				c.Count("replace_check_skipped_pool_full")
				continue
			}
			q.replaced++
			c.Count("replacement_accepted")
			if tx.GasPrice().Cmp(bumpThreshold(old.GasPrice(), u.cfg.PriceBump)) == 0 {
				c.Count("replacement_accepted_at_exact_bump")
			}
			if !ok {
				cause := "below_bump_" + where
				if tx.GasPrice().Cmp(old.GasPrice()) <= 0 {
					cause = "not_higher_" + where
				}
				c.Violate("replacement_without_price_bump", op, cause, fmt.Sprintf("%s replaced %s with PriceBump %d%%%s", txStr(u, tx), txStr(u, old), u.cfg.PriceBump, u.recentOps()))
			}
		case errs[i] == core.ErrReplaceUnderpriced:
			c.Count("replacement_refused")
			if new(big.Int).Add(tx.GasPrice(), big.NewInt(1)).Cmp(bumpThreshold(old.GasPrice(), u.cfg.PriceBump)) == 0 {
				c.Count("replacement_refused_one_below_bump")
			}
			if ok && !full {
				c.Count("obs_replacement_refused_although_bump_met")
			}
		}
	}
}

// genTx draws one hostile submission relative to the pool's current content.
func (q *seqRun) genTx(r *fw.Rand, force string) (*types.Transaction, bool, string) {
	u := q.u
	from := u.senders[r.Intn(len(u.senders))]
	if r.Chance(1, 3) {
		from = u.senders[u.nRich+r.Intn(len(u.senders)-u.nRich)]
	}
	tmpls := []struct {
		name string
		w    int
	}{{"next", 30}, {"gap", 8}, {"fill", 8}, {"replace_pending", 12}, {"replace_queued", 5}, {"stale", 3}, {"far", 2}, {"dup", 3},
		{"unaffordable", 4}, {"exact_balance", 3}, {"gas_at_limit", 2}, {"gas_over_limit", 2}, {"underpriced", 4}, {"low_intrinsic", 2},
		{"oversized", 1}, {"bad_sig", 1}, {"max_nonce", 1}}
	tmpl := force
	if tmpl == "" {
		tot := 0
		for _, t := range tmpls {
			tot += t.w
		}
		x := r.Intn(tot)
		for _, t := range tmpls {
			if x < t.w {
				tmpl = t.name
				break
			}
			x -= t.w
		}
	}
	return q.genTxFrom(r, from, tmpl)
}

func (q *seqRun) genTxFrom(r *fw.Rand, from common.Address, tmpl string) (*types.Transaction, bool, string) {
	u, s := q.u, q.s
	ac := s.Accounts[from]
	pend, que := s.Pending[from], s.Queue[from]
	next := ac.StateNonce + uint64(len(pend))
	thr := s.GasPrice
	rich := u.isRich(from)

	nonce := next
	price := new(big.Int).Add(thr, big.NewInt(int64(r.Intn(30))))
	if rich && r.Chance(1, 6) {
		price = big.NewInt(int64(r.Range(1, 50)) * 1e9)
	}
	var data []byte
	if r.Chance(1, 5) {
		data = r.Bytes(r.Range(1, 60))
	}
	gas := intrinsic(data)
	if r.Chance(1, 3) {
		gas += uint64(r.Intn(40000))
	}
	to := u.fresh(r)
	if r.Chance(1, 3) {
		to = u.senders[r.Intn(len(u.senders))]
	}
	local := r.Chance(1, 4)
	bad := false
	value := big.NewInt(int64(r.Intn(1_000_000)))
	affordable := func() {
		// value such that the cost stays within the balance (poor accounts)
		gc := new(big.Int).Mul(big64(gas), price)
		spare := new(big.Int).Sub(ac.StateBalance, gc)
		if spare.Sign() <= 0 {
			value = big.NewInt(0)
			return
		}
		if value.Cmp(spare) > 0 {
			value = new(big.Int).Div(new(big.Int).Mul(spare, big.NewInt(int64(r.Intn(60)))), big.NewInt(100))
		}
	}
	ladder := func(old *types.Transaction) {
		po := old.GasPrice()
		t := bumpThreshold(po, u.cfg.PriceBump)
		opts := []*big.Int{
			new(big.Int).Sub(po, big.NewInt(1)), new(big.Int).Set(po), new(big.Int).Add(po, big.NewInt(1)),
			new(big.Int).Sub(t, big.NewInt(1)), new(big.Int).Set(t), new(big.Int).Set(t), new(big.Int).Add(t, big.NewInt(1)),
			new(big.Int).Add(new(big.Int).Mul(po, big.NewInt(2)), big.NewInt(1)),
		}
		price = opts[r.Intn(len(opts))]
		if price.Sign() <= 0 {
			price = big.NewInt(1)
		}
		nonce = old.Nonce()
	}
	switch tmpl {
	case "next":
		if q.nextOff != nil {
			nonce += q.nextOff[from]
			if r.Chance(2, 3) {
				q.nextOff[from]++
			}
		}
	case "gap":
		nonce = next + 1 + uint64(r.Intn(3))
		if len(que) > 0 && r.Bool() {
			nonce = que[len(que)-1].Nonce() + 1 + uint64(r.Intn(2))
		}
	case "fill":
		if len(que) > 0 && que[0].Nonce() > next {
			nonce = next + uint64(r.Intn(int(minU(que[0].Nonce()-next, 3))))
		}
	case "replace_pending":
		if len(pend) > 0 {
			ladder(pend[r.Intn(len(pend))])
		}
	case "replace_queued":
		if len(que) > 0 {
			ladder(que[r.Intn(len(que))])
		}
	case "stale":
		if ac.StateNonce > 0 {
			nonce = ac.StateNonce - 1 - uint64(r.Intn(int(minU(ac.StateNonce, 2))))
		}
	case "far":
		nonce = next + 40 + uint64(r.Intn(1000))
	case "max_nonce":
		nonce = math.MaxUint64 - uint64(r.Intn(2))
	case "dup":
		u.mu.Lock()
		n := len(u.made)
		var tx *types.Transaction
		if n > 0 {
			tx = u.made[n-1-r.Intn(minI(n, 12))]
		}
		u.mu.Unlock()
		if tx != nil {
			return tx, local, tmpl
		}
	case "gas_at_limit":
		gas = s.CurrentMaxGas
		price = new(big.Int).Set(thr)
	case "gas_over_limit":
		gas = s.CurrentMaxGas + 1 + uint64(r.Intn(3))
		price = new(big.Int).Set(thr)
	case "underpriced":
		if thr.Cmp(big.NewInt(1)) > 0 {
			price = new(big.Int).Sub(thr, big.NewInt(int64(r.Range(1, int(minU(thr.Uint64()-1, 3))))))
		}
	case "low_intrinsic":
		gas = intrinsic(data) - 1 - uint64(r.Intn(100))
	case "oversized":
		data = make([]byte, 32*1024+r.Range(1, 64))
		gas = intrinsic(data)
	case "bad_sig":
		bad = true
	}
	affordable()
	switch tmpl {
	case "unaffordable":
		// cost = balance + 1 (or more)
		gc := new(big.Int).Mul(big64(gas), price)
		value = new(big.Int).Sub(ac.StateBalance, gc)
		value.Add(value, big.NewInt(int64(r.Range(1, 3))))
		if value.Sign() < 0 {
			value = big.NewInt(0)
		}
	case "exact_balance":
		gc := new(big.Int).Mul(big64(gas), price)
		value = new(big.Int).Sub(ac.StateBalance, gc)
		if value.Sign() < 0 {
			value = big.NewInt(0)
		}
	}
	return u.mkTx(from, nonce, to, value, gas, price, data, bad), local, tmpl
}

func minU(a, b uint64) uint64 {
	if a < b {
		return a
	}
	return b
}

func minI(a, b int) int {
	if a < b {
		return a
	}
	return b
}

func (q *seqRun) randomAdd(r *fw.Rand) {
	if r.Chance(1, 7) {
		n := r.Range(2, 6)
		var txs []*types.Transaction
		local := r.Chance(1, 4)
		for i := 0; i < n; i++ {
			tx, _, _ := q.genTx(r, "")
			txs = append(txs, tx)
			// let later members of the batch see earlier ones as "next": simulate by
			// occasionally continuing the nonce run of the same sender
			if r.Chance(1, 2) {
				from := q.u.senderOf(tx)
				if tx.Nonce() < math.MaxUint64-4 {
					to := q.u.fresh(r)
					txs = append(txs, q.u.mkTx(from, tx.Nonce()+1, to, big.NewInt(0), 21000, tx.GasPrice(), nil, false))
					i++
				}
			}
		}
		if r.Chance(1, 3) {
			// out of nonce order
			p := r.Perm(len(txs))
			sh := make([]*types.Transaction, len(txs))
			for i, j := range p {
				sh[i] = txs[j]
			}
			txs = sh
		}
		q.u.c.Count("batch_submissions")
		q.submit(txs, local, true)
		return
	}
	tx, local, tmpl := q.genTx(r, "")
	q.u.c.Count("tmpl_" + tmpl)
	q.submit([]*types.Transaction{tx}, local, false)
}

func (q *seqRun) setGasPrice(p *big.Int) {
	u := q.u
	before := q.s
	u.note("SetGasPrice %v (was %v)", p, before.GasPrice)
	u.pool.SetGasPrice(new(big.Int).Set(p))
	after := u.snapshot()
	u.c.Count("set_gas_price")
	demoted := false
	for a, l := range before.Pending {
		if len(after.Queue[a]) > len(before.Queue[a]) && len(after.Pending[a]) < len(l) {
			demoted = true
		}
	}
	if demoted {
		u.c.Count("setgasprice_demoted_pending_run")
	}
	u.checkInv(after, opCtx{op: "SetGasPrice", before: before})
	q.s = after
}

// ---------------------------------------------------------------------------
// head changes

// minerPlan picks block content the way a miner would (prefixes of Pending())
// plus transactions the pool never saw.
func (q *seqRun) minerPlan(r *fw.Rand, parent *types.Block, fast bool) blockPlan {
	u := q.u
	led := u.ledger(parent)
	var cands []*types.Transaction
	pend, _ := u.pool.Pending()
	for _, a := range u.senders {
		l := pend[a]
		// foreign transactions first (they win the nonce) or after the pool's prefix
		var foreign []*types.Transaction
		if r.Chance(1, 5) {
			foreign = q.foreignTxs(r, a, led[a])
		}
		k := 0
		if len(l) > 0 && r.Chance(2, 3) {
			k = r.Range(1, len(l))
		}
		if r.Bool() {
			cands = append(cands, foreign...)
			cands = append(cands, l[:k]...)
		} else {
			cands = append(cands, l[:k]...)
			// continue after the prefix
			if k > 0 && len(foreign) > 0 {
				ac := led[a]
				ac.nonce = l[k-1].Nonce() + 1
				foreign = q.foreignTxs(r, a, acct{ac.nonce, big.NewInt(0)})
			}
			cands = append(cands, foreign...)
		}
	}
	if r.Chance(1, 8) {
		cands = append(cands, q.heavyTx(r, parent, led))
	}
	return blockPlan{txs: cands, fast: fast, extra: r.Bytes(r.Range(0, 4))}
}

// foreignTxs: transactions of account a that the pool never sees before they
// are mined: nonce consumers, balance drains (poor accounts), funding (rich).
func (q *seqRun) foreignTxs(r *fw.Rand, a common.Address, ac acct) []*types.Transaction {
	u := q.u
	price := big.NewInt(int64(r.Range(1, 40)))
	switch {
	case u.isRich(a) && r.Bool():
		// fund a poor account
		p := u.senders[u.nRich+r.Intn(len(u.senders)-u.nRich)]
		u.c.Count("foreign_fund_tx")
		return []*types.Transaction{u.mkTx(a, ac.nonce, p, big.NewInt(int64(r.Range(100_000, 30_000_000))), 21000, price, nil, false)}
	case !u.isRich(a) && ac.bal.Sign() > 0:
		// drain: send most of what is left
		gc := new(big.Int).Mul(big.NewInt(21000), price)
		spare := new(big.Int).Sub(ac.bal, gc)
		if spare.Sign() <= 0 {
			return nil
		}
		v := new(big.Int).Div(new(big.Int).Mul(spare, big.NewInt(int64(r.Range(50, 100)))), big.NewInt(100))
		u.c.Count("foreign_drain_tx")
		return []*types.Transaction{u.mkTx(a, ac.nonce, u.fresh(r), v, 21000, price, nil, false)}
	default:
		n := r.Range(1, 2)
		var out []*types.Transaction
		for i := 0; i < n; i++ {
			out = append(out, u.mkTx(a, ac.nonce+uint64(i), u.fresh(r), big.NewInt(int64(r.Intn(1000))), 21000, price, nil, false))
		}
		u.c.Count("foreign_consume_tx")
		return out
	}
}

// heavyTx burns a whole block's gas so that the next block's gas limit rises.
func (q *seqRun) heavyTx(r *fw.Rand, parent *types.Block, led map[common.Address]acct) *types.Transaction {
	u := q.u
	a := u.senders[r.Intn(u.nRich)]
	return u.mkTx(a, led[a].nonce, gen.AddrSpinner, big.NewInt(0), core.CalcGasLimit(parent), big.NewInt(int64(r.Range(1, 20))), nil, false)
}

// insert imports blocks into the real chain, waits until the pool has followed
// and checks everything that must hold after a head change.
func (q *seqRun) insert(blocks []*types.Block) {
	u := q.u
	before := q.s
	oldHead := u.head
	u.note("InsertChain %d block(s) #%d..#%d (%d txs in last) on head #%d", len(blocks), blocks[0].NumberU64(), blocks[len(blocks)-1].NumberU64(), len(blocks[len(blocks)-1].Transactions()), oldHead.NumberU64())
	if _, err := u.chain.InsertChain(blocks); err != nil {
		panic(fmt.Sprintf("harness: generated block rejected: %v", err))
	}
	cur := u.chain.CurrentBlock()
	if cur.Hash() == oldHead.Hash() {
		u.c.Count("side_blocks_without_head_change")
		after := u.snapshot()
		u.checkInv(after, opCtx{op: "side_block", before: before})
		q.s = after
		return
	}
	x := u.tree.ByHash[cur.Hash()].Block
	op := "head_advance"
	if !u.tree.IsAncestor(oldHead, x) {
		op = "head_reorg"
	}
	u.c.Count(op)
	if op == "head_reorg" {
		if oldHead.NumberU64() > x.NumberU64() {
			u.c.Count("reorg_to_lower_height")
		} else if oldHead.NumberU64() == x.NumberU64() {
			u.c.Count("reorg_to_equal_height")
		}
	}
	after, followed := u.waitHead(x, false)
	if after == nil {
		q.dead = true
		return
	}
	if !followed {
		// the pool ignored the head: say what that means for the dropped
		// transactions, then end the case (the harness's picture of the pool's
		// head no longer holds)
		if op == "head_reorg" {
			u.checkReorg(before, after, oldHead, x, 0, nil)
		}
		q.dead = true
		return
	}
	u.checkInv(after, opCtx{op: op, before: before})
	q.observeHead(before, after, oldHead, x)
	if op == "head_reorg" {
		u.checkReorg(before, after, oldHead, x, 0, nil)
	}
	q.s = after
}

// observeHead counts what the head change did to the pool (observation classes).
func (q *seqRun) observeHead(before, after *snap, oldHead, x *types.Block) {
	u := q.u
	affected := false
	for _, a := range u.senders {
		b, n := before.Accounts[a], after.Accounts[a]
		for _, tx := range before.Pending[a] {
			if tx.Nonce() < n.StateNonce {
				u.c.Count("head_consumed_pending_nonce")
				affected = true
			} else if cost(tx).Cmp(n.StateBalance) > 0 {
				u.c.Count("head_made_pending_unaffordable")
				affected = true
			} else if tx.Gas() > after.CurrentMaxGas {
				u.c.Count("head_lowered_gas_limit_below_pending")
				affected = true
			}
		}
		if n.StateNonce < b.StateNonce {
			u.c.Count("head_rolled_nonce_back")
			affected = true
		}
		if len(after.Pending[a]) < len(before.Pending[a]) && len(after.Queue[a]) > len(before.Queue[a]) {
			u.c.Count("head_demoted_pending_to_queue")
		}
		if len(after.Pending[a]) > len(before.Pending[a]) {
			u.c.Count("head_promoted_or_reinjected")
		}
	}
	if affected {
		q.headAffected++
	}
}

// checkReorg: the transactions that dropped out of the canonical chain are
// pooled again if still valid. submitted = number of transactions submitted
// concurrently with the head change (0 in sequential runs); raced = slots that
// concurrent submissions also targeted.
func (u *universe) checkReorg(before, after *snap, oldHead, x *types.Block, submitted int, excuse func(tx *types.Transaction) string) {
	c := u.c
	anc := u.commonAncestor(oldHead, x)
	included := map[common.Hash]bool{}
	for _, tx := range u.branchTxs(anc, x) {
		included[tx.Hash()] = true
	}
	var dropped []*types.Transaction
	perAcct := map[common.Address]int{}
	for _, tx := range u.branchTxs(anc, oldHead) {
		if !included[tx.Hash()] {
			dropped = append(dropped, tx)
			perAcct[u.senderOf(tx)]++
		}
	}
	if uint64(oldHead.NumberU64()-anc.NumberU64()) > 64 || uint64(x.NumberU64()-anc.NumberU64()) > 64 {
		c.Count("reorg_deeper_than_64_not_checked")
		return
	}
	led := u.ledger(x)
	n := uint64(len(before.All) + len(dropped) + submitted)
	cfg := u.cfg
	demanded := 0
	for _, tx := range dropped {
		from := u.senderOf(tx)
		a := led[from]
		c.Count("reorg_dropped_tx")
		local := isLocal(before, from)
		valid := tx.Nonce() >= a.nonce && cost(tx).Cmp(a.bal) <= 0 && tx.Gas() <= x.GasLimit() && (local || tx.GasPrice().Cmp(before.GasPrice) >= 0)
		if !valid {
			c.Count("reorg_dropped_tx_no_longer_valid")
			continue
		}
		if excuse != nil {
			if why := excuse(tx); why != "" {
				c.Count("reorg_check_skipped_" + why)
				continue
			}
		}
		if got, _ := slotTx(after, from, tx.Nonce()); got != nil && got.Hash() == tx.Hash() {
			c.Count("reorg_tx_pooled_again")
			demanded++
			continue
		}
		if _, in := after.All[tx.Hash()]; in {
			// in the lookup index but in neither list: that is the index clause's business
			c.Count("reorg_tx_only_in_lookup_index")
			continue
		}
		if holder, _ := slotTx(after, from, tx.Nonce()); holder != nil {
			if !bumpOK(holder.GasPrice(), tx.GasPrice(), cfg.PriceBump) {
				c.Count("reorg_slot_held_by_tx_it_cannot_replace")
				continue
			}
			if submitted > 0 {
				c.Count("reorg_check_skipped_slot_raced")
				continue
			}
			c.Violate("reorg_tx_not_pooled_again", "head_reorg", "slot_held_by_weaker_tx", fmt.Sprintf("dropped %s is valid at the new head #%d (nonce %d, balance %v) but the slot holds %s%s",
				txStr(u, tx), x.NumberU64(), a.nonce, a.bal, txStr(u, holder), u.recentOps()))
			continue
		}
		if !local {
			per := uint64(len(before.Pending[from]) + len(before.Queue[from]) + perAcct[from] + submitted)
			if n > cfg.GlobalSlots || n > cfg.GlobalQueue || per > cfg.AccountQueue {
				c.Count("reorg_check_skipped_limits_may_bind")
				continue
			}
		}
		cause := "future_nonce"
		if tx.Nonce() == a.nonce {
			cause = "executable_nonce"
		}
		if local {
			cause += "_local"
		}
		c.Violate("reorg_tx_not_pooled_again", "head_reorg", cause, fmt.Sprintf("dropped %s is valid at the new head #%d (chain nonce %d, balance %v, gas limit %d, threshold %v) but is not in the pool%s",
			txStr(u, tx), x.NumberU64(), a.nonce, a.bal, x.GasLimit(), before.GasPrice, u.recentOps()))
	}
	if demanded > 0 {
		c.Count("reorgs_with_reinjection_observed")
	}
}

func (q *seqRun) advance(r *fw.Rand) {
	if q.dead {
		return
	}
	b := q.u.buildBlock(q.u.head, q.minerPlan(r, q.u.head, r.Chance(1, 4)))
	q.insert([]*types.Block{b.Block})
}

// ancestorOf returns the d-th ancestor of b (or genesis).
func (u *universe) ancestorOf(b *types.Block, d int) *types.Block {
	for i := 0; i < d && b.Hash() != u.tree.Genesis.Hash(); i++ {
		b = u.tree.Parent(b)
	}
	return b
}

// buildFork builds a competing branch on anc that is heavier than the current
// head; content(i, parent) supplies the candidates of the i-th block.
func (q *seqRun) buildFork(anc *types.Block, minLen int, content func(i int, parent *types.Block) []*types.Transaction) []*types.Block {
	u := q.u
	var out []*types.Block
	p := anc
	target := u.tree.TD[u.head.Hash()]
	for i := 0; i < minLen || u.tree.TD[p.Hash()].Cmp(target) <= 0; i++ {
		if i > 80 {
			panic("harness: fork never became heavier")
		}
		b := u.buildBlock(p, blockPlan{txs: content(i, p), fast: true, extra: []byte{0xf0, byte(i)}})
		out = append(out, b.Block)
		p = b.Block
	}
	return out
}

func (q *seqRun) reorg(r *fw.Rand) {
	u := q.u
	if q.dead || u.head.NumberU64() == 0 {
		return
	}
	d := r.Range(1, minI(3, int(u.head.NumberU64())))
	anc := u.ancestorOf(u.head, d)
	old := u.branchTxs(anc, u.head)
	// reverse to chain order
	for i, j := 0, len(old)-1; i < j; i, j = i+1, j-1 {
		old[i], old[j] = old[j], old[i]
	}
	keepNum, keepDen := r.Range(0, 3), 3
	blocks := q.buildFork(anc, r.Range(1, d+1), func(i int, parent *types.Block) []*types.Transaction {
		var cands []*types.Transaction
		for _, tx := range old {
			if r.Chance(keepNum, keepDen) {
				cands = append(cands, tx)
			}
		}
		if r.Chance(1, 2) {
			led := u.ledger(parent)
			a := u.senders[r.Intn(len(u.senders))]
			cands = append(cands, q.foreignTxs(r, a, led[a])...)
		}
		return cands
	})
	if r.Bool() {
		q.insert(blocks)
	} else {
		for _, b := range blocks {
			if q.dead {
				return
			}
			q.insert([]*types.Block{b})
		}
	}
}

// ---------------------------------------------------------------------------
// the case

type seqInput struct {
	Scenario string  `json:"scenario"`
	Cfg      poolCfg `json:"cfg"`
	Ops      int     `json:"ops"`
	Index    int     `json:"index"`
}

var scenarios = []string{"bump_ladder", "drain", "gas_cap", "reorg_full", "reorg_partial_price", "reorg_partial_funds", "spam_pending", "spam_queue", "threshold_demote", "pool_full", "random", "random"}

func runSeq(c *fw.Ctx) {
	n := c.Pick(36, 900)
	for i := 0; i < n; i++ {
		r := c.Rand("seq", fmt.Sprint(i))
		sc := scenarios[(i+c.Batch)%len(scenarios)]
		if i%40 == 17 {
			sc = "shorter_heavier"
		}
		tight := r.Chance(3, 4)
		switch sc {
		case "spam_pending", "spam_queue", "threshold_demote", "pool_full":
			tight = true
		}
		cfg := genCfg(r, tight)
		in := seqInput{Scenario: sc, Cfg: cfg, Ops: r.Range(110, 190), Index: i}
		id := fmt.Sprintf("seq-%d", i)
		c.Case(id, in, func() { runSeqCase(c, r, in, id) })
	}
}

func runSeqCase(c *fw.Ctx, r *fw.Rand, in seqInput, id string) {
	u := newUniverse(c, r, in.Cfg)
	defer u.close()
	q := &seqRun{u: u, r: r}
	q.s = u.snapshot()
	u.checkInv(q.s, opCtx{op: "init"})
	c.Count("scenario_" + in.Scenario)
	at := r.Range(in.Ops/4, in.Ops/2)
	for i := 0; i < in.Ops && !q.dead; i++ {
		if i == at {
			q.scenario(r, in.Scenario)
			if q.dead {
				break
			}
			u.checkViews(q.s)
		}
		switch x := r.Intn(100); {
		case x < 66:
			q.randomAdd(r)
		case x < 70:
			p := new(big.Int).Add(q.s.GasPrice, big.NewInt(int64(r.Range(-3, 6))))
			if p.Sign() <= 0 {
				p = big.NewInt(1)
			}
			q.setGasPrice(p)
		case x < 84:
			q.advance(r)
		case x < 90:
			q.reorg(r)
		default:
			u.checkViews(q.s)
		}
	}
	if !q.dead {
		u.checkViews(q.s)
	}
	if q.accepted >= 10 && q.replaced >= 1 && q.headAffected >= 1 {
		h := fnv.New64a()
		u.mu.Lock()
		for _, tx := range u.made {
			h.Write(tx.Hash().Bytes())
		}
		u.mu.Unlock()
		c.Nontrivial(fmt.Sprintf("seq %x %d %d", h.Sum64(), u.head.NumberU64(), q.accepted))
	}
	if c.WantSample() {
		c.Sample(map[string]interface{}{"case": id, "scenario": in.Scenario, "cfg": in.Cfg, "ops": in.Ops, "accepted_submissions": q.accepted,
			"replacements": q.replaced, "final_head": u.head.NumberU64(), "final_pending": countTxs(q.s.Pending), "final_queued": countTxs(q.s.Queue), "last_ops": u.recent})
	}
}
