package c15

import (
	"math/big"

	"gitlab.com/aquachain/aquachain/common"
	"gitlab.com/aquachain/aquachain/core/types"
	"verif/internal/fw"
)

// Forced scenarios: every history contains one of them, so that the required
// observation classes are produced by construction.

func (q *seqRun) nextNonce(a common.Address) uint64 {
	return q.s.Accounts[a].StateNonce + uint64(len(q.s.Pending[a]))
}

func (q *seqRun) simple(r *fw.Rand, from common.Address, nonce uint64, price *big.Int, value int64) *types.Transaction {
	return q.u.mkTx(from, nonce, q.u.fresh(r), big.NewInt(value), 21000, price, nil, false)
}

func (q *seqRun) one(tx *types.Transaction, local bool) error {
	return q.submit([]*types.Transaction{tx}, local, false)[0]
}

// nonLocalRich returns a rich account that the pool does not treat as local.
func (q *seqRun) nonLocalRich(r *fw.Rand) (common.Address, bool) {
	u := q.u
	start := r.Intn(u.nRich)
	for i := 0; i < u.nRich; i++ {
		a := u.senders[(start+i)%u.nRich]
		if !isLocal(q.s, a) {
			return a, true
		}
	}
	return common.Address{}, false
}

func (q *seqRun) poor(r *fw.Rand) common.Address {
	u := q.u
	return u.senders[u.nRich+r.Intn(len(u.senders)-u.nRich)]
}

func addI(p *big.Int, d int64) *big.Int { return new(big.Int).Add(p, big.NewInt(d)) }

func (q *seqRun) scenario(r *fw.Rand, name string) {
	u := q.u
	u.note("--- scenario %s", name)
	switch name {
	case "bump_ladder":
		q.scBumpLadder(r)
	case "drain":
		q.scDrain(r)
	case "gas_cap":
		q.scGasCap(r)
	case "reorg_full":
		q.scReorg(r, "full")
	case "reorg_partial_price":
		q.scReorg(r, "price")
	case "reorg_partial_funds":
		q.scReorgFunds(r)
	case "spam_pending":
		q.scSpamPending(r)
	case "spam_queue":
		q.scSpamQueue(r)
	case "threshold_demote":
		q.scThresholdDemote(r)
	case "pool_full":
		q.scPoolFull(r)
	case "shorter_heavier":
		q.scShorterHeavier(r)
	}
	u.note("--- end of scenario %s", name)
}

// scBumpLadder walks a pending and a queued slot up the replacement ladder:
// same price, one below the bump, exactly the bump.
func (q *seqRun) scBumpLadder(r *fw.Rand) {
	u := q.u
	a := u.senders[r.Intn(u.nRich)]
	n := q.nextNonce(a)
	p0 := addI(q.s.GasPrice, int64(r.Range(0, 300)))
	if r.Chance(1, 4) {
		p0 = big.NewInt(int64(r.Range(1, 30)) * 1e9)
	}
	local := r.Chance(1, 3)
	for _, nonce := range []uint64{n, n + 3} {
		v := int64(1)
		if q.one(q.simple(r, a, nonce, p0, v), local) != nil {
			continue
		}
		cur := p0
		for step := 0; step < 3; step++ {
			t := bumpThreshold(cur, u.cfg.PriceBump)
			for _, p := range []*big.Int{cur, addI(t, -1), t} {
				v++
				err := q.one(q.simple(r, a, nonce, p, v), local)
				if err == nil {
					cur = p
				}
			}
		}
	}
}

// scDrain: a poor account holds a pending run; a block then spends most of its
// balance with a transaction the pool never saw.
func (q *seqRun) scDrain(r *fw.Rand) {
	u := q.u
	p := q.poor(r)
	thr := q.s.GasPrice
	gc := new(big.Int).Mul(big.NewInt(21000), thr)
	bal := q.s.Accounts[p].StateBalance
	if bal.Cmp(new(big.Int).Mul(gc, big.NewInt(8))) < 0 {
		// fund it first
		rich := u.senders[r.Intn(u.nRich)]
		led := u.ledger(u.head)
		f := u.mkTx(rich, led[rich].nonce, p, new(big.Int).Mul(gc, big.NewInt(40)), 21000, big.NewInt(1), nil, false)
		q.insert([]*types.Block{u.buildBlock(u.head, blockPlan{txs: []*types.Transaction{f}}).Block})
		if q.dead {
			return
		}
		bal = q.s.Accounts[p].StateBalance
	}
	n := q.nextNonce(p)
	quarter := new(big.Int).Div(bal, big.NewInt(4))
	val := new(big.Int).Sub(quarter, gc)
	if val.Sign() < 0 {
		val = big.NewInt(0)
	}
	for i := uint64(0); i < 3; i++ {
		q.one(u.mkTx(p, n+i, u.fresh(r), addI(val, -int64(i)), 21000, thr, nil, false), false)
	}
	q.one(u.mkTx(p, n+3, u.fresh(r), big.NewInt(0), 21000, thr, nil, false), false)
	// the drain: nonce = chain nonce, 85-95% of the balance
	led := u.ledger(u.head)
	spare := new(big.Int).Sub(led[p].bal, gc)
	if spare.Sign() <= 0 {
		return
	}
	v := new(big.Int).Div(new(big.Int).Mul(spare, big.NewInt(int64(r.Range(85, 95)))), big.NewInt(100))
	d := u.mkTx(p, led[p].nonce, u.fresh(r), v, 21000, thr, nil, false)
	u.c.Count("foreign_drain_tx")
	q.insert([]*types.Block{u.buildBlock(u.head, blockPlan{txs: []*types.Transaction{d}}).Block})
}

// scGasCap: the block gas limit rises after a full block, a transaction with
// exactly that gas becomes pending, then the limit falls back.
func (q *seqRun) scGasCap(r *fw.Rand) {
	u := q.u
	led := u.ledger(u.head)
	q.insert([]*types.Block{u.buildBlock(u.head, blockPlan{txs: []*types.Transaction{q.heavyTx(r, u.head, led)}}).Block})
	if q.dead {
		return
	}
	q.insert([]*types.Block{u.buildBlock(u.head, blockPlan{}).Block}) // its limit is raised, it is empty
	if q.dead {
		return
	}
	a := u.senders[r.Intn(u.nRich)]
	n := q.nextNonce(a)
	thr := q.s.GasPrice
	big1 := u.mkTx(a, n, u.fresh(r), big.NewInt(0), q.s.CurrentMaxGas, thr, nil, false)
	q.one(big1, r.Chance(1, 3))
	q.one(q.simple(r, a, n+1, addI(thr, 2), 5), false)
	q.one(q.simple(r, a, n+2, addI(thr, 2), 6), false)
	q.insert([]*types.Block{u.buildBlock(u.head, blockPlan{}).Block}) // limit falls back to the target
}

// scReorg: a run n..n+3 is pending, n and n+1 get mined, then the chain
// reorganises to a branch without them. kind "full": both are valid again.
// kind "price": the price threshold was raised above n+1 in the meantime, so
// only n can come back while n+2, n+3 are still pending.
func (q *seqRun) scReorg(r *fw.Rand, kind string) {
	u := q.u
	var a common.Address
	local := false
	if kind == "price" {
		var ok bool
		if a, ok = q.nonLocalRich(r); !ok {
			u.c.Count("scenario_skipped_no_non_local_account")
			return
		}
	} else {
		a = u.senders[r.Intn(u.nRich)]
		local = r.Chance(1, 3)
	}
	n := q.nextNonce(a)
	thr := q.s.GasPrice
	hi := addI(thr, int64(r.Range(5, 40)))
	prices := []*big.Int{hi, hi, hi, hi}
	if kind == "price" {
		prices[1] = new(big.Int).Set(thr)
	}
	var run []*types.Transaction
	for i := 0; i < 4; i++ {
		tx := q.simple(r, a, n+uint64(i), prices[i], int64(i+1))
		if q.one(tx, local) != nil {
			u.c.Count("scenario_aborted_submission_refused")
			return
		}
		run = append(run, tx)
	}
	base := u.head
	q.insert([]*types.Block{u.buildBlock(base, blockPlan{txs: run[:2]}).Block})
	if q.dead {
		return
	}
	if kind == "price" {
		q.setGasPrice(addI(thr, 1))
		if len(q.s.Pending[a]) > 0 {
			u.c.Count("reorg_partial_reinject_with_pending_tail")
		}
	}
	blocks := q.buildFork(base, 2, func(i int, parent *types.Block) []*types.Transaction {
		if r.Chance(1, 2) {
			led := u.ledger(parent)
			o := u.senders[r.Intn(len(u.senders))]
			if o != a {
				return q.foreignTxs(r, o, led[o])
			}
		}
		return nil
	})
	if r.Bool() {
		q.insert(blocks)
	} else {
		for _, b := range blocks {
			if q.dead {
				return
			}
			q.insert([]*types.Block{b})
		}
	}
}

// scReorgFunds: a poor account is funded on one branch only; its expensive
// middle transaction cannot come back after the reorganisation while a later
// cheap one is still pending.
func (q *seqRun) scReorgFunds(r *fw.Rand) {
	u := q.u
	p := q.poor(r)
	rich := u.senders[r.Intn(u.nRich)]
	base := u.head
	thr := q.s.GasPrice
	gc := new(big.Int).Mul(big.NewInt(21000), thr)
	b0 := q.s.Accounts[p].StateBalance
	if b0.Cmp(new(big.Int).Mul(gc, big.NewInt(3))) < 0 || len(q.s.Pending[p])+len(q.s.Queue[p]) > 0 {
		u.c.Count("scenario_skipped_poor_account_unsuitable")
		return
	}
	fund := new(big.Int).Add(new(big.Int).Mul(b0, big.NewInt(2)), big.NewInt(int64(r.Range(1_000_000, 20_000_000))))
	led := u.ledger(base)
	f := u.mkTx(rich, led[rich].nonce, p, fund, 21000, big.NewInt(int64(r.Range(1, 5))), nil, false)
	u.c.Count("foreign_fund_tx")
	q.insert([]*types.Block{u.buildBlock(base, blockPlan{txs: []*types.Transaction{f}}).Block})
	if q.dead {
		return
	}
	n := q.nextNonce(p)
	t0 := u.mkTx(p, n, u.fresh(r), big.NewInt(1), 21000, thr, nil, false)
	// cost above the unfunded balance, within the funded one
	t1 := u.mkTx(p, n+1, u.fresh(r), new(big.Int).Add(b0, big.NewInt(int64(r.Range(1, 1000)))), 21000, thr, nil, false)
	t2 := u.mkTx(p, n+2, u.fresh(r), big.NewInt(2), 21000, thr, nil, false)
	for _, tx := range []*types.Transaction{t0, t1, t2} {
		if q.one(tx, false) != nil {
			u.c.Count("scenario_aborted_submission_refused")
			return
		}
	}
	q.insert([]*types.Block{u.buildBlock(u.head, blockPlan{txs: []*types.Transaction{t0, t1}}).Block})
	if q.dead {
		return
	}
	if len(q.s.Pending[p]) > 0 && !isLocal(q.s, p) {
		u.c.Count("reorg_partial_reinject_with_pending_tail")
	}
	blocks := q.buildFork(base, 3, func(i int, parent *types.Block) []*types.Transaction { return nil })
	q.insert(blocks)
}

// scSpamPending: non-local accounts push more executable transactions than
// AccountSlots until the pool is above GlobalSlots.
func (q *seqRun) scSpamPending(r *fw.Rand) {
	u := q.u
	for k := 0; k < u.nRich; k++ {
		a := u.senders[k]
		n := q.nextNonce(a)
		price := addI(q.s.GasPrice, int64(r.Range(0, 20)))
		for i := uint64(0); i < u.cfg.AccountSlots+2; i++ {
			before := len(q.s.Pending[a])
			q.one(q.simple(r, a, n+i, price, int64(i)), false)
			if uint64(countTxs(q.s.Pending)) >= u.cfg.GlobalSlots && len(q.s.Pending[a]) <= before {
				u.c.Count("pending_truncated_at_global_slots")
			}
		}
	}
}

// scSpamQueue: gapped transactions beyond AccountQueue and GlobalQueue.
func (q *seqRun) scSpamQueue(r *fw.Rand) {
	u := q.u
	for _, a := range u.senders {
		n := q.nextNonce(a) + 2
		if l := q.s.Queue[a]; len(l) > 0 {
			n = l[len(l)-1].Nonce() + 2
		}
		price := addI(q.s.GasPrice, int64(r.Range(0, 20)))
		lim := u.cfg.AccountQueue + 2
		if !u.isRich(a) {
			lim = 2
		}
		for i := uint64(0); i < lim; i++ {
			beforeAcct, beforeAll := len(q.s.Queue[a]), countTxs(q.s.Queue)
			if q.one(q.simple(r, a, n+i, price, int64(i)), false) != nil {
				continue
			}
			if !isLocal(q.s, a) && len(q.s.Queue[a]) <= beforeAcct && uint64(beforeAcct) >= u.cfg.AccountQueue {
				u.c.Count("queue_capped_at_account_queue")
			}
			if countTxs(q.s.Queue) <= beforeAll && uint64(beforeAll) >= u.cfg.GlobalQueue {
				u.c.Count("queue_truncated_at_global_queue")
			}
		}
	}
}

// scThresholdDemote: a non-local account has a long pending run whose second
// transaction is the cheapest; the price threshold is raised just above it.
func (q *seqRun) scThresholdDemote(r *fw.Rand) {
	u := q.u
	a, ok := q.nonLocalRich(r)
	if !ok {
		u.c.Count("scenario_skipped_no_non_local_account")
		return
	}
	n := q.nextNonce(a)
	thr := q.s.GasPrice
	hi := addI(thr, int64(r.Range(3, 30)))
	m := u.cfg.AccountSlots
	if m > 12 {
		m = 12
	}
	for i := uint64(0); i < m; i++ {
		p := hi
		if i == 1 {
			p = new(big.Int).Set(thr)
		}
		q.one(q.simple(r, a, n+i, p, int64(i)), false)
	}
	q.setGasPrice(addI(thr, 1))
}

// scPoolFull: fill the pool to GlobalSlots+GlobalQueue, the cheapest
// transaction being an early nonce of a non-local account, then submit a
// better paying one.
func (q *seqRun) scPoolFull(r *fw.Rand) {
	u := q.u
	thr := q.s.GasPrice
	hi := addI(thr, int64(r.Range(5, 30)))
	capTotal := int(u.cfg.GlobalSlots + u.cfg.GlobalQueue)
	victim, ok := q.nonLocalRich(r)
	if !ok {
		u.c.Count("scenario_skipped_no_non_local_account")
		return
	}
	vn := q.nextNonce(victim)
	for i := uint64(0); i < 6; i++ {
		p := hi
		if i == 1 {
			p = new(big.Int).Set(thr)
		}
		q.one(q.simple(r, victim, vn+i, p, int64(i)), false)
	}
	for round := 0; round < 40 && len(q.s.All) < capTotal; round++ {
		for k := 0; k < u.nRich && len(q.s.All) < capTotal; k++ {
			a := u.senders[k]
			if a == victim {
				continue
			}
			q.one(q.simple(r, a, q.nextNonce(a), hi, int64(round)), false)
		}
		if u.nRich < 2 {
			break
		}
	}
	if len(q.s.All) >= capTotal {
		u.c.Count("pool_filled_to_capacity")
	}
	// the better paying newcomers
	for k := 0; k < 3; k++ {
		a := u.senders[(u.keyIdx[victim]+1)%u.nRich]
		before := len(q.s.All)
		if q.one(q.simple(r, a, q.nextNonce(a), addI(hi, int64(10+k)), int64(100+k)), false) == nil && before >= capTotal {
			u.c.Count("pool_full_eviction")
		}
	}
}

// scShorterHeavier: 25 slow blocks, then a 23-block fast branch forked 24 below
// the tip: the new head is lower than the old one.
func (q *seqRun) scShorterHeavier(r *fw.Rand) {
	u := q.u
	var main []*types.Block
	p := u.head
	for i := 0; i < 25; i++ {
		plan := blockPlan{extra: []byte{0x51, byte(i)}}
		if i >= 20 {
			plan = q.minerPlanAt(r, p)
		}
		b := u.buildBlock(p, plan)
		main = append(main, b.Block)
		p = b.Block
	}
	q.insert(main)
	if q.dead {
		return
	}
	for i := 0; i < 6; i++ {
		q.randomAdd(r)
	}
	anc := main[0]
	target := u.tree.TD[u.head.Hash()]
	var fork []*types.Block
	p = anc
	for i := 0; i < 23 || u.tree.TD[p.Hash()].Cmp(target) <= 0; i++ {
		if i > 80 {
			panic("harness: fork never became heavier")
		}
		b := u.buildBlock(p, blockPlan{fast: true, extra: []byte{0x52, byte(i)}})
		fork = append(fork, b.Block)
		p = b.Block
	}
	q.insert(fork)
}

// minerPlanAt is minerPlan for a parent that is not the pool's head (only
// transactions of the pool's pending view whose nonces fit are taken).
func (q *seqRun) minerPlanAt(r *fw.Rand, parent *types.Block) blockPlan {
	pl := q.minerPlan(r, parent, false)
	return pl
}
