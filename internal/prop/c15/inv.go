package c15

import (
	"fmt"
	"math/big"

	"gitlab.com/aquachain/aquachain/common"
	"gitlab.com/aquachain/aquachain/core"
	"gitlab.com/aquachain/aquachain/core/types"
)

// opCtx says which operation preceded a snapshot (for violation signatures).
type opCtx struct {
	op      string                  // AddRemote | AddLocal | AddRemotes | AddLocals | SetGasPrice | head_advance | head_reorg | init | concurrent | quiescent
	touched map[common.Address]bool // senders of the transactions submitted by the operation
	before  *snap
	// evicting is set when an add may have evicted other accounts' transactions
	// (the pool was full before it)
	view string // "" = H3 snapshot, "Pending()" = the public API view
}

// report records a violation of a state clause unless the very same fact
// (clause + subject) already held in the previously checked snapshot: a
// persisting bad state is attributed to the operation that introduced it.
func (u *universe) report(cur map[string]bool, clause, op, cause, subject, detail string) {
	key := clause + "|" + subject
	cur[key] = true
	u.mu.Lock()
	old := u.prevBad[key]
	u.mu.Unlock()
	if old {
		u.c.Count("persisting_violation_not_rereported")
		return
	}
	u.c.Violate(clause, op, cause, detail+u.recentOps())
}

// dumpAcct writes out what the pool holds for one account.
func (u *universe) dumpAcct(s *snap, a common.Address) string {
	if s == nil {
		return "-"
	}
	out := fmt.Sprintf("chain nonce %d balance %v virtual nonce %d pending [", s.Accounts[a].StateNonce, s.Accounts[a].StateBalance, s.Accounts[a].PendingNonce)
	for _, tx := range s.Pending[a] {
		out += txStr(u, tx)
	}
	out += "] queue ["
	for _, tx := range s.Queue[a] {
		out += txStr(u, tx)
	}
	return out + "]"
}

func countTxs(m map[common.Address]types.Transactions) int {
	n := 0
	for _, l := range m {
		n += len(l)
	}
	return n
}

func isLocal(s *snap, a common.Address) bool {
	for _, l := range s.Locals {
		if l == a {
			return true
		}
	}
	return false
}

// checkExecutable decides the first sentence of the property on a pending view:
// per sender a gap-free run of nonces starting at the chain nonce the pool
// works against, every transaction affordable against that state.
func (u *universe) checkExecutable(pending map[common.Address]types.Transactions, s *snap, oc opCtx, cur map[string]bool) {
	op := oc.op
	if oc.view != "" {
		op = oc.view
	}
	for _, a := range sortedAddrs(pending) {
		list := pending[a]
		if len(list) == 0 {
			continue
		}
		ac, ok := s.Accounts[a]
		if !ok {
			panic(fmt.Sprintf("harness: pending sender %x is not in the universe", a))
		}
		for i, tx := range list {
			if u.senderOf(tx) != a {
				u.report(cur, "pending_wrong_sender", op, "", tx.Hash().Hex(), fmt.Sprintf("transaction %s is filed under account %x", txStr(u, tx), a))
			}
			want := ac.StateNonce + uint64(i)
			if tx.Nonce() != want {
				cause := "middle_gap"
				if i == 0 && tx.Nonce() > want {
					cause = "front_gap"
				} else if tx.Nonce() < want && (i == 0 || tx.Nonce() < ac.StateNonce) {
					cause = "below_chain_nonce"
				}
				u.report(cur, "pending_not_gap_free", op, cause, fmt.Sprintf("%x/%s", a, cause), fmt.Sprintf("account s%d: chain nonce %d, pending nonces %v (position %d holds %d, want %d)\n  before: %s\n  now:    %s",
					u.keyIdx[a], ac.StateNonce, nonces(list), i, tx.Nonce(), want, u.dumpAcct(oc.before, a), u.dumpAcct(s, a)))
				break
			}
		}
		for _, tx := range list {
			if cost(tx).Cmp(ac.StateBalance) > 0 {
				u.report(cur, "pending_not_affordable", op, "cost_above_balance", tx.Hash().Hex()+"/cost", fmt.Sprintf("account s%d balance %v, pending %s costs %v\n  before: %s\n  now:    %s", u.keyIdx[a], ac.StateBalance, txStr(u, tx), cost(tx), u.dumpAcct(oc.before, a), u.dumpAcct(s, a)))
			}
			if tx.Gas() > s.CurrentMaxGas {
				u.report(cur, "pending_not_affordable", op, "gas_above_block_limit", tx.Hash().Hex()+"/gas", fmt.Sprintf("block gas limit %d, pending %s", s.CurrentMaxGas, txStr(u, tx)))
			}
		}
	}
}

func nonces(l types.Transactions) []uint64 {
	out := make([]uint64, len(l))
	for i, tx := range l {
		out[i] = tx.Nonce()
	}
	return out
}

// checkInv decides every "at all times" clause on one H3 snapshot.
func (u *universe) checkInv(s *snap, oc opCtx) {
	c := u.c
	c.Count("snapshots_checked")
	cur := map[string]bool{}
	defer func() {
		u.mu.Lock()
		u.prevBad = cur
		u.mu.Unlock()
	}()
	u.checkExecutable(s.Pending, s, oc, cur)

	// at most one transaction per (sender, nonce) across pending and queue
	type slot struct {
		a common.Address
		n uint64
	}
	seen := map[slot]*types.Transaction{}
	union := map[common.Hash]bool{}
	for _, m := range []map[common.Address]types.Transactions{s.Pending, s.Queue} {
		for _, a := range sortedAddrs(m) {
			for _, tx := range m[a] {
				k := slot{a, tx.Nonce()}
				if old, dup := seen[k]; dup {
					u.report(cur, "duplicate_sender_nonce", oc.op, "", fmt.Sprintf("%x/%d", a, tx.Nonce()), fmt.Sprintf("account s%d nonce %d held by %s and %s\n  before: %s\n  now:    %s", u.keyIdx[a], tx.Nonce(), txStr(u, old), txStr(u, tx), u.dumpAcct(oc.before, a), u.dumpAcct(s, a)))
				}
				seen[k] = tx
				union[tx.Hash()] = true
			}
		}
	}
	// the lookup index is exactly pending + queue
	for h, tx := range s.All {
		if !union[h] {
			a := u.senderOf(tx)
			// classify: was it the tail of a pending run whose first transaction was
			// removed (the account has no pending list any more)?
			cause := "indexed_but_not_listed"
			if oc.before != nil && len(s.Pending[a]) == 0 && oc.op != "concurrent" && oc.op != "quiescent" {
				for i, b := range oc.before.Pending[a] {
					if i > 0 && b.Hash() == h {
						cause = "pending_tail_lost_when_run_head_removed"
					}
				}
			}
			u.report(cur, "index_mismatch", oc.op, cause, h.Hex(), fmt.Sprintf("%s is in the lookup index but in neither list\n  before: %s\n  now:    %s", txStr(u, tx), u.dumpAcct(oc.before, a), u.dumpAcct(s, a)))
		}
	}
	for h := range union {
		if _, ok := s.All[h]; !ok {
			u.report(cur, "index_mismatch", oc.op, "listed_but_not_indexed", h.Hex(), fmt.Sprintf("transaction %x is listed but not in the lookup index", h))
		}
	}

	// limits for non-local senders
	cfg := u.cfg
	totalPending := uint64(countTxs(s.Pending))
	nonLocalQueued, nonLocalTotal := uint64(0), uint64(0)
	for _, a := range sortedAddrs(s.Queue) {
		if isLocal(s, a) {
			continue
		}
		n := uint64(len(s.Queue[a]))
		nonLocalQueued += n
		if n > cfg.AccountQueue {
			u.report(cur, "account_queue_limit", oc.op, u.limitCause(a, s, oc), a.Hex(), fmt.Sprintf("non-local account s%d has %d queued transactions, AccountQueue %d\n  before: %s\n  now:    %s",
				u.keyIdx[a], n, cfg.AccountQueue, u.dumpAcct(oc.before, a), u.dumpAcct(s, a)))
		}
	}
	if nonLocalQueued > cfg.GlobalQueue {
		u.report(cur, "global_queue_limit", oc.op, u.limitCause(common.Address{}, s, oc), "", fmt.Sprintf("%d queued transactions of non-local accounts, GlobalQueue %d", nonLocalQueued, cfg.GlobalQueue))
	}
	if totalPending > cfg.GlobalSlots {
		for _, a := range sortedAddrs(s.Pending) {
			if !isLocal(s, a) && uint64(len(s.Pending[a])) > cfg.AccountSlots {
				u.report(cur, "pending_limit", oc.op, u.limitCause(a, s, oc), a.Hex(), fmt.Sprintf("%d pending > GlobalSlots %d and non-local account s%d holds %d > AccountSlots %d",
					totalPending, cfg.GlobalSlots, u.keyIdx[a], len(s.Pending[a]), cfg.AccountSlots))
			}
		}
	}
	for _, m := range []map[common.Address]types.Transactions{s.Pending, s.Queue} {
		for a, l := range m {
			if !isLocal(s, a) {
				nonLocalTotal += uint64(len(l))
			}
		}
	}
	if nonLocalTotal > cfg.GlobalSlots+cfg.GlobalQueue {
		u.report(cur, "pool_total_limit", oc.op, u.limitCause(common.Address{}, s, oc), "", fmt.Sprintf("%d transactions of non-local accounts, GlobalSlots+GlobalQueue %d", nonLocalTotal, cfg.GlobalSlots+cfg.GlobalQueue))
	}

	// observations (not part of the property text): virtual nonce, price heap
	for _, a := range sortedAddrs(s.Pending) {
		l := s.Pending[a]
		if len(l) > 0 && s.Accounts[a].PendingNonce != l[len(l)-1].Nonce()+1 {
			c.Count("obs_virtual_nonce_not_last_pending_plus_one")
		}
	}
	if s.PricedLen-s.PricedStales != len(s.All) {
		c.Count("obs_price_heap_size_differs")
	}
}

// limitCause classifies a limit violation so that distinct defects get distinct
// signatures: was the over-limit account the one the operation added to, did
// its queue grow because pending transactions were demoted, or is this after a
// reset.
func (u *universe) limitCause(a common.Address, s *snap, oc opCtx) string {
	switch oc.op {
	case "SetGasPrice":
		return "after_price_threshold_change"
	case "head_advance", "head_reorg":
		return "after_reset"
	case "concurrent", "quiescent", "init":
		return oc.op
	}
	// an add into a full pool evicts the cheapest transactions first; when that
	// removes a pending transaction the rest of that run is demoted into the queue
	demoted := func(x common.Address) bool {
		return oc.before != nil && len(oc.before.Pending[x]) > len(s.Pending[x])
	}
	if a == (common.Address{}) {
		for x := range s.Queue {
			if demoted(x) {
				return "demoted_by_eviction"
			}
		}
		return "after_add"
	}
	if demoted(a) {
		return "demoted_by_eviction"
	}
	if oc.touched[a] {
		return "own_account"
	}
	return "other_account"
}

// checkViews compares the public observers with the H3 snapshot at a quiescent
// point (nothing else touches the pool) and decides executability on what
// Pending() hands to the miner.
func (u *universe) checkViews(s *snap) {
	c := u.c
	c.Count("public_views_checked")
	p, _ := u.pool.Pending()
	u.checkExecutable(p, s, opCtx{op: "quiescent", view: "Pending()"}, map[string]bool{})
	same := func(name string, got, want map[common.Address]types.Transactions) {
		for a, l := range got {
			if len(l) == 0 {
				continue
			}
			w := want[a]
			if len(w) != len(l) {
				c.Violate("public_view_differs", name, "", fmt.Sprintf("account s%d: %s has nonces %v, lists hold %v%s", u.keyIdx[a], name, nonces(l), nonces(w), u.recentOps()))
				return
			}
			for i := range l {
				if l[i].Hash() != w[i].Hash() {
					c.Violate("public_view_differs", name, "", fmt.Sprintf("account s%d position %d: %s has %s, lists hold %s%s", u.keyIdx[a], i, name, txStr(u, l[i]), txStr(u, w[i]), u.recentOps()))
					return
				}
			}
		}
		for a, w := range want {
			if len(w) > 0 && len(got[a]) == 0 {
				c.Violate("public_view_differs", name, "", fmt.Sprintf("account s%d missing from %s%s", u.keyIdx[a], name, u.recentOps()))
				return
			}
		}
	}
	same("Pending", p, s.Pending)
	cp, cq := u.pool.Content()
	same("Content.pending", cp, s.Pending)
	same("Content.queued", cq, s.Queue)
	np, nq := u.pool.Stats()
	if np != countTxs(s.Pending) || nq != countTxs(s.Queue) {
		c.Violate("public_view_differs", "Stats", "", fmt.Sprintf("Stats (%d,%d), lists hold (%d,%d)%s", np, nq, countTxs(s.Pending), countTxs(s.Queue), u.recentOps()))
	}
	var hashes []common.Hash
	var want []core.TxStatus
	for _, a := range sortedAddrs(s.Pending) {
		for _, tx := range s.Pending[a] {
			hashes, want = append(hashes, tx.Hash()), append(want, core.TxStatusPending)
		}
	}
	for _, a := range sortedAddrs(s.Queue) {
		for _, tx := range s.Queue[a] {
			hashes, want = append(hashes, tx.Hash()), append(want, core.TxStatusQueued)
		}
	}
	u.mu.Lock()
	for i := 0; i < 3 && i < len(u.made); i++ {
		tx := u.made[(len(u.made)-1-i*7+len(u.made)*8)%len(u.made)]
		if _, in := s.All[tx.Hash()]; !in {
			hashes, want = append(hashes, tx.Hash()), append(want, core.TxStatusUnknown)
		}
	}
	u.mu.Unlock()
	got := u.pool.Status(hashes)
	for i := range hashes {
		if got[i] != want[i] {
			c.Violate("public_view_differs", "Status", "", fmt.Sprintf("Status(%x) = %d, lists say %d%s", hashes[i], got[i], want[i], u.recentOps()))
			break
		}
		if g := u.pool.Get(hashes[i]); (g != nil) != (want[i] != core.TxStatusUnknown) {
			c.Violate("public_view_differs", "Get", "", fmt.Sprintf("Get(%x) present=%v, lists say status %d%s", hashes[i], g != nil, want[i], u.recentOps()))
			break
		}
	}
	st := u.pool.State()
	for _, a := range u.senders {
		if st.GetNonce(a) != s.Accounts[a].PendingNonce {
			c.Count("obs_state_nonce_differs_from_snapshot")
		}
	}
	_ = big.NewInt
}
