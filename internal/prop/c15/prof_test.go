package c15

import (
	"os"
	"testing"

	"verif/internal/fw"
)

func TestProfSeq(t *testing.T) {
	d, _ := os.MkdirTemp("", "c15prof")
	defer os.RemoveAll(d)
	leg := os.Getenv("C15_LEG")
	if leg == "" {
		leg = "seq"
	}
	fw.RunChild("C15", leg, 0, 16, "quick", 1, d, os.Getenv("C15_CASE"))
}
