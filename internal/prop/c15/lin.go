package c15

import (
	"fmt"
	"hash/fnv"
	"math/big"
	"runtime"
	"sync"
	"sync/atomic"
	"time"

	"github.com/anishathalye/porcupine"
	"gitlab.com/aquachain/aquachain/common"
	"gitlab.com/aquachain/aquachain/core"
	"gitlab.com/aquachain/aquachain/core/types"
	"verif/internal/fw"
)

// Linearizability leg: limits are roomy and every transaction is valid, so the
// only thing that can happen to a (sender, nonce) slot is "empty -> set" and
// "replace iff the price rule holds". Concurrent AddRemote/AddLocal/AddRemotes/
// Get/Status histories, stamped at the client boundary from one counter, must
// be linearizable per slot against that register.

type linInput struct {
	Cfg        poolCfg `json:"cfg"`
	Procs      int     `json:"gomaxprocs"`
	Workers    int     `json:"workers"`
	Senders    int     `json:"senders"`
	NoncesPer  int     `json:"nonces_per_sender"`
	Candidates int     `json:"candidates_per_slot"`
	HeadEvents bool    `json:"empty_blocks_imported_concurrently"`
	Index      int     `json:"index"`
}

const (
	linAdd = iota
	linGet
	linStatus
)

const (
	outOK = iota
	outKnown
	outReplaceUnderpriced
	outOther
	outAbsent
	outPresent
)

type linIn struct {
	kind int
	cand int
}

type linSlot struct {
	from  common.Address
	nonce uint64
	cands []*types.Transaction
	ops   []porcupine.Operation
}

func linModel(prices []*big.Int, bump uint64) porcupine.Model {
	return porcupine.Model{
		Init: func() interface{} { return -1 },
		Step: func(state, input, output interface{}) (bool, interface{}) {
			holder := state.(int)
			in := input.(linIn)
			out := output.(int)
			switch in.kind {
			case linAdd:
				switch {
				case holder == -1:
					return out == outOK, in.cand
				case holder == in.cand:
					return out == outKnown, holder
				case bumpOK(prices[holder], prices[in.cand], bump):
					return out == outOK, in.cand
				default:
					return out == outReplaceUnderpriced, holder
				}
			default: // get, status
				if holder == in.cand {
					return out == outPresent, holder
				}
				return out == outAbsent, holder
			}
		},
		Equal: func(a, b interface{}) bool { return a.(int) == b.(int) },
		DescribeOperation: func(input, output interface{}) string {
			in := input.(linIn)
			return fmt.Sprintf("%s(c%d p%v)->%s", []string{"add", "get", "status"}[in.kind], in.cand, prices[in.cand], []string{"ok", "known", "replace_underpriced", "other", "absent", "present"}[output.(int)])
		},
	}
}

func runLin(c *fw.Ctx) {
	n := c.Pick(8, 100)
	for i := 0; i < n; i++ {
		r := c.Rand("lin", fmt.Sprint(i))
		cfg := genCfg(r, false)
		cfg.Journal = false
		in := linInput{Cfg: cfg, Procs: []int{2, 4, 16}[(i+c.Batch)%3], Workers: r.Range(8, 16), Senders: cfg.Rich, NoncesPer: r.Range(3, 6),
			Candidates: r.Range(5, 8), HeadEvents: r.Bool(), Index: i}
		id := fmt.Sprintf("lin-%d", i)
		c.Case(id, in, func() { runLinCase(c, r, in, id) })
	}
}

type linCall struct {
	kind  int // linAdd (single or batch) | linGet | linStatus
	local bool
	refs  [][2]int // (slot, candidate)
}

func runLinCase(c *fw.Ctx, r *fw.Rand, in linInput, id string) {
	prev := runtime.GOMAXPROCS(in.Procs)
	defer runtime.GOMAXPROCS(prev)
	u := newUniverse(c, r, in.Cfg)
	defer u.close()
	s0 := u.snapshot()
	bump := in.Cfg.PriceBump

	// slots: contiguous nonces from the chain nonce (they become pending) and two
	// nonces behind a gap (they stay queued)
	var slots []*linSlot
	for si := 0; si < in.Senders; si++ {
		from := u.senders[si]
		sn := s0.Accounts[from].StateNonce
		var ns []uint64
		for k := 0; k < in.NoncesPer; k++ {
			ns = append(ns, sn+uint64(k))
		}
		ns = append(ns, sn+uint64(in.NoncesPer)+1, sn+uint64(in.NoncesPer)+2)
		for _, n := range ns {
			sl := &linSlot{from: from, nonce: n}
			base := new(big.Int).Add(s0.GasPrice, big.NewInt(int64(r.Range(0, 200))))
			if r.Chance(1, 5) {
				base = big.NewInt(int64(r.Range(1, 9)) * 1e9)
			}
			t1 := bumpThreshold(base, bump)
			t2 := bumpThreshold(t1, bump)
			ladder := []*big.Int{base, base, addI(base, 1), addI(t1, -1), t1, addI(t1, 1), addI(t2, -1), t2, new(big.Int).Mul(base, big.NewInt(3))}
			for k := 0; k < in.Candidates; k++ {
				p := ladder[r.Intn(len(ladder))]
				if k == 0 {
					p = base
				}
				if p.Cmp(s0.GasPrice) < 0 {
					p = new(big.Int).Set(s0.GasPrice)
				}
				sl.cands = append(sl.cands, u.mkTx(from, n, u.fresh(r), big.NewInt(int64(k)), 21000, p, nil, false))
			}
			slots = append(slots, sl)
		}
	}
	// calls: every candidate is added 1-3 times, read a few times
	var calls []linCall
	for si, sl := range slots {
		for ci := range sl.cands {
			for k := r.Range(1, 3); k > 0; k-- {
				calls = append(calls, linCall{kind: linAdd, local: r.Chance(1, 5), refs: [][2]int{{si, ci}}})
			}
			for k := r.Range(1, 2); k > 0; k-- {
				calls = append(calls, linCall{kind: []int{linGet, linStatus}[r.Intn(2)], refs: [][2]int{{si, ci}}})
			}
		}
	}
	perm := r.Perm(len(calls))
	sh := make([]linCall, len(calls))
	for i, j := range perm {
		sh[i] = calls[j]
	}
	calls = sh
	// merge some neighbouring adds into batches
	var merged []linCall
	for i := 0; i < len(calls); i++ {
		cl := calls[i]
		if cl.kind == linAdd && r.Chance(1, 4) {
			for j := i + 1; j < len(calls) && j < i+4 && calls[j].kind == linAdd; j++ {
				cl.refs = append(cl.refs, calls[j].refs...)
				i = j
			}
		}
		merged = append(merged, cl)
	}
	calls = merged
	plans := make([][]linCall, in.Workers)
	for i, cl := range calls {
		plans[i%in.Workers] = append(plans[i%in.Workers], cl)
	}

	var clock int64
	var mu sync.Mutex
	record := func(client, si int, input linIn, call int64, out int, ret int64) {
		mu.Lock()
		slots[si].ops = append(slots[si].ops, porcupine.Operation{ClientId: client, Input: input, Call: call, Output: out, Return: ret})
		mu.Unlock()
	}
	addOut := func(err error) int {
		switch errClass(err) {
		case "ok":
			return outOK
		case "known":
			return outKnown
		case "replace_underpriced":
			return outReplaceUnderpriced
		}
		c.Count("lin_unexpected_add_error_" + errClass(err))
		return outOther
	}
	exec := func(client int, cl linCall) {
		switch cl.kind {
		case linAdd:
			txs := make([]*types.Transaction, len(cl.refs))
			for i, ref := range cl.refs {
				txs[i] = slots[ref[0]].cands[ref[1]]
			}
			var errs []error
			call := atomic.AddInt64(&clock, 1)
			switch {
			case len(txs) == 1 && cl.local:
				errs = []error{u.pool.AddLocal(txs[0])}
			case len(txs) == 1:
				errs = []error{u.pool.AddRemote(txs[0])}
			case cl.local:
				errs = u.pool.AddLocals(txs)
			default:
				errs = u.pool.AddRemotes(txs)
			}
			ret := atomic.AddInt64(&clock, 1)
			for i, ref := range cl.refs {
				record(client, ref[0], linIn{linAdd, ref[1]}, call, addOut(errs[i]), ret)
			}
			c.CountN("lin_add_operations", len(txs))
		case linGet:
			ref := cl.refs[0]
			h := slots[ref[0]].cands[ref[1]].Hash()
			call := atomic.AddInt64(&clock, 1)
			tx := u.pool.Get(h)
			ret := atomic.AddInt64(&clock, 1)
			out := outAbsent
			if tx != nil {
				out = outPresent
			}
			record(client, ref[0], linIn{linGet, ref[1]}, call, out, ret)
			c.Count("lin_read_operations")
		case linStatus:
			ref := cl.refs[0]
			h := slots[ref[0]].cands[ref[1]].Hash()
			call := atomic.AddInt64(&clock, 1)
			st := u.pool.Status([]common.Hash{h})
			ret := atomic.AddInt64(&clock, 1)
			out := outAbsent
			if st[0] != core.TxStatusUnknown {
				out = outPresent
			}
			record(client, ref[0], linIn{linStatus, ref[1]}, call, out, ret)
			c.Count("lin_read_operations")
		}
	}

	var blocks []*types.Block
	if in.HeadEvents {
		p := u.head
		for i := 0; i < 3; i++ {
			b := u.buildBlock(p, blockPlan{extra: []byte{0x11, byte(i)}})
			blocks = append(blocks, b.Block)
			p = b.Block
		}
	}
	start := make(chan struct{})
	var wg sync.WaitGroup
	for w := range plans {
		wg.Add(1)
		go func(w int) {
			defer wg.Done()
			<-start
			for _, cl := range plans[w] {
				exec(w, cl)
			}
		}(w)
	}
	wg.Add(1)
	go func() {
		defer wg.Done()
		<-start
		for _, b := range blocks {
			for i := 0; i < 50; i++ {
				runtime.Gosched()
			}
			if _, err := u.chain.InsertChain([]*types.Block{b}); err != nil {
				panic(fmt.Sprintf("harness: generated block rejected: %v", err))
			}
		}
	}()
	close(start)
	wg.Wait()
	if len(blocks) > 0 {
		if _, followed := u.waitHead(blocks[len(blocks)-1], true); !followed {
			return
		}
		c.Count("lin_runs_with_concurrent_head_events")
	}
	// final reads of every candidate, sequentially: they pin the final holder
	for si, sl := range slots {
		for ci := range sl.cands {
			exec(in.Workers, linCall{kind: linGet, refs: [][2]int{{si, ci}}})
		}
	}
	final := u.snapshot()
	u.checkInv(final, opCtx{op: "quiescent", before: s0})
	u.checkViews(final)

	order := fnv.New64a()
	for si, sl := range slots {
		prices := make([]*big.Int, len(sl.cands))
		for i, tx := range sl.cands {
			prices[i] = tx.GasPrice()
		}
		model := linModel(prices, bump)
		c.Count("lin_slot_histories_checked")
		c.CountN("lin_slot_operations", len(sl.ops))
		accepted := 0
		for _, op := range sl.ops {
			fmt.Fprintf(order, "%d:%d:%d,", si, op.Call, op.Return)
			if op.Input.(linIn).kind == linAdd && op.Output.(int) == outOK {
				accepted++
			}
		}
		if accepted >= 2 {
			c.Count("lin_slots_with_replacement")
		}
		switch porcupine.CheckOperationsTimeout(model, sl.ops, 2*time.Minute) {
		case porcupine.Ok:
		case porcupine.Unknown:
			c.Inconclusive("linearizability_checker_timeout")
		case porcupine.Illegal:
			// classify: are the add results alone already inconsistent with the
			// register (a replacement without the bump, a lost update), or only the reads?
			var adds []porcupine.Operation
			for _, op := range sl.ops {
				if op.Input.(linIn).kind == linAdd {
					adds = append(adds, op)
				}
			}
			cause := "reads_inconsistent_with_adds"
			if porcupine.CheckOperationsTimeout(model, adds, 2*time.Minute) == porcupine.Illegal {
				cause = "add_results_inconsistent"
			}
			hist := ""
			for _, op := range sl.ops {
				hist += fmt.Sprintf("\n    [%d,%d] client %d %s", op.Call, op.Return, op.ClientId, model.DescribeOperation(op.Input, op.Output))
			}
			holder, where := slotTx(final, sl.from, sl.nonce)
			hs := "nothing"
			if holder != nil {
				hs = txStr(u, holder) + " " + where
			}
			c.Violate("slot_history_not_linearizable", "concurrent_add_get_status", cause, fmt.Sprintf("slot (s%d, nonce %d), PriceBump %d%%, final holder %s: no linearization of%s", u.keyIdx[sl.from], sl.nonce, bump, hs, hist))
		}
	}
	c.Nontrivial(fmt.Sprintf("lin %x", order.Sum64()))
	if c.WantSample() {
		sl := slots[0]
		var ops []string
		m := linModel(func() []*big.Int {
			p := make([]*big.Int, len(sl.cands))
			for i, tx := range sl.cands {
				p[i] = tx.GasPrice()
			}
			return p
		}(), bump)
		for i, op := range sl.ops {
			if i >= 12 {
				break
			}
			ops = append(ops, fmt.Sprintf("[%d,%d] client %d %s", op.Call, op.Return, op.ClientId, m.DescribeOperation(op.Input, op.Output)))
		}
		c.Sample(map[string]interface{}{"case": id, "gomaxprocs": in.Procs, "workers": in.Workers, "slots": len(slots), "price_bump": bump, "first_slot_history_prefix": ops})
	}
}
