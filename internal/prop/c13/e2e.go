package c13

import (
	"context"
	"fmt"
	"strings"

	"gitlab.com/aquachain/aquachain/aquadb"
	"gitlab.com/aquachain/aquachain/common"
	"gitlab.com/aquachain/aquachain/consensus/aquahash"
	"gitlab.com/aquachain/aquachain/core"
	"gitlab.com/aquachain/aquachain/core/types"
	"gitlab.com/aquachain/aquachain/core/vm"
	"gitlab.com/aquachain/aquachain/params"
	"verif/internal/fw"
	"verif/internal/ref/refdiff"
)

// End to end: a real BlockChain on the test schedule (forks at heights 1..7),
// blocks built by the node's own generator, one fault per inserted segment;
// InsertChain / InsertHeaderChain must fail exactly at the index where the
// reference finds the first broken rule.

type e2eCase struct {
	Kind        string  `json:"kind"` // header | uncle
	N           int     `json:"blocks"`
	Prefix      int     `json:"prefix"` // blocks imported before the judged segment
	FaultAt     int     `json:"fault_at"`
	Mut         string  `json:"mutation,omitempty"`
	Offsets     []int64 `json:"time_offsets"`
	GasLimit    uint64  `json:"genesis_gas_limit"`
	GenesisTs   uint64  `json:"genesis_time"`
	GenDiff     string  `json:"genesis_difficulty"`
	CheckFreq   int     `json:"check_freq"`
	Template    string  `json:"uncle_template,omitempty"`
	TemplateIdx int     `json:"uncle_template_index,omitempty"`
	UncleDist   []int   `json:"uncle_parent_dist,omitempty"`
	Headers     []hspec `json:"headers,omitempty"`
}

func specOf(h *types.Header) hspec {
	return hspec{Number: h.Number.String(), Time: h.Time.String(), Diff: h.Difficulty.String(), GasLimit: h.GasLimit, GasUsed: h.GasUsed, Extra: len(h.Extra)}
}

func applySpec(h *types.Header, s hspec) {
	h.Number, h.Time, h.Difficulty = bigs(s.Number), bigs(s.Time), bigs(s.Diff)
	h.GasLimit, h.GasUsed = s.GasLimit, s.GasUsed
	if len(h.Extra) != s.Extra {
		h.Extra = make([]byte, s.Extra)
	}
}

type e2eEnv struct {
	cfg   *params.ChainConfig
	n     *network
	gspec *core.Genesis
}

func (ec *e2eCase) env() *e2eEnv {
	cfg := params.TestChainConfig
	return &e2eEnv{cfg: cfg, n: netByName("test"),
		gspec: &core.Genesis{Config: cfg, GasLimit: ec.GasLimit, Timestamp: ec.GenesisTs, Difficulty: bigs(ec.GenDiff)}}
}

// generate builds ec.N blocks; uncles maps block index -> uncle headers.
func (ec *e2eCase) generate(env *e2eEnv, uncles map[int][]*types.Header) (*types.Block, []*types.Block) {
	db := aquadb.NewMemDatabase()
	genesis := env.gspec.MustCommit(db)
	blocks, _ := core.GenerateChain(context.Background(), env.cfg, genesis, aquahash.NewFaker(), db, ec.N, func(i int, b *core.BlockGen) {
		b.SetCoinbase(common.Address{1})
		if off := ec.Offsets[i]; off != 0 {
			b.OffsetTime(off)
		}
		b.SetExtra(make([]byte, (i*5)%33))
		for _, u := range uncles[i] {
			b.AddUncle(types.CopyHeader(u))
		}
	})
	return genesis, blocks
}

func (env *e2eEnv) newChain() (*core.BlockChain, func()) {
	db := aquadb.NewMemDatabase()
	env.gspec.MustCommit(db)
	chain, err := core.NewBlockChain(context.Background(), db, nil, env.cfg, aquahash.NewFaker(), vm.Config{})
	if err != nil {
		panic(err)
	}
	return chain, chain.Stop
}

var e2eInvalidMuts = []string{"diff+1", "diff-1", "time=parent", "extra=33", "gas=parent+bound", "gas=parent-bound", "gas_used=limit+1", "time=parent-1", "diff=parent"}

func genE2ECase(r *fw.Rand, i int) e2eCase {
	ec := e2eCase{Kind: "header", N: r.Range(3, 14), GasLimit: []uint64{4712388, 8000000, 5120000}[r.Intn(3)],
		GenesisTs: uint64(1500000000 + r.Intn(100000000)), GenDiff: fmt.Sprint(100000 + r.Intn(1<<30)), CheckFreq: r.Range(1, 4)}
	if i%3 == 2 {
		ec.Kind = "uncle"
		ec.N = r.Range(3, 12)
		ec.TemplateIdx = i / 3
	}
	for j := 0; j < ec.N; j++ {
		var off int64
		switch r.Intn(4) {
		case 0:
			off = -int64(r.Range(1, 239))
		case 1:
			off = int64(r.Range(1, 2000))
		}
		ec.Offsets = append(ec.Offsets, off)
	}
	if ec.Kind == "header" {
		ec.Prefix = r.Intn(ec.N)
		ec.FaultAt = -1
		switch i % 6 {
		case 0: // no fault
		case 1: // a change that keeps the header valid
			ec.FaultAt = r.Range(ec.Prefix, ec.N-1)
			ec.Mut = "extra=32"
		default:
			ec.FaultAt = r.Range(ec.Prefix, ec.N-1)
			ec.Mut = e2eInvalidMuts[r.Intn(len(e2eInvalidMuts))]
			if ec.FaultAt == ec.Prefix && r.Chance(1, 4) && ec.Prefix > 0 {
				ec.Mut = []string{"number+2", "number+0"}[r.Intn(2)]
			}
		}
	}
	return ec
}

func runE2E(c *fw.Ctx) {
	total := c.Pick(24, 400)
	if c.Leg == "e2erace" {
		total = c.Pick(9, 80)
	}
	for i := 0; i < total; i++ {
		r := c.Rand("e2e", fmt.Sprint(i))
		ec := genE2ECase(r, i*c.NBatch+c.Batch)
		id := fmt.Sprintf("e2e-%d", i)
		c.Case(id, &ec, func() {
			if ec.Kind == "uncle" {
				checkE2EUncle(c, &ec, r, id)
			} else {
				checkE2EHeader(c, &ec, r, id)
			}
		})
	}
}

// relink replaces header k and re-parents every later block on the new hashes.
func relink(blocks []*types.Block, k int, nh *types.Header) []*types.Block {
	out := append([]*types.Block{}, blocks...)
	out[k] = blocks[k].WithSeal(nh)
	for j := k + 1; j < len(blocks); j++ {
		h := blocks[j].Header()
		h.ParentHash = out[j-1].Hash()
		out[j] = blocks[j].WithSeal(h)
	}
	return out
}

func checkE2EHeader(c *fw.Ctx, ec *e2eCase, r *fw.Rand, id string) {
	env := ec.env()
	genesis, blocks := ec.generate(env, nil)
	specs := make([]hspec, ec.N+1) // specs[j+1] = block j, specs[0] = genesis
	specs[0] = specOf(genesis.Header())
	for j, b := range blocks {
		specs[j+1] = specOf(b.Header())
	}
	if k := ec.FaultAt; k >= 0 {
		var ms hspec
		if ec.Mut == "extra=32" {
			ms = specs[k+1]
			ms.Extra = 32
		} else {
			ms = mutateSide(env.n, specs[k], specs[k+1], ec.Mut, 0)
		}
		specs[k+1] = ms
		nh := blocks[k].Header()
		applySpec(nh, ms)
		nh.Version = env.cfg.GetBlockVersion(nh.Number)
		blocks = relink(blocks, k, nh)
	}
	ec.Headers = specs
	// reference: first broken header of the judged segment
	refFail, why := -1, ""
	for j := ec.Prefix; j < ec.N; j++ {
		if broken := env.n.ref.Check(specs[j].ref(), specs[j+1].ref(), -1); len(broken) > 0 {
			refFail, why = j-ec.Prefix, strings.Join(broken, "+")
			break
		}
	}
	// the generator's own headers (before the fault) must be valid for the reference too
	for j := 0; j < ec.Prefix; j++ {
		if broken := env.n.ref.Check(specs[j].ref(), specs[j+1].ref(), -1); len(broken) > 0 {
			c.Violate("e2e_generated_header_invalid_for_reference", "GenerateChain", strings.Join(broken, "+"),
				fmt.Sprintf("block %d built by the node's generator breaks %v", j+1, broken))
			return
		}
	}

	judge := func(op string, idx int, err error, counter string) {
		c.Count(counter)
		switch {
		case refFail < 0 && err != nil:
			c.Violate("e2e_rejected_but_valid", op, classify(err), fmt.Sprintf("%s failed at %d: %v; the reference finds every header valid", op, idx, err))
		case refFail >= 0 && err == nil:
			c.Violate("e2e_accepted_but_invalid", op, why, fmt.Sprintf("%s imported the segment; the reference finds header %d breaking %s (mutation %s)", op, refFail, why, ec.Mut))
		case refFail >= 0 && idx != refFail:
			c.Violate("e2e_wrong_error_index", op, why, fmt.Sprintf("%s reported index %d (%v); the first invalid header is at %d (%s)", op, idx, err, refFail, why))
		default:
			if refFail >= 0 {
				c.Count(strings.Replace(counter, "_segments", "_fault_index_agrees", 1))
			}
		}
	}

	// full blocks
	{
		chain, stop := env.newChain()
		ok := true
		if ec.Prefix > 0 {
			if idx, err := chain.InsertChain(blocks[:ec.Prefix]); err != nil {
				c.Violate("e2e_rejected_but_valid", "InsertChain", classify(err), fmt.Sprintf("prefix import failed at %d: %v", idx, err))
				ok = false
			}
		}
		if ok {
			idx, err := chain.InsertChain(blocks[ec.Prefix:])
			judge("InsertChain", idx, err, "e2e_insertchain_segments")
		}
		stop()
	}
	// headers only
	{
		chain, stop := env.newChain()
		hs := make([]*types.Header, len(blocks))
		for j, b := range blocks {
			hs[j] = b.Header()
		}
		ok := true
		if ec.Prefix > 0 {
			if idx, err := chain.InsertHeaderChain(hs[:ec.Prefix], ec.CheckFreq); err != nil {
				c.Violate("e2e_rejected_but_valid", "InsertHeaderChain", classify(err), fmt.Sprintf("prefix import failed at %d: %v", idx, err))
				ok = false
			}
		}
		if ok {
			idx, err := chain.InsertHeaderChain(hs[ec.Prefix:], ec.CheckFreq)
			judge("InsertHeaderChain", idx, err, "e2e_insertheaderchain_segments")
		}
		stop()
	}
	if ec.FaultAt >= 0 {
		c.Nontrivial(fmt.Sprintf("%+v", *ec))
	}
	if c.WantSample() && ec.FaultAt >= 0 && ec.N <= 6 {
		c.Sample(map[string]interface{}{"case": id, "input": ec, "reference_first_failure": refFail, "reference_rules": why})
	}
}

// ---------------------------------------------------------------------------
// uncles end to end

var e2eUncleTemplates = []string{"one_valid", "one_valid", "two_valid", "two_valid", "three_valid", "duplicate_in_block", "own_sibling",
	"too_old", "is_ancestor", "bad_field:diff+1", "bad_field:extra=33", "bad_field:time=parent", "included_by_ancestor", "dangling_unknown_parent"}

func checkE2EUncle(c *fw.Ctx, ec *e2eCase, r *fw.Rand, id string) {
	env := ec.env()
	T := ec.N - 1 // index of the block carrying the uncles; its number is T+1
	genesis, plain := ec.generate(env, nil)
	depth := T + 1 // ancestors including the genesis block
	maxd := depth
	if maxd > refdiff.UncleWindow {
		maxd = refdiff.UncleWindow
	}
	// ancestor at distance d (of block index T)
	ancBlock := func(blocks []*types.Block, d int) *types.Block {
		if T-d == -1 {
			return genesis
		}
		return blocks[T-d]
	}
	tmpl := e2eUncleTemplates[ec.TemplateIdx%len(e2eUncleTemplates)]
	if tmpl == "too_old" && depth < 8 {
		tmpl = "own_sibling"
	}
	if (tmpl == "included_by_ancestor") && maxd < 3 {
		tmpl = "one_valid"
	}
	ec.Template = tmpl

	type side struct {
		dist    int
		mut     string
		unknown bool
	}
	var sides []side
	var useAnc int         // > 0: the ancestor at that distance is listed as uncle
	inclBy := 0            // > 0: ancestor at that distance includes side 0
	list := []int{0}       // indexes into sides forming T's uncle list
	pd := r.Range(2, maxd) // a recent parent distance
	switch {
	case tmpl == "one_valid":
		sides = []side{{dist: pd}}
	case tmpl == "two_valid":
		sides = []side{{dist: pd}, {dist: r.Range(2, maxd)}}
		list = []int{0, 1}
	case tmpl == "three_valid":
		sides = []side{{dist: pd}, {dist: r.Range(2, maxd)}, {dist: r.Range(2, maxd)}}
		list = []int{0, 1, 2}
	case tmpl == "duplicate_in_block":
		sides = []side{{dist: pd}}
		list = []int{0, 0}
	case tmpl == "own_sibling":
		sides = []side{{dist: 1}}
	case tmpl == "too_old":
		sides = []side{{dist: 8}}
	case tmpl == "is_ancestor":
		useAnc = r.Range(1, maxd)
		list = nil
	case strings.HasPrefix(tmpl, "bad_field:"):
		sides = []side{{dist: pd, mut: strings.TrimPrefix(tmpl, "bad_field:")}}
	case tmpl == "included_by_ancestor":
		k := r.Range(3, maxd)
		sides = []side{{dist: k}}
		inclBy = r.Range(1, k-2)
	case tmpl == "dangling_unknown_parent":
		sides = []side{{dist: pd, unknown: true}}
	}

	// side headers hang off blocks that no later uncle inclusion changes
	hdrs := make([]*types.Header, len(sides))
	sspec := make([]hspec, len(sides))
	for i, s := range sides {
		p := ancBlock(plain, s.dist)
		ps := specOf(p.Header())
		h := child(env.n, ps, pickDt(r), r.Uint64())
		h = mutateSide(env.n, ps, h, s.mut, 0)
		sspec[i] = h
		ph := p.Hash()
		if s.unknown {
			ph = common.BytesToHash(r.Bytes(32))
		}
		hdrs[i] = h.header(env.cfg, ph)
		ec.UncleDist = append(ec.UncleDist, s.dist)
	}
	// second generation: the ancestor's uncle (valid there by construction)
	unc := map[int][]*types.Header{}
	if inclBy > 0 {
		unc[T-inclBy] = []*types.Header{hdrs[0]}
	}
	_, withAnc := ec.generate(env, unc)

	// reference tree
	nodes := make([]*refdiff.Node, ec.N+1) // nodes[j+1] = block j
	nodes[0] = &refdiff.Node{Hdr: specOf(genesis.Header()).ref()}
	snode := make([]*refdiff.Node, len(sides))
	for i := range sides {
		snode[i] = &refdiff.Node{Hdr: sspec[i].ref()} // parent set once the main nodes exist
	}
	for j := 0; j < ec.N; j++ {
		nodes[j+1] = &refdiff.Node{Parent: nodes[j], Hdr: specOf(withAnc[j].Header()).ref()}
		if inclBy > 0 && j == T-inclBy {
			nodes[j+1].Uncles = []*refdiff.Node{snode[0]}
		}
	}
	for i, s := range sides {
		if !s.unknown {
			snode[i].Parent = nodes[T-s.dist+1]
		}
	}
	var ulist []*types.Header
	for _, li := range list {
		ulist = append(ulist, hdrs[li])
		nodes[T+1].Uncles = append(nodes[T+1].Uncles, snode[li])
	}
	if useAnc > 0 {
		ulist = append(ulist, ancBlock(withAnc, useAnc).Header())
		nodes[T+1].Uncles = append(nodes[T+1].Uncles, nodes[T+1-useAnc])
	}
	broken := env.n.ref.CheckUncles(nodes[T+1])

	var blocks []*types.Block
	if len(broken) == 0 {
		// a valid set: let the generator include it so that the state root accounts for the rewards
		unc[T] = ulist
		_, blocks = ec.generate(env, unc)
	} else {
		// an invalid set never reaches the state transition: swap the body
		blocks = append([]*types.Block{}, withAnc...)
		blocks[T] = types.NewBlock(withAnc[T].Header(), nil, ulist, nil)
	}
	chain, stop := env.newChain()
	defer stop()
	ec.Prefix = r.Intn(ec.N)
	if ec.Prefix > 0 {
		if idx, err := chain.InsertChain(blocks[:ec.Prefix]); err != nil {
			c.Violate("e2e_rejected_but_valid", "InsertChain", classify(err), fmt.Sprintf("prefix import failed at %d: %v", idx, err))
			return
		}
	}
	idx, err := chain.InsertChain(blocks[ec.Prefix:])
	c.Count("e2e_uncle_blocks")
	c.Nontrivial(fmt.Sprintf("%+v %v", *ec, sspec))
	why := strings.Join(broken, "+")
	switch {
	case len(broken) == 0 && err != nil:
		c.Violate("e2e_uncles_rejected_but_valid", "InsertChain", classify(err), fmt.Sprintf("import failed at %d: %v; the reference finds the uncle list (%s) valid", idx, err, tmpl))
	case len(broken) > 0 && err == nil:
		c.Violate("e2e_uncles_accepted_but_invalid", "InsertChain", why, fmt.Sprintf("block %d with uncle list %s imported; the reference finds %s", T+1, tmpl, why))
	case len(broken) > 0 && idx != T-ec.Prefix:
		c.Violate("e2e_wrong_error_index", "InsertChain", why, fmt.Sprintf("reported index %d (%v); the block with the invalid uncle list is at %d", idx, err, T-ec.Prefix))
	case len(broken) > 0:
		c.Count("e2e_uncle_invalid_rejected")
	default:
		c.Count("e2e_uncle_valid_imported")
	}
	if c.WantSample() && ec.N <= 5 {
		c.Sample(map[string]interface{}{"case": id, "input": ec, "uncles": sspec, "reference_broken_rules": broken, "engine": errStr(err)})
	}
}
