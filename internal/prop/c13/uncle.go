package c13

import (
	"fmt"
	"math/big"
	"strings"
	"time"

	"gitlab.com/aquachain/aquachain/common"
	"gitlab.com/aquachain/aquachain/consensus/aquahash"
	"gitlab.com/aquachain/aquachain/core/types"
	"verif/internal/fw"
	"verif/internal/ref/refdiff"
)

// A case is a block tree: a main chain root..A(1) (A(d) = ancestor of the
// candidate block B at distance d), side blocks hanging off it, uncle lists of
// some ancestors, and B with its uncle list.

type sidePlan struct {
	ParentDist    int    `json:"parent_dist"`          // parent = A(ParentDist); 0 when OnSide/UnknownParent
	OnSide        int    `json:"on_side"`              // >= 0: parent is that side block (not an ancestor)
	UnknownParent bool   `json:"unknown_parent"`       // parent hash unknown to the chain
	Mut           string `json:"mutation,omitempty"`   // header field mutation
	Dt            int64  `json:"dt"`                   // block time after its parent
	Spec          *hspec `json:"header,omitempty"`     // filled when built
	PSpec         *hspec `json:"parent_hdr,omitempty"` // the parent's fields (for the reader of a witness)
}

type uref struct {
	Side int `json:"side"` // >= 0: side block index
	Anc  int `json:"anc"`  // > 0: the ancestor at that distance is listed as uncle
}

type uncleCase struct {
	Net       string        `json:"net"`
	Height    uint64        `json:"height"` // number of B
	Template  string        `json:"template"`
	Depth     int           `json:"ancestors"`
	Sides     []sidePlan    `json:"sides"`
	AncIncl   map[int][]int `json:"ancestor_uncles,omitempty"` // ancestor distance -> side indexes it includes
	BUncles   []uref        `json:"block_uncles"`
	SealFail  uint64        `json:"seal_fails_at_height,omitempty"`
	Class     string        `json:"class,omitempty"`
	ObserveOn bool          `json:"observe_only,omitempty"` // outcome recorded, not judged
	Now       int64         `json:"now,omitempty"`
	Root      *hspec        `json:"root,omitempty"`
}

type uncleTemplate struct {
	Name     string
	Count    string // observation class
	MinDepth int
	plan     func(uc *uncleCase, r *fw.Rand, depth int)
}

func validDist(r *fw.Rand, depth int) int {
	hi := depth
	if hi > refdiff.UncleWindow {
		hi = refdiff.UncleWindow
	}
	return r.Range(2, hi)
}

func oneValidAt(gen int) uncleTemplate {
	cls := "uncle:one_valid"
	return uncleTemplate{Name: fmt.Sprintf("one_valid_generation_%d", gen), Count: cls, MinDepth: gen + 1,
		plan: func(uc *uncleCase, r *fw.Rand, depth int) {
			uc.Sides = []sidePlan{{ParentDist: gen + 1, OnSide: -1}}
			uc.BUncles = []uref{{Side: 0}}
		}}
}

var badFieldMuts = []string{"diff+1", "diff-1", "time=parent", "time=parent-1", "extra=33", "gas=parent+bound", "gas=parent-bound", "gas_used=limit+1", "number+2", "number+0", "diff=parent"}

var uncleTemplates = func() []uncleTemplate {
	t := []uncleTemplate{
		{Name: "none", Count: "uncle:none", MinDepth: 1, plan: func(uc *uncleCase, r *fw.Rand, depth int) {}},
	}
	for g := 1; g <= 6; g++ {
		t = append(t, oneValidAt(g))
	}
	t = append(t,
		uncleTemplate{Name: "generation_6_boundary", Count: "uncle:generation_6_boundary", MinDepth: 7, plan: func(uc *uncleCase, r *fw.Rand, depth int) {
			uc.Sides = []sidePlan{{ParentDist: 7, OnSide: -1}}
			uc.BUncles = []uref{{Side: 0}}
		}},
		uncleTemplate{Name: "too_old_generation_7", Count: "uncle:too_old", MinDepth: 8, plan: func(uc *uncleCase, r *fw.Rand, depth int) {
			uc.Sides = []sidePlan{{ParentDist: 8, OnSide: -1}}
			uc.BUncles = []uref{{Side: 0}}
		}},
		uncleTemplate{Name: "too_old_generation_8", Count: "uncle:too_old", MinDepth: 9, plan: func(uc *uncleCase, r *fw.Rand, depth int) {
			uc.Sides = []sidePlan{{ParentDist: 9, OnSide: -1}}
			uc.BUncles = []uref{{Side: 0}}
		}},
		uncleTemplate{Name: "own_sibling", Count: "uncle:own_sibling", MinDepth: 1, plan: func(uc *uncleCase, r *fw.Rand, depth int) {
			uc.Sides = []sidePlan{{ParentDist: 1, OnSide: -1}}
			uc.BUncles = []uref{{Side: 0}}
		}},
		uncleTemplate{Name: "two_valid", Count: "uncle:two_valid", MinDepth: 2, plan: func(uc *uncleCase, r *fw.Rand, depth int) {
			uc.Sides = []sidePlan{{ParentDist: validDist(r, depth), OnSide: -1}, {ParentDist: validDist(r, depth), OnSide: -1}}
			uc.BUncles = []uref{{Side: 0}, {Side: 1}}
		}},
		uncleTemplate{Name: "three_valid", Count: "uncle:three", MinDepth: 2, plan: func(uc *uncleCase, r *fw.Rand, depth int) {
			uc.Sides = []sidePlan{{ParentDist: validDist(r, depth), OnSide: -1}, {ParentDist: validDist(r, depth), OnSide: -1}, {ParentDist: validDist(r, depth), OnSide: -1}}
			uc.BUncles = []uref{{Side: 0}, {Side: 1}, {Side: 2}}
		}},
		uncleTemplate{Name: "duplicate_in_block", Count: "uncle:duplicate_in_block", MinDepth: 2, plan: func(uc *uncleCase, r *fw.Rand, depth int) {
			uc.Sides = []sidePlan{{ParentDist: validDist(r, depth), OnSide: -1}}
			uc.BUncles = []uref{{Side: 0}, {Side: 0}}
		}},
		uncleTemplate{Name: "included_by_ancestor", Count: "uncle:included_by_ancestor", MinDepth: 3, plan: func(uc *uncleCase, r *fw.Rand, depth int) {
			hi := depth
			if hi > refdiff.UncleWindow {
				hi = refdiff.UncleWindow
			}
			k := r.Range(3, hi)
			uc.Sides = []sidePlan{{ParentDist: k, OnSide: -1}}
			uc.AncIncl = map[int][]int{r.Range(1, k-2): {0}}
			uc.BUncles = []uref{{Side: 0}}
		}},
		uncleTemplate{Name: "other_uncle_included_by_ancestor", Count: "uncle:one_valid", MinDepth: 3, plan: func(uc *uncleCase, r *fw.Rand, depth int) {
			hi := depth
			if hi > refdiff.UncleWindow {
				hi = refdiff.UncleWindow
			}
			k := r.Range(3, hi)
			uc.Sides = []sidePlan{{ParentDist: k, OnSide: -1}, {ParentDist: k, OnSide: -1}}
			uc.AncIncl = map[int][]int{r.Range(1, k-2): {1}}
			uc.BUncles = []uref{{Side: 0}}
		}},
		uncleTemplate{Name: "is_ancestor", Count: "uncle:is_ancestor", MinDepth: 1, plan: func(uc *uncleCase, r *fw.Rand, depth int) {
			hi := depth
			if hi > refdiff.UncleWindow {
				hi = refdiff.UncleWindow
			}
			uc.BUncles = []uref{{Side: -1, Anc: r.Range(1, hi)}}
		}},
		uncleTemplate{Name: "dangling_unknown_parent", Count: "uncle:dangling", MinDepth: 2, plan: func(uc *uncleCase, r *fw.Rand, depth int) {
			uc.Sides = []sidePlan{{ParentDist: validDist(r, depth), OnSide: -1, UnknownParent: true}}
			uc.BUncles = []uref{{Side: 0}}
		}},
		uncleTemplate{Name: "dangling_parent_on_side_branch", Count: "uncle:dangling", MinDepth: 3, plan: func(uc *uncleCase, r *fw.Rand, depth int) {
			hi := depth
			if hi > refdiff.UncleWindow {
				hi = refdiff.UncleWindow
			}
			uc.Sides = []sidePlan{{ParentDist: r.Range(3, hi), OnSide: -1}, {OnSide: 0}}
			uc.BUncles = []uref{{Side: 1}}
		}},
		uncleTemplate{Name: "bad_seal", Count: "uncle:bad_seal", MinDepth: 2, plan: func(uc *uncleCase, r *fw.Rand, depth int) {
			k := validDist(r, depth)
			uc.Sides = []sidePlan{{ParentDist: k, OnSide: -1}}
			uc.BUncles = []uref{{Side: 0}}
			uc.SealFail = uc.Height - uint64(k) + 1
		}},
		uncleTemplate{Name: "valid_and_invalid", Count: "uncle:bad_field", MinDepth: 2, plan: func(uc *uncleCase, r *fw.Rand, depth int) {
			uc.Sides = []sidePlan{{ParentDist: validDist(r, depth), OnSide: -1}, {ParentDist: validDist(r, depth), OnSide: -1, Mut: badFieldMuts[r.Intn(len(badFieldMuts))]}}
			uc.BUncles = []uref{{Side: 0}, {Side: 1}}
			if r.Bool() {
				uc.BUncles = []uref{{Side: 1}, {Side: 0}}
			}
		}},
		// uncle timestamps beyond 64 bits (the header field is an unbounded integer)
		uncleTemplate{Name: "time_above_2^64_difficulty_of_truncated_time", Count: "uncle:time_above_2^64", MinDepth: 2, plan: func(uc *uncleCase, r *fw.Rand, depth int) {
			uc.Sides = []sidePlan{{ParentDist: validDist(r, depth), OnSide: -1, Mut: "time+2^64,diff_of_truncated_time"}}
			uc.BUncles = []uref{{Side: 0}}
			uc.Class = "time_above_2^64"
		}},
		uncleTemplate{Name: "time_above_2^64_difficulty_of_true_time", Count: "uncle:time_above_2^64_observed", MinDepth: 2, plan: func(uc *uncleCase, r *fw.Rand, depth int) {
			uc.Sides = []sidePlan{{ParentDist: validDist(r, depth), OnSide: -1, Mut: "time+2^64"}}
			uc.BUncles = []uref{{Side: 0}}
			uc.ObserveOn = true
		}},
		uncleTemplate{Name: "future_time", Count: "uncle:future_time_observed", MinDepth: 2, plan: func(uc *uncleCase, r *fw.Rand, depth int) {
			uc.Sides = []sidePlan{{ParentDist: validDist(r, depth), OnSide: -1, Mut: "time=now+1000"}}
			uc.BUncles = []uref{{Side: 0}}
			uc.ObserveOn = true
		}},
	)
	for _, m := range badFieldMuts {
		m := m
		t = append(t, uncleTemplate{Name: "bad_field:" + m, Count: "uncle:bad_field", MinDepth: 2, plan: func(uc *uncleCase, r *fw.Rand, depth int) {
			uc.Sides = []sidePlan{{ParentDist: validDist(r, depth), OnSide: -1, Mut: m}}
			uc.BUncles = []uref{{Side: 0}}
		}})
	}
	return t
}()

func mutateSide(n *network, p, h hspec, mut string, now int64) hspec {
	pr := p.ref()
	switch mut {
	case "":
	case "diff+1":
		h.Diff = addBig(h.Diff, 1)
	case "diff-1":
		h.Diff = addBig(h.Diff, -1)
	case "diff=parent":
		h.Diff = p.Diff
	case "time=parent":
		h.Time = p.Time
	case "time=parent-1":
		h.Time = addBig(p.Time, -1)
	case "extra=33":
		h.Extra = 33
	case "gas=parent+bound":
		h.GasLimit = p.GasLimit + p.GasLimit/1024
	case "gas=parent-bound":
		h.GasLimit = p.GasLimit - p.GasLimit/1024
	case "gas_used=limit+1":
		h.GasUsed = h.GasLimit + 1
	case "number+2":
		h.Number = addBig(p.Number, 2)
	case "number+0":
		h.Number = p.Number
	case "time+2^64,diff_of_truncated_time":
		// difficulty stays the one of the 64-bit-truncated timestamp
		h.Time = new(big.Int).Add(bigs(h.Time), two64).String()
	case "time+2^64":
		t := new(big.Int).Add(bigs(h.Time), two64)
		h.Time = t.String()
		h.Diff = n.ref.Expected(t, pr).String()
	case "time=now+1000":
		t := big.NewInt(now + 1000)
		h.Time = t.String()
		h.Diff = n.ref.Expected(t, pr).String()
	default:
		panic("unknown side mutation " + mut)
	}
	return h
}

type builtTree struct {
	fc     *fakeChain
	block  *types.Block
	node   *refdiff.Node
	nUncle int
}

// build materialises the case: real blocks in a fake chain and reference nodes.
func (uc *uncleCase) build(n *network, r *fw.Rand) *builtTree {
	fc := newFakeChain(n.cfg, false)
	depth := uc.Depth
	rootH := uc.Height - uint64(depth)
	root := hspec{Number: u64s(rootH), Time: fmt.Sprint(1500000000 + int64(r.Intn(100000000))),
		GasLimit: []uint64{4712388, 8000000, 5120000}[r.Intn(3)], Salt: r.Uint64()}
	par := n.ref.ParamsAt(new(big.Int).SetUint64(rootH + 1))
	pds := parentDiffs(par, r)
	root.Diff = pds[r.Intn(6)].String()
	uc.Root = &root

	type realSide struct {
		hdr  *types.Header
		node *refdiff.Node
	}
	sides := make([]*realSide, len(uc.Sides))
	mainSpec := make([]hspec, depth+1) // index by distance d: mainSpec[d] = A(d); built from d=depth down to 1
	mainNode := make([]*refdiff.Node, depth+1)
	mainBlock := make([]*types.Block, depth+1)
	mainHash := make([]common.Hash, depth+1)

	buildSide := func(i int, pspec hspec, phash common.Hash, pnode *refdiff.Node) {
		sp := &uc.Sides[i]
		if sp.Dt == 0 {
			sp.Dt = pickDt(r)
		}
		h := child(n, pspec, sp.Dt, r.Uint64()|1<<63)
		h = mutateSide(n, pspec, h, sp.Mut, uc.Now)
		ps := pspec
		sp.Spec, sp.PSpec = &h, &ps
		if sp.UnknownParent {
			phash = common.BytesToHash(r.Bytes(32))
			pnode = nil
		}
		sides[i] = &realSide{hdr: h.header(n.cfg, phash), node: &refdiff.Node{Parent: pnode, Hdr: h.ref()}}
		if uc.SealFail != 0 && bigs(h.Number).IsUint64() && bigs(h.Number).Uint64() == uc.SealFail {
			sides[i].node.SealBad = true
		}
	}
	// sides whose parent is another side block are built once that one exists
	buildDependents := func() {
		for progress := true; progress; {
			progress = false
			for i := range uc.Sides {
				sp := uc.Sides[i]
				if sides[i] == nil && sp.OnSide >= 0 && sides[sp.OnSide] != nil {
					buildSide(i, *uc.Sides[sp.OnSide].Spec, sides[sp.OnSide].hdr.Hash(), sides[sp.OnSide].node)
					progress = true
				}
			}
		}
	}

	for d := depth; d >= 1; d-- {
		var spec hspec
		var phash common.Hash
		var pnode *refdiff.Node
		if d == depth {
			spec = root
			phash = common.BytesToHash(r.Bytes(32)) // the root's parent is not known to the chain
		} else {
			spec = child(n, mainSpec[d+1], pickDt(r), r.Uint64()&^(1<<63))
			phash, pnode = mainHash[d+1], mainNode[d+1]
		}
		var uh []*types.Header
		var un []*refdiff.Node
		for _, si := range uc.AncIncl[d] {
			uh = append(uh, sides[si].hdr)
			un = append(un, sides[si].node)
		}
		blk := types.NewBlock(spec.header(n.cfg, phash), nil, uh, nil)
		mainSpec[d], mainBlock[d] = spec, blk
		mainHash[d] = fc.addBlock(blk)
		mainNode[d] = &refdiff.Node{Parent: pnode, Hdr: spec.ref(), Uncles: un}
		for i := range uc.Sides {
			sp := uc.Sides[i]
			if sp.OnSide < 0 && sp.ParentDist == d {
				buildSide(i, spec, mainHash[d], mainNode[d])
			}
		}
		buildDependents()
	}

	bspec := child(n, mainSpec[1], pickDt(r), r.Uint64()&^(1<<63))
	var uh []*types.Header
	var un []*refdiff.Node
	for _, u := range uc.BUncles {
		if u.Side >= 0 {
			uh = append(uh, sides[u.Side].hdr)
			un = append(un, sides[u.Side].node)
		} else {
			uh = append(uh, mainBlock[u.Anc].Header())
			un = append(un, mainNode[u.Anc])
		}
	}
	blk := types.NewBlock(bspec.header(n.cfg, mainHash[1]), nil, uh, nil)
	node := &refdiff.Node{Parent: mainNode[1], Hdr: bspec.ref(), Uncles: un}
	return &builtTree{fc: fc, block: blk, node: node, nUncle: len(uh)}
}

// uncleHeights: B's heights for a schedule: around every fork (HF5 matters for
// the count rule) and mid-epoch, at least 3 so that a valid uncle can exist.
func uncleHeights(n *network) []uint64 {
	var out []uint64
	for _, hp := range heightsOf(n) {
		if hp.H >= 3 {
			out = append(out, hp.H)
		}
	}
	return out
}

type uncleItem struct {
	n *network
	h uint64
	t int
}

func uncleForced() []uncleItem {
	var out []uncleItem
	for _, n := range nets() {
		for _, h := range uncleHeights(n) {
			for t := range uncleTemplates {
				depth := int(h)
				if depth > 10 {
					depth = 10
				}
				if uncleTemplates[t].MinDepth <= depth {
					out = append(out, uncleItem{n, h, t})
				}
			}
		}
	}
	return out
}

func runUncle(c *fw.Ctx) {
	forced := uncleForced()
	total := c.Pick(300, 8000) // per batch; x16
	for i := 0; i < total; i++ {
		r := c.Rand("uncle", fmt.Sprint(i))
		it := forced[(i*c.NBatch+c.Batch)%len(forced)]
		depth := int(it.h)
		if depth > 10 {
			depth = 10
		}
		if it.h > 10 && r.Chance(1, 4) {
			depth = r.Range(uncleTemplates[it.t].MinDepth, 10)
		}
		uc := uncleCase{Net: it.n.ref.Name, Height: it.h, Template: uncleTemplates[it.t].Name, Depth: depth, Now: time.Now().Unix()}
		uncleTemplates[it.t].plan(&uc, r, depth)
		id := fmt.Sprintf("uncle-%d", i)
		// the tree is built before logging so that the witness carries every header
		var bt *builtTree
		func() {
			defer func() {
				if e := recover(); e != nil {
					panic(fmt.Sprintf("harness: building %s: %v", uc.Template, e))
				}
			}()
			bt = uc.build(it.n, r)
		}()
		c.Case(id, uc, func() { checkUncles(c, it.n, &uc, bt, uncleTemplates[it.t], id) })
	}
}

func checkUncles(c *fw.Ctx, n *network, uc *uncleCase, bt *builtTree, t uncleTemplate, id string) {
	eng := aquahash.NewFaker()
	if uc.SealFail != 0 {
		eng = aquahash.NewFakeFailer(uc.SealFail)
	}
	broken := n.ref.CheckUncles(bt.node)
	err := eng.VerifyUncles(bt.fc, bt.block)
	class := classify(err)
	c.Count("uncle_sets")
	cls := t.Count
	if t.Name == "two_valid" {
		if n.ref.MaxUncles(new(big.Int).SetUint64(uc.Height)) == 1 {
			cls = "uncle:two_valid_from_hf5"
		} else {
			cls = "uncle:two_valid_pre_hf5"
		}
	}
	c.Count(cls)
	c.Count("net:" + n.ref.Name)
	if bt.nUncle > 0 {
		c.Nontrivial(fmt.Sprintf("%+v", *uc))
	}
	if uc.ObserveOn {
		if err == nil {
			c.Count(strings.TrimSuffix(cls, "_observed") + "_accepted")
		} else {
			c.Count(strings.TrimSuffix(cls, "_observed") + "_rejected:" + class)
		}
		return
	}
	cause := strings.Join(broken, "+")
	if uc.Class != "" {
		cause += ":" + uc.Class
	}
	switch {
	case err == nil && len(broken) > 0:
		c.Violate("uncles_accepted_but_invalid", "VerifyUncles", cause,
			fmt.Sprintf("engine accepted an uncle list that breaks %v (template %s, net %s, block %d)", broken, uc.Template, uc.Net, uc.Height))
	case err != nil && len(broken) == 0:
		c.Violate("uncles_rejected_but_valid", "VerifyUncles", class,
			fmt.Sprintf("engine rejected a valid uncle list: %v (template %s, net %s, block %d)", err, uc.Template, uc.Net, uc.Height))
	case err == nil:
		c.Count("uncle_valid_accepted")
	default:
		c.Count("uncle_invalid_rejected")
	}
	if c.WantSample() && len(broken) > 0 && uc.Depth <= 5 {
		c.Sample(map[string]interface{}{"case": id, "input": uc, "reference_broken_rules": broken, "engine": errStr(err)})
	}
}
