// Package c13: headers and uncles are accepted iff they satisfy the consensus
// rules, and batch verification agrees with one-by-one verification.
//
// Monitor: internal/ref/refdiff is the reference (fork table, difficulty
// parameters per fork, header predicate, uncle predicate over an abstract
// tree). Generated parents/candidates sit on every rule's boundary at every
// fork height of every schedule; the real aquahash engine (fake seal only)
// verifies them through a fake consensus.ChainReader and its verdict must be
// "accept" exactly when the reference finds no broken rule. Uncle sets are
// drawn from generated block trees. Batches with injected faults run through
// VerifyHeaders under the race detector with 6 worker counts and perturbed
// worker schedules and must report the first failure where one-by-one
// verification does. The same is observed end to end at InsertChain /
// InsertHeaderChain of a real BlockChain.
package c13

import (
	"context"
	"fmt"
	"math/big"
	"os"
	"strings"
	"sync"
	"time"

	"gitlab.com/aquachain/aquachain/common"
	"gitlab.com/aquachain/aquachain/common/log"
	"gitlab.com/aquachain/aquachain/consensus"
	"gitlab.com/aquachain/aquachain/core/types"
	"gitlab.com/aquachain/aquachain/params"
	"verif/internal/fw"
	"verif/internal/ref/refdiff"
)

func init() {
	fw.Register(&fw.Prop{
		ID:    "C13",
		Title: "Headers and uncles are accepted iff they satisfy the consensus rules",
		Level: "exploration",
		Rule: "hdr: for every schedule (mainnet, testnet, test; testnet2 and mainnet+HF8-flag as extra configurations) and every height fork-1/fork/fork+1 of every fork plus mid-epoch heights, a synthetic parent " +
			"(difficulty and gas limit from boundary lattices) and a candidate that is valid except for 0-2 mutations, each placing one field at, just inside or just outside its bound " +
			"(number +0/+1/+2/+2^64, time parent-1/parent/parent+1 and now-20/+5/+90/+3600, extra 31/32/33, gas limit parent+-(parent/1024)-1/+0/+1 and 4999/5000 and 2^63-1/2^63, gas used limit/limit+1, difficulty expected+-1/minimum-1/formula-instead-of-reset); " +
			"diff: aquahash.CalcDifficulty against the reference over (height, block time, parent difficulty) lattices; " +
			"uncle: block trees with 1-9 ancestors and side blocks, 22 uncle-set templates (valid at each generation 1-6, own sibling, too old, 2/3 uncles around HF5, duplicate, included by an ancestor, is an ancestor, dangling, bad header field, bad seal); " +
			"batch: header batches of 1-300 with 0-3 injected faults (positions 0, 1, last, random; rule faults, unknown parent, broken link, failing seal, known prefix), each run under GOMAXPROCS 1,2,3,4,8,16 with delaying reader / delaying seal, compared with one-by-one verification and the reference; " +
			"e2e: real BlockChain on the test schedule, one mutated header or uncle set per inserted segment, InsertChain / InsertHeaderChain error index against the reference. " +
			"A case is non-trivial when at least one field sits on a bound (any mutation), an uncle list is non-empty, or a batch holds a fault or >= 2 headers; distinct = hash of the full case input.",
		Legs: func(tier string) []fw.Leg {
			// children are CPU-bound (the race-built batch leg needs ~45 CPU-seconds per
			// child in the quick tier); on a heavily shared machine that can be tens of
			// minutes of wall clock, so the watchdog is far beyond the default. Its
			// firing is only ever "inconclusive".
			to := 3 * time.Hour
			if tier == "thorough" {
				to = 8 * time.Hour
			}
			legs := []fw.Leg{
				{Name: "hdr", Variant: "plain", Batches: 16, Timeout: to},
				{Name: "diff", Variant: "plain", Batches: 4, Timeout: to},
				{Name: "uncle", Variant: "plain", Batches: 16, Timeout: to},
				{Name: "batch", Variant: "race", Batches: 16, Timeout: to},
				{Name: "e2e", Variant: "plain", Batches: 8, Timeout: to},
				{Name: "e2erace", Variant: "race", Batches: 2, Timeout: to},
				// one hazardous template per child, each in a process of its own
				{Name: "hazard", Variant: "plain", Batches: len(hazards), Timeout: to},
			}
			return legs
		},
		Run:  run,
		Gate: gate,
		AnchorFiles: []string{"/consensus/aquahash/", "/consensus/consensus.go", "/core/headerchain.go",
			"/core/block_validator.go", "/params/config.go", "/params/hf.go"},
		Assumptions: []string{
			"reference = internal/ref/refdiff: rule list of the property text; gas-limit bound and uncle kinship as in the yellow paper (|limit-parent| < floor(parent/1024); an uncle's parent is an ancestor of the including block at distance 2..7, the block's own sibling is not an uncle); pre-HF2 adjustment = the EIP-2 formula without a bomb term",
			"the post-HF2 adjustment formula (parent +/- parent/divisor, up iff block time < duration limit, then clamped to the active minimum) is documented only in the code; the reference encodes that shape once and takes every number (divisors 2048/16/128/1024, minimums 99999999/100001792/30959185800/46039386, limits 240/180, fork-block resets at HF1/HF3/HF5/HF8, fork heights) from the parameter documentation as a data table; self-tested against the vectors of consensus/aquahash/consensus_test.go",
			"off the main network the pre-HF2 formula has no minimum (pinned from the code comment 'testnet no minimum'); this is unreachable on the mainnet, testnet and test schedules and only met on testnet2 (no HF1/HF2), where headers below the HF5 minimum are counted as an observation (testnet2_below_hf5_minimum), not judged",
			"the 15 s clock rule is judged for headers only, at now-20 s/now+5 s (must pass) and now+90 s/now+3600 s (must be rejected), never nearer the boundary; for uncle headers the node applies no clock rule (as go-ethereum) and the check only records what happened (uncle_future_time_*)",
			"a proof-of-work seal is represented by the engine's fake mode (accept all but one chosen height); the seal predicate itself is C14",
			"one-by-one verification of a batch = Engine.VerifyHeader of each header against a chain that already holds the headers before it; batches are hash-linked except for the explicit unknown-parent / broken-link faults, which point at a hash unknown to the chain",
			"fork heights of custom networks other than the built-in schedules are not explored",
		},
	})
}

func gate(tier string) map[string]int {
	return map[string]int{
		// hdr
		"hdr_valid_accepted": 500, "hdr_invalid_rejected": 2000,
		"inside:number": 50, "outside:number": 100,
		"inside:time": 50, "outside:time_not_later": 100,
		"inside:time_future": 50, "outside:time_future": 50,
		"inside:extra": 50, "outside:extra": 50,
		"inside:gas_delta": 100, "outside:gas_delta": 100,
		"inside:gas_min": 30, "outside:gas_min": 30,
		"inside:gas_cap": 30, "outside:gas_cap": 30,
		"inside:gas_used": 50, "outside:gas_used": 50,
		"outside:difficulty": 300, "fork_reset_block": 100,
		"height:fork-1": 300, "height:fork": 300, "height:fork+1": 300,
		"net:mainnet": 500, "net:testnet": 500, "net:test": 500, "net:testnet2": 100, "net:mainnet-hf8flag": 100,
		"reader:strict": 500, "reader:lax": 500,
		// diff
		"diff_compared": 20000, "diff_algo:homestead": 1000, "diff_algo:simple": 5000, "diff_reset": 500, "diff_minimum_clamped": 500,
		// uncle
		"uncle_sets": 1000, "uncle_valid_accepted": 200, "uncle_invalid_rejected": 500,
		"uncle:one_valid": 100, "uncle:two_valid_pre_hf5": 20, "uncle:two_valid_from_hf5": 20, "uncle:three": 20,
		"uncle:generation_6_boundary": 20, "uncle:too_old": 20, "uncle:own_sibling": 20, "uncle:duplicate_in_block": 20,
		"uncle:included_by_ancestor": 20, "uncle:is_ancestor": 20, "uncle:dangling": 20, "uncle:bad_field": 100, "uncle:bad_seal": 20,
		// batch
		"batch_runs": 600, "batch_all_valid": 50, "batch_fault_at_0": 20, "batch_fault_at_1": 20, "batch_fault_at_last": 20,
		"batch_fault_random_pos": 20, "batch_unknown_parent": 10, "batch_broken_link": 20, "batch_seal_fault": 20,
		"batch_known_prefix": 20, "batch_len_1": 10, "batch_len_ge_100": 10, "batch_multi_fault": 20,
		"batch_first_failure_agrees": 300,
		"gomaxprocs:1":               50, "gomaxprocs:2": 50, "gomaxprocs:3": 50, "gomaxprocs:4": 50, "gomaxprocs:8": 50, "gomaxprocs:16": 50,
		// hazard
		"hazard_cases": 7,
		// e2e
		"e2e_insertchain_segments": 60, "e2e_insertchain_fault_index_agrees": 30, "e2e_insertheaderchain_segments": 30,
		"e2e_uncle_blocks": 20, "e2e_uncle_invalid_rejected": 10,
	}
}

func run(c *fw.Ctx) {
	log.Root().SetHandler(log.DiscardHandler())
	if err := refdiff.SelfTest(); err != nil {
		// a reference that cannot reproduce the node's own vectors must not judge
		fmt.Fprintln(os.Stderr, "C13:", err)
		os.Exit(2)
	}
	switch c.Leg {
	case "hdr":
		runHdr(c)
	case "diff":
		runDiff(c)
	case "uncle":
		runUncle(c)
	case "batch":
		runBatch(c)
	case "e2e", "e2erace":
		runE2E(c)
	case "hazard":
		runHazard(c)
	}
}

// ---------------------------------------------------------------------------
// Networks: the reference schedule next to the node's configuration.

type network struct {
	ref *refdiff.Schedule
	cfg *params.ChainConfig
	// judged: false for configurations outside the property's schedules where a
	// documented ambiguity exists (testnet2: see Assumptions)
	primary bool
}

var (
	netsOnce sync.Once
	netList  []*network
)

func nets() []*network {
	netsOnce.Do(func() {
		// the main network with HF8 activated by flag (subcommands: -hf8 sets
		// chaincfg.HF[8]); a copy, the global config is left alone
		mcfg := *params.MainnetChainConfig
		mcfg.HF = params.ForkMap{}
		for k, v := range params.MainnetChainConfig.HF {
			if v != nil {
				mcfg.HF[k] = new(big.Int).Set(v)
			}
		}
		mcfg.HF[8] = big.NewInt(40000)
		mref := &refdiff.Schedule{Name: "mainnet-hf8flag", Mainnet: true, HF: map[int]uint64{}}
		for k, v := range refdiff.Mainnet.HF {
			mref.HF[k] = v
		}
		mref.HF[8] = 40000
		netList = []*network{
			{ref: refdiff.Mainnet, cfg: params.MainnetChainConfig, primary: true},
			{ref: refdiff.Testnet, cfg: params.TestnetChainConfig, primary: true},
			{ref: refdiff.Test, cfg: params.TestChainConfig, primary: true},
			{ref: refdiff.Testnet2, cfg: params.Testnet2ChainConfig},
			{ref: mref, cfg: &mcfg, primary: true},
		}
	})
	return netList
}

func netByName(name string) *network {
	for _, n := range nets() {
		if n.ref.Name == name {
			return n
		}
	}
	panic("unknown net " + name)
}

// ---------------------------------------------------------------------------
// Header specs: the rule-relevant fields, JSON-loggable.

type hspec struct {
	Number   string `json:"number"`
	Time     string `json:"time"`
	Diff     string `json:"difficulty"`
	GasLimit uint64 `json:"gas_limit"`
	GasUsed  uint64 `json:"gas_used"`
	Extra    int    `json:"extra_len"`
	Salt     uint64 `json:"salt,omitempty"` // distinguishes otherwise identical siblings (coinbase)
}

func bigs(s string) *big.Int {
	v, ok := new(big.Int).SetString(s, 10)
	if !ok {
		panic("bad big " + s)
	}
	return v
}

func (h hspec) ref() *refdiff.Header {
	return &refdiff.Header{Number: bigs(h.Number), Time: bigs(h.Time), Difficulty: bigs(h.Diff),
		GasLimit: h.GasLimit, GasUsed: h.GasUsed, ExtraLen: h.Extra}
}

// header materialises the spec as a node header with the hash version of its
// claimed height.
func (h hspec) header(cfg *params.ChainConfig, parent common.Hash) *types.Header {
	hd := &types.Header{
		ParentHash: parent,
		UncleHash:  types.EmptyUncleHash,
		TxHash:     types.EmptyRootHash,
		Number:     bigs(h.Number),
		Time:       bigs(h.Time),
		Difficulty: bigs(h.Diff),
		GasLimit:   h.GasLimit,
		GasUsed:    h.GasUsed,
		Extra:      make([]byte, h.Extra),
	}
	for i := range hd.Extra {
		hd.Extra[i] = byte(i*7 + 1)
	}
	var cb common.Address
	for i := 0; i < 8; i++ {
		cb[19-i] = byte(h.Salt >> (8 * uint(i)))
	}
	hd.Coinbase = cb
	hd.Version = cfg.GetBlockVersion(hd.Number)
	return hd
}

// child returns a valid child spec of p: block time dt later, same gas limit.
func child(n *network, p hspec, dt int64, salt uint64) hspec {
	pr := p.ref()
	t := new(big.Int).Add(pr.Time, big.NewInt(dt))
	return hspec{
		Number:   new(big.Int).Add(pr.Number, big.NewInt(1)).String(),
		Time:     t.String(),
		Diff:     n.ref.Expected(t, pr).String(),
		GasLimit: p.GasLimit,
		GasUsed:  0,
		Extra:    int(salt % 33),
		Salt:     salt,
	}
}

// ---------------------------------------------------------------------------
// Fake consensus.ChainReader.

type fakeChain struct {
	cfg  *params.ChainConfig
	lax  bool // look headers up by hash only (the number argument is ignored)
	mu   sync.Mutex
	hdrs map[common.Hash]*types.Header
	blks map[common.Hash]*types.Block
	head *types.Header
	// hook, if set, is called (outside the lock) on every GetHeader
	hook func(hash common.Hash, number uint64)
}

func newFakeChain(cfg *params.ChainConfig, lax bool) *fakeChain {
	return &fakeChain{cfg: cfg, lax: lax, hdrs: map[common.Hash]*types.Header{}, blks: map[common.Hash]*types.Block{}}
}

func (f *fakeChain) add(h *types.Header) common.Hash {
	hash := h.Hash()
	f.mu.Lock()
	f.hdrs[hash] = h
	f.head = h
	f.mu.Unlock()
	return hash
}

func (f *fakeChain) addBlock(b *types.Block) common.Hash {
	hash := b.Hash()
	f.mu.Lock()
	f.hdrs[hash] = b.Header()
	f.blks[hash] = b
	f.head = b.Header()
	f.mu.Unlock()
	return hash
}

func (f *fakeChain) Config() *params.ChainConfig  { return f.cfg }
func (f *fakeChain) GetContext() context.Context  { return context.Background() }
func (f *fakeChain) CurrentHeader() *types.Header { f.mu.Lock(); defer f.mu.Unlock(); return f.head }
func (f *fakeChain) GetHeaderByNumber(n uint64) *types.Header {
	f.mu.Lock()
	defer f.mu.Unlock()
	for _, h := range f.hdrs {
		if h.Number.Uint64() == n {
			return h
		}
	}
	return nil
}
func (f *fakeChain) GetHeaderByHash(hash common.Hash) *types.Header {
	f.mu.Lock()
	defer f.mu.Unlock()
	return f.hdrs[hash]
}

// GetHeader behaves like the node's database: a header is stored under
// (its number truncated to 64 bits, its hash).
func (f *fakeChain) GetHeader(hash common.Hash, number uint64) *types.Header {
	if f.hook != nil {
		f.hook(hash, number)
	}
	f.mu.Lock()
	defer f.mu.Unlock()
	h := f.hdrs[hash]
	if h == nil || (!f.lax && h.Number.Uint64() != number) {
		return nil
	}
	return h
}

func (f *fakeChain) GetBlock(hash common.Hash, number uint64) *types.Block {
	f.mu.Lock()
	defer f.mu.Unlock()
	b := f.blks[hash]
	if b == nil || (!f.lax && b.NumberU64() != number) {
		return nil
	}
	return b
}

var _ consensus.ChainReader = (*fakeChain)(nil)

// ---------------------------------------------------------------------------
// Error classes of the engine, by message.

func classify(err error) string {
	if err == nil {
		return ""
	}
	s := err.Error()
	switch {
	case strings.Contains(s, "extra-data too long"):
		return refdiff.RExtra
	case s == "timestamp equals parent's":
		return refdiff.RTimeNotLater
	case err == consensus.ErrFutureBlock:
		return refdiff.RTimeFuture
	case strings.Contains(s, "invalid difficulty"):
		return refdiff.RDifficulty
	case strings.Contains(s, "invalid gasLimit"):
		return refdiff.RGasCap
	case strings.Contains(s, "invalid gasUsed"):
		return refdiff.RGasUsed
	case strings.Contains(s, "invalid gas limit"):
		return "gas_delta_or_min"
	case err == consensus.ErrInvalidNumber:
		return refdiff.RNumber
	case err == consensus.ErrUnknownAncestor:
		return "unknown_ancestor"
	case strings.Contains(s, "nil grandparent"):
		return "unknown_grandparent"
	case s == "invalid proof-of-work":
		return "seal"
	case s == "too many uncles":
		return refdiff.UCount
	case s == "duplicate uncle":
		return refdiff.UDuplicate
	case s == "uncle is ancestor":
		return refdiff.UAncestor
	case s == "uncle's parent is not ancestor":
		return refdiff.UNotRecent
	case s == "timestamp too big":
		return "uncle_time_too_big"
	}
	return "other"
}

// explains reports whether the engine's error class is one of the rules the
// reference found broken (used for an observation counter only: the property
// speaks of the verdict, not of the reason given).
func explains(class string, broken []string) bool {
	for _, b := range broken {
		switch {
		case b == class:
			return true
		case class == "gas_delta_or_min" && (b == refdiff.RGasDelta || b == refdiff.RGasMin):
			return true
		case class == "unknown_ancestor" && b == refdiff.RNumber:
			// a wrong number makes the (number-1, parent hash) lookup miss
			return true
		}
	}
	return false
}

func errStr(err error) string {
	if err == nil {
		return "<nil>"
	}
	return err.Error()
}

var (
	two63 = new(big.Int).Lsh(big.NewInt(1), 63)
	two64 = new(big.Int).Lsh(big.NewInt(1), 64)
)
