package c13

import (
	"fmt"
	"math/big"
	"sort"
	"strings"
	"time"

	"gitlab.com/aquachain/aquachain/consensus/aquahash"
	"gitlab.com/aquachain/aquachain/core/types"
	"verif/internal/fw"
	"verif/internal/ref/refdiff"
)

// ---------------------------------------------------------------------------
// Heights: fork-1, fork, fork+1 of every fork of a schedule, plus mid-epoch.

type heightPick struct {
	H     uint64   // number of the candidate block
	Where []string // "fork-1", "fork", "fork+1", "mid"
}

func heightsOf(n *network) []heightPick {
	m := map[uint64]map[string]bool{}
	add := func(h uint64, w string) {
		if h < 1 {
			return
		}
		if m[h] == nil {
			m[h] = map[string]bool{}
		}
		m[h][w] = true
	}
	fh := n.ref.ForkHeights()
	for i, f := range fh {
		if f > 0 {
			add(f-1, "fork-1")
		}
		add(f, "fork")
		add(f+1, "fork+1")
		if i+1 < len(fh) && fh[i+1] > f+3 {
			add(f+(fh[i+1]-f)/2, "mid")
		}
	}
	if len(fh) > 0 {
		add(fh[len(fh)-1]+1000, "mid")
		if fh[0] > 4 {
			add(fh[0]/2, "mid")
			add(1, "mid")
			add(2, "mid")
			add(3, "mid")
		}
	}
	var out []heightPick
	for h, ws := range m {
		var w []string
		for k := range ws {
			w = append(w, k)
		}
		sort.Strings(w)
		out = append(out, heightPick{H: h, Where: w})
	}
	sort.Slice(out, func(i, j int) bool { return out[i].H < out[j].H })
	return out
}

// ---------------------------------------------------------------------------
// Lattices.

var dtLattice = []int64{1, 2, 9, 10, 11, 19, 20, 21, 29, 30, 179, 180, 181, 239, 240, 241, 989, 990, 999, 1000, 1001, 1009, 1010, 1011, 5000, 100000}

func pickDt(r *fw.Rand) int64 {
	if r.Chance(1, 6) {
		return int64(r.Range(1, 2000))
	}
	return dtLattice[r.Intn(len(dtLattice))]
}

// parentDiffs: parent difficulties around the parameters in force at next.
func parentDiffs(p refdiff.Params, r *fw.Rand) []*big.Int {
	b := func(v *big.Int) *big.Int { return new(big.Int).Set(v) }
	add := func(v *big.Int, d int64) *big.Int { return new(big.Int).Add(v, big.NewInt(d)) }
	rnd := func(bits int) *big.Int {
		v := new(big.Int).SetBytes(r.Bytes((bits + 7) / 8))
		return v.Rsh(v, uint((8-bits%8)%8))
	}
	out := []*big.Int{
		b(p.Minimum), add(p.Minimum, 1), add(p.Minimum, -1),
		new(big.Int).Add(p.Minimum, p.Divisor),
		new(big.Int).Add(new(big.Int).Mul(p.Minimum, big.NewInt(2)), rnd(20)),
		new(big.Int).Add(p.Minimum, new(big.Int).Quo(p.Minimum, p.Divisor)),
		add(p.Divisor, -1), b(p.Divisor), big.NewInt(2048), big.NewInt(2047),
		rnd(r.Range(28, 80)),
		new(big.Int).Add(new(big.Int).Lsh(big.NewInt(1), 100), rnd(60)),
		big.NewInt(1),
	}
	return out
}

var parentGasLattice = []uint64{5000, 5002, 5119, 5120, 6143, 6144, 4712388, 5120000, 8000000, 1<<40 + 12345, 1 << 62, 1<<63 - 1025, 1<<63 - 1}

// ---------------------------------------------------------------------------
// Mutations.

type scen struct {
	n   *network
	r   *fw.Rand
	now int64
	dt  int64
	p   hspec // parent
	h   hspec // candidate
	// recompute the candidate's difficulty for its final timestamp
	fixDiff bool
	clock   bool // the case depends on the wall clock
	class   string
}

type mutation struct {
	Label string
	Rule  string // the rule probed
	Side  string // "inside" (must stay valid) | "outside" (breaks Rule) | "" (reference decides)
	Class string // non-empty: an exotic input class, part of the violation signature
	prep  func(s *scen)
	apply func(s *scen)
}

func u64s(v uint64) string { return new(big.Int).SetUint64(v).String() }

func addBig(s string, d int64) string { return new(big.Int).Add(bigs(s), big.NewInt(d)).String() }

func gasParent(vals ...uint64) func(s *scen) {
	return func(s *scen) { s.p.GasLimit = vals[s.r.Intn(len(vals))]; s.p.GasUsed = 0 }
}

var roomyGas = []uint64{4712388, 5120000, 8000000, 1<<40 + 12345, 1 << 62}

func divStep(s *scen, div int64, sign int64) string {
	pd := bigs(s.p.Diff)
	adj := new(big.Int).Quo(pd, big.NewInt(div))
	if sign < 0 {
		adj.Neg(adj)
	}
	v := new(big.Int).Add(pd, adj)
	if v.Sign() < 0 {
		v.SetInt64(0)
	}
	return v.String()
}

var mutations = []mutation{
	{Label: "none", Rule: "all", Side: "inside"},
	// number
	{Label: "number=parent+0", Rule: refdiff.RNumber, Side: "outside", apply: func(s *scen) { s.h.Number = s.p.Number }},
	{Label: "number=parent+1", Rule: refdiff.RNumber, Side: "inside"},
	{Label: "number=parent+2", Rule: refdiff.RNumber, Side: "outside", apply: func(s *scen) { s.h.Number = addBig(s.p.Number, 2) }},
	{Label: "number=parent+1+2^64", Rule: refdiff.RNumber, Side: "outside", apply: func(s *scen) {
		s.h.Number = new(big.Int).Add(bigs(addBig(s.p.Number, 1)), two64).String()
	}},
	// time relative to the parent
	{Label: "time=parent+1", Rule: "time", Side: "inside", prep: func(s *scen) { s.dt = 1 }},
	{Label: "time=parent", Rule: refdiff.RTimeNotLater, Side: "outside", apply: func(s *scen) { s.h.Time = s.p.Time }},
	{Label: "time=parent-1", Rule: refdiff.RTimeNotLater, Side: "outside", apply: func(s *scen) { s.h.Time = addBig(s.p.Time, -1) }},
	// time relative to the clock (>= 20 s away from the 15 s boundary on the pass
	// side is safe: the engine reads the clock after the case was generated)
	{Label: "clock=now-20", Rule: refdiff.RTimeFuture, Side: "inside", prep: func(s *scen) { s.clock = true; s.p.Time = fmt.Sprint(s.now - 20 - s.dt) }},
	{Label: "clock=now+5", Rule: refdiff.RTimeFuture, Side: "inside", prep: func(s *scen) { s.clock = true; s.p.Time = fmt.Sprint(s.now + 5 - s.dt) }},
	{Label: "clock=now+90", Rule: refdiff.RTimeFuture, Side: "outside", prep: func(s *scen) { s.clock = true; s.p.Time = fmt.Sprint(s.now + 90 - s.dt) }},
	{Label: "clock=now+3600", Rule: refdiff.RTimeFuture, Side: "outside", prep: func(s *scen) { s.clock = true; s.p.Time = fmt.Sprint(s.now + 3600 - s.dt) }},
	// extra data
	{Label: "extra=31", Rule: refdiff.RExtra, Side: "inside", apply: func(s *scen) { s.h.Extra = 31 }},
	{Label: "extra=32", Rule: refdiff.RExtra, Side: "inside", apply: func(s *scen) { s.h.Extra = 32 }},
	{Label: "extra=33", Rule: refdiff.RExtra, Side: "outside", apply: func(s *scen) { s.h.Extra = 33 }},
	{Label: "extra=1024", Rule: refdiff.RExtra, Side: "outside", apply: func(s *scen) { s.h.Extra = 1024 }},
	// gas limit movement
	{Label: "gas=parent+bound-1", Rule: refdiff.RGasDelta, Side: "inside", prep: gasParent(roomyGas...), apply: func(s *scen) { s.h.GasLimit = s.p.GasLimit + s.p.GasLimit/1024 - 1 }},
	{Label: "gas=parent+bound", Rule: refdiff.RGasDelta, Side: "outside", prep: gasParent(roomyGas...), apply: func(s *scen) { s.h.GasLimit = s.p.GasLimit + s.p.GasLimit/1024 }},
	{Label: "gas=parent+bound+1", Rule: refdiff.RGasDelta, Side: "outside", prep: gasParent(roomyGas...), apply: func(s *scen) { s.h.GasLimit = s.p.GasLimit + s.p.GasLimit/1024 + 1 }},
	{Label: "gas=parent-bound+1", Rule: refdiff.RGasDelta, Side: "inside", prep: gasParent(roomyGas...), apply: func(s *scen) { s.h.GasLimit = s.p.GasLimit - s.p.GasLimit/1024 + 1 }},
	{Label: "gas=parent-bound", Rule: refdiff.RGasDelta, Side: "outside", prep: gasParent(roomyGas...), apply: func(s *scen) { s.h.GasLimit = s.p.GasLimit - s.p.GasLimit/1024 }},
	{Label: "gas=parent-bound-1", Rule: refdiff.RGasDelta, Side: "outside", prep: gasParent(roomyGas...), apply: func(s *scen) { s.h.GasLimit = s.p.GasLimit - s.p.GasLimit/1024 - 1 }},
	{Label: "gas=parent*2", Rule: refdiff.RGasDelta, Side: "outside", prep: gasParent(4712388, 8000000), apply: func(s *scen) { s.h.GasLimit = s.p.GasLimit * 2 }},
	// gas limit floor
	{Label: "gas=5000(parent5002)", Rule: refdiff.RGasMin, Side: "inside", prep: gasParent(5002), apply: func(s *scen) { s.h.GasLimit = 5000 }},
	{Label: "gas=4999(parent5002)", Rule: refdiff.RGasMin, Side: "outside", prep: gasParent(5002), apply: func(s *scen) { s.h.GasLimit = 4999 }},
	{Label: "gas=5000(parent5000)", Rule: refdiff.RGasMin, Side: "inside", prep: gasParent(5000), apply: func(s *scen) { s.h.GasLimit = 5000 }},
	{Label: "gas=4999(parent5000)", Rule: refdiff.RGasMin, Side: "outside", prep: gasParent(5000), apply: func(s *scen) { s.h.GasLimit = 4999 }},
	{Label: "gas=0", Rule: refdiff.RGasMin, Side: "outside", apply: func(s *scen) { s.h.GasLimit = 0 }},
	// gas limit cap
	{Label: "gas=2^63-1(parent2^63-1)", Rule: refdiff.RGasCap, Side: "inside", prep: gasParent(1<<63 - 1), apply: func(s *scen) { s.h.GasLimit = 1<<63 - 1 }},
	{Label: "gas=2^63-1(parent2^63-1025)", Rule: refdiff.RGasCap, Side: "inside", prep: gasParent(1<<63 - 1025), apply: func(s *scen) { s.h.GasLimit = 1<<63 - 1 }},
	{Label: "gas=2^63(parent2^63-1)", Rule: refdiff.RGasCap, Side: "outside", prep: gasParent(1<<63 - 1), apply: func(s *scen) { s.h.GasLimit = 1 << 63 }},
	{Label: "gas=2^64-1(parent2^63-1)", Rule: refdiff.RGasCap, Side: "outside", prep: gasParent(1<<63 - 1), apply: func(s *scen) { s.h.GasLimit = 1<<64 - 1 }},
	// gas used
	{Label: "gas_used=limit", Rule: refdiff.RGasUsed, Side: "inside", apply: func(s *scen) { s.h.GasUsed = s.h.GasLimit }},
	{Label: "gas_used=limit+1", Rule: refdiff.RGasUsed, Side: "outside", apply: func(s *scen) { s.h.GasUsed = s.h.GasLimit + 1 }},
	{Label: "gas_used=2^64-1", Rule: refdiff.RGasUsed, Side: "outside", apply: func(s *scen) { s.h.GasUsed = 1<<64 - 1 }},
	// difficulty
	{Label: "diff=expected+1", Rule: refdiff.RDifficulty, Side: "outside", apply: func(s *scen) { s.h.Diff = addBig(s.h.Diff, 1) }},
	{Label: "diff=expected-1", Rule: refdiff.RDifficulty, Side: "outside", apply: func(s *scen) { s.h.Diff = addBig(s.h.Diff, -1) }},
	{Label: "diff=expected*2", Rule: refdiff.RDifficulty, Side: "outside", apply: func(s *scen) { s.h.Diff = new(big.Int).Mul(bigs(s.h.Diff), big.NewInt(2)).String() }},
	{Label: "diff=0", Rule: refdiff.RDifficulty, Side: "outside", apply: func(s *scen) { s.h.Diff = "0" }},
	{Label: "diff=minimum-1", Rule: refdiff.RDifficulty, apply: func(s *scen) {
		s.h.Diff = new(big.Int).Sub(s.n.ref.ParamsAt(bigs(addBig(s.p.Number, 1))).Minimum, big.NewInt(1)).String()
	}},
	{Label: "diff=parent", Rule: refdiff.RDifficulty, apply: func(s *scen) { s.h.Diff = s.p.Diff }},
	{Label: "diff=other_side_of_limit", Rule: refdiff.RDifficulty, apply: func(s *scen) {
		// the difficulty of a block on the other side of the duration limit / one homestead step away
		pr := s.p.ref()
		lim := s.n.ref.ParamsAt(bigs(addBig(s.p.Number, 1))).Limit.Int64()
		odt := lim + 5
		if s.dt >= lim {
			odt = lim - 5
		}
		s.h.Diff = s.n.ref.Expected(new(big.Int).Add(pr.Time, big.NewInt(odt)), pr).String()
	}},
	{Label: "diff=parent+parent/2048", Rule: refdiff.RDifficulty, apply: func(s *scen) { s.h.Diff = divStep(s, 2048, 1) }},
	{Label: "diff=parent-parent/2048", Rule: refdiff.RDifficulty, apply: func(s *scen) { s.h.Diff = divStep(s, 2048, -1) }},
	{Label: "diff=parent+parent/16", Rule: refdiff.RDifficulty, apply: func(s *scen) { s.h.Diff = divStep(s, 16, 1) }},
	{Label: "diff=parent-parent/16", Rule: refdiff.RDifficulty, apply: func(s *scen) { s.h.Diff = divStep(s, 16, -1) }},
	{Label: "diff=parent+parent/128", Rule: refdiff.RDifficulty, apply: func(s *scen) { s.h.Diff = divStep(s, 128, 1) }},
	{Label: "diff=parent-parent/128", Rule: refdiff.RDifficulty, apply: func(s *scen) { s.h.Diff = divStep(s, 128, -1) }},
	{Label: "diff=parent+parent/1024", Rule: refdiff.RDifficulty, apply: func(s *scen) { s.h.Diff = divStep(s, 1024, 1) }},
	{Label: "diff=parent-parent/1024", Rule: refdiff.RDifficulty, apply: func(s *scen) { s.h.Diff = divStep(s, 1024, -1) }},
	// exotic parents: a genesis may carry any gas limit
	{Label: "parent_gas=2^64-1,gas=5000", Rule: refdiff.RGasDelta, Side: "outside", Class: "parent_gas_limit_above_int63",
		prep: gasParent(1<<64 - 1), apply: func(s *scen) { s.h.GasLimit = 5000 }},
	{Label: "parent_gas=2^63+2^62,gas=2^62", Rule: refdiff.RGasDelta, Side: "outside", Class: "parent_gas_limit_above_int63",
		prep: gasParent(1<<63 + 1<<62), apply: func(s *scen) { s.h.GasLimit = 1 << 62 }},
	{Label: "parent_gas=2^63+1000,gas=2^63-1", Rule: refdiff.RGasDelta, Side: "inside", Class: "parent_gas_limit_above_int63",
		prep: gasParent(1<<63 + 1000), apply: func(s *scen) { s.h.GasLimit = 1<<63 - 1 }},
}

// ---------------------------------------------------------------------------

type hdrCase struct {
	Net    string   `json:"net"`
	Where  []string `json:"where"`
	Muts   []string `json:"mutations"`
	Class  string   `json:"class,omitempty"`
	Reader string   `json:"reader"`
	Seal   bool     `json:"seal"`
	Dt     int64    `json:"dt"`
	GP     *hspec   `json:"grandparent,omitempty"`
	P      hspec    `json:"parent"`
	H      hspec    `json:"header"`
	Clock  bool     `json:"clock_relative,omitempty"`
	Now    int64    `json:"now,omitempty"`
}

type forcedItem struct {
	n   *network
	hp  heightPick
	mut int
}

func forcedList() []forcedItem {
	var out []forcedItem
	for _, n := range nets() {
		for _, hp := range heightsOf(n) {
			for m := range mutations {
				out = append(out, forcedItem{n, hp, m})
			}
		}
	}
	return out
}

// buildHdrCase derives parent, grandparent and candidate for one item.
func buildHdrCase(n *network, hp heightPick, muts []int, r *fw.Rand, now int64, idx int) hdrCase {
	next := new(big.Int).SetUint64(hp.H)
	par := n.ref.ParamsAt(next)
	pds := parentDiffs(par, r)
	s := &scen{n: n, r: r, now: now, dt: pickDt(r)}
	s.p = hspec{
		Number:   u64s(hp.H - 1),
		Time:     fmt.Sprint(1500000000 + int64(r.Intn(100000000))),
		Diff:     pds[r.Intn(len(pds))].String(),
		GasLimit: parentGasLattice[r.Intn(len(parentGasLattice))],
		Extra:    r.Intn(33),
		Salt:     r.Uint64(),
	}
	for _, m := range muts {
		if mutations[m].prep != nil {
			mutations[m].prep(s)
		}
		if mutations[m].Class != "" {
			s.class = mutations[m].Class
		}
	}
	s.h = child(n, s.p, s.dt, r.Uint64())
	for _, m := range muts {
		if mutations[m].apply != nil {
			mutations[m].apply(s)
		}
	}
	hc := hdrCase{Net: n.ref.Name, Where: hp.Where, Class: s.class, Dt: s.dt, P: s.p, H: s.h, Clock: s.clock}
	if s.clock {
		hc.Now = now
	}
	for _, m := range muts {
		hc.Muts = append(hc.Muts, mutations[m].Label)
	}
	if hp.H >= 2 {
		gp := hspec{Number: u64s(hp.H - 2), Time: addBig(s.p.Time, -int64(r.Range(1, 500))), Diff: s.p.Diff,
			GasLimit: s.p.GasLimit, Extra: 0, Salt: r.Uint64()}
		hc.GP = &gp
	}
	hc.Reader = "strict"
	if idx%2 == 1 {
		hc.Reader = "lax"
	}
	hc.Seal = r.Bool()
	return hc
}

// materialise builds the fake chain (grandparent, parent) and the candidate.
func (hc *hdrCase) materialise(n *network) (*fakeChain, *types.Header) {
	fc := newFakeChain(n.cfg, hc.Reader == "lax")
	gpHash := types.EmptyRootHash // arbitrary unknown hash for a parent without known grandparent
	if hc.GP != nil {
		gpHash = fc.add(hc.GP.header(n.cfg, types.EmptyUncleHash))
	}
	pHash := fc.add(hc.P.header(n.cfg, gpHash))
	return fc, hc.H.header(n.cfg, pHash)
}

func runHdr(c *fw.Ctx) {
	forced := forcedList()
	total := c.Pick(3750, 120000) // per batch; x16 batches
	eng := aquahash.NewFaker()
	for i := 0; i < total; i++ {
		r := c.Rand("hdr", fmt.Sprint(i))
		it := forced[(i*c.NBatch+c.Batch)%len(forced)]
		muts := []int{it.mut}
		if i%5 == 4 {
			// a second, independent mutation
			muts = append(muts, r.Intn(len(mutations)))
		}
		now := time.Now().Unix()
		hc := buildHdrCase(it.n, it.hp, muts, r, now, i)
		id := fmt.Sprintf("hdr-%d", i)
		c.Case(id, hc, func() { checkHdr(c, it.n, &hc, eng, muts, id) })
	}
}

func checkHdr(c *fw.Ctx, n *network, hc *hdrCase, eng *aquahash.Aquahash, muts []int, id string) {
	fc, hd := hc.materialise(n)
	now := time.Now().Unix()
	if hc.Clock {
		now = hc.Now
	}
	broken := n.ref.Check(hc.P.ref(), hc.H.ref(), now)
	err := eng.VerifyHeader(fc, hd, hc.Seal)
	class := classify(err)

	c.Count("net:" + n.ref.Name)
	c.Count("reader:" + hc.Reader)
	for _, w := range hc.Where {
		c.Count("height:" + w)
	}
	if n.ref.ParamsAt(bigs(hc.H.Number)).Reset != nil && len(muts) == 1 {
		c.Count("fork_reset_block")
	}
	if len(muts) == 1 {
		m := mutations[muts[0]]
		switch {
		case m.Side == "inside" && len(broken) == 0:
			c.Count("inside:" + m.Rule)
		case m.Side == "outside" && contains(broken, m.Rule):
			c.Count("outside:" + m.Rule)
		case m.Side == "" && contains(broken, m.Rule):
			c.Count("outside:" + m.Rule)
		case m.Side == "" && len(broken) == 0:
			c.Count("inside:" + m.Rule)
		default:
			// a template that does not do what its label says is a harness defect
			c.Count("template_off_target:" + m.Label)
		}
	}
	if m := muts[0]; mutations[m].Label != "none" || len(muts) > 1 {
		c.Nontrivial(fmt.Sprintf("%+v", *hc))
	}

	// testnet2 (outside the property's schedules): record, do not judge, headers
	// the node accepts below the HF5 minimum
	if !n.primary && len(broken) == 0 && err == nil && bigs(hc.H.Diff).Cmp(big.NewInt(46039386)) < 0 {
		c.Count("testnet2_below_hf5_minimum")
	}

	cause := strings.Join(broken, "+")
	if hc.Class != "" {
		cause += ":" + hc.Class
	}
	switch {
	case err == nil && len(broken) > 0:
		c.Violate("accepted_but_invalid", "VerifyHeader", cause,
			fmt.Sprintf("engine accepted a header that breaks %v (net %s, height %s, mutations %v)", broken, hc.Net, hc.H.Number, hc.Muts))
	case err != nil && len(broken) == 0:
		cz := class
		if hc.Class != "" {
			cz += ":" + hc.Class
		}
		c.Violate("rejected_but_valid", "VerifyHeader", cz,
			fmt.Sprintf("engine rejected a header that satisfies every rule: %v (net %s, height %s, mutations %v)", err, hc.Net, hc.H.Number, hc.Muts))
	case err == nil:
		c.Count("hdr_valid_accepted")
	default:
		c.Count("hdr_invalid_rejected")
		if !explains(class, broken) {
			// the verdict is right; the reported reason is a rule the reference finds
			// satisfied. Not part of the property; recorded.
			c.Count("reason_differs_from_reference")
		}
	}
	if c.WantSample() && len(muts) == 1 && mutations[muts[0]].Side == "outside" {
		c.Sample(map[string]interface{}{"case": id, "input": hc, "reference_broken_rules": broken, "engine": errStr(err)})
	}
}

func contains(l []string, s string) bool {
	if s == "all" {
		return len(l) == 0
	}
	for _, x := range l {
		if x == s {
			return true
		}
	}
	return false
}

// ---------------------------------------------------------------------------
// diff leg: the exported CalcDifficulty against the reference.

type diffCase struct {
	Net    string `json:"net"`
	Height uint64 `json:"height"`
	PTime  int64  `json:"parent_time"`
	PDiff  string `json:"parent_difficulty"`
	Dt     int64  `json:"dt"`
}

func runDiff(c *fw.Ctx) {
	passes := c.Pick(1, 30)
	k := 0
	for pass := 0; pass < passes; pass++ {
		for _, n := range nets() {
			for _, hp := range heightsOf(n) {
				r := c.Rand("diff", fmt.Sprint(pass), n.ref.Name, fmt.Sprint(hp.H))
				par := n.ref.ParamsAt(new(big.Int).SetUint64(hp.H))
				pds := parentDiffs(par, r)
				ptime := 1500000000 + int64(r.Intn(100000000))
				dts := append([]int64{}, dtLattice...)
				for j := 0; j < 6; j++ {
					dts = append(dts, int64(r.Range(1, 3000)))
				}
				dc := map[string]interface{}{"net": n.ref.Name, "height": hp.H, "parent_time": ptime, "parent_difficulties": fmt.Sprint(pds), "dts": dts}
				k++
				c.Case(fmt.Sprintf("diff-%d", k), dc, func() {
					for _, pd := range pds {
						for _, dt := range dts {
							checkDiff(c, n, diffCase{Net: n.ref.Name, Height: hp.H, PTime: ptime, PDiff: pd.String(), Dt: dt}, par)
						}
					}
				})
			}
		}
	}
}

func checkDiff(c *fw.Ctx, n *network, dc diffCase, par refdiff.Params) {
	ph := &types.Header{Number: new(big.Int).SetUint64(dc.Height - 1), Time: big.NewInt(dc.PTime), Difficulty: bigs(dc.PDiff)}
	pr := &refdiff.Header{Number: new(big.Int).SetUint64(dc.Height - 1), Time: big.NewInt(dc.PTime), Difficulty: bigs(dc.PDiff)}
	tm := dc.PTime + dc.Dt
	got := aquahash.CalcDifficulty(n.cfg, uint64(tm), ph, nil)
	want := n.ref.Expected(big.NewInt(tm), pr)
	c.Count("diff_compared")
	epoch := "diff_algo:" + par.Algo
	if par.Reset != nil {
		epoch = "diff_reset"
	}
	c.Count(epoch)
	if par.Reset == nil && par.MinimumApplies && want.Cmp(par.Minimum) == 0 {
		c.Count("diff_minimum_clamped")
	}
	if !n.primary && want.Cmp(big.NewInt(46039386)) < 0 && got.Cmp(want) == 0 {
		c.Count("testnet2_below_hf5_minimum")
	}
	c.Nontrivial(fmt.Sprintf("%+v", dc))
	if got.Cmp(want) != 0 {
		c.ViolateInput("difficulty_formula", "CalcDifficulty", strings.TrimPrefix(epoch, "diff_"),
			fmt.Sprintf("net %s height %d parent(time %d, difficulty %s) block time +%d: node %v, reference %v", dc.Net, dc.Height, dc.PTime, dc.PDiff, dc.Dt, got, want), dc)
	}
	if c.WantSample() && dc.Dt == 240 {
		c.Sample(map[string]interface{}{"input": dc, "node": got.String(), "reference": want.String()})
	}
}
