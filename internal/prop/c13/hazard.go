package c13

import (
	"bytes"
	"fmt"
	"os"
	"os/exec"
	"regexp"
	"strings"
	"time"

	"gitlab.com/aquachain/aquachain/common"
	"gitlab.com/aquachain/aquachain/consensus/aquahash"
	"gitlab.com/aquachain/aquachain/core/types"
	"verif/internal/fw"
)

// Hazardous templates: inputs inside the property's space ("number +0" on top
// of the genesis block = a header that claims height 0) that can end the
// process. The dangerous call runs in a process of its own (this binary again,
// with C13_HAZARD_INNER set) so that a death is observed, attributed to exactly
// this input with a precise signature, and takes no other case with it. A death
// nobody anticipated is still caught by the framework (clause process_died).
var hazards = []string{
	"verifyheaders_first_header_number_0",
	"verifyheaders_first_header_number_0_unknown_parent",
	"verifyheaders_first_header_number_0_lax_reader",
	"insertheaderchain_header_number_0",
	"insertchain_block_number_0",
	"insertheaderchain_header_number_0_unknown_parent",
	"insertchain_block_number_0_unknown_parent",
}

const hazardEnv = "C13_HAZARD_INNER"

type hazardCase struct {
	Template string `json:"template"`
	Net      string `json:"net"`
	Op       string `json:"op"`
	Note     string `json:"note"`
}

func hazardOp(name string) string {
	switch {
	case strings.HasPrefix(name, "verifyheaders_"):
		return "VerifyHeaders"
	case strings.HasPrefix(name, "insertheaderchain_"):
		return "InsertHeaderChain"
	}
	return "InsertChain"
}

// hazardInner performs the dangerous call and prints one verdict line.
func hazardInner(name string, seed uint64) {
	r := fw.NewRand(seed, "C13", "hazard", name)
	n := netByName("test")
	if strings.HasPrefix(name, "verifyheaders_") {
		g := hspec{Number: "0", Time: "1500000000", Diff: "100000", GasLimit: 4712388, Salt: r.Uint64()}
		h := child(n, g, 13, r.Uint64())
		h.Number = "0"
		fc := newFakeChain(n.cfg, strings.HasSuffix(name, "_lax_reader"))
		gh := fc.add(g.header(n.cfg, common.Hash{}))
		if strings.HasSuffix(name, "_unknown_parent") {
			gh = common.BytesToHash(r.Bytes(32))
		}
		hd := h.header(n.cfg, gh)
		broken := n.ref.Check(g.ref(), h.ref(), time.Now().Unix())
		eng := aquahash.NewFaker()
		seqErr := eng.VerifyHeader(fc, hd, false)
		fmt.Printf("INFO reference=%v one-by-one=%v header=%+v\n", broken, errStr(seqErr), h)
		abort, results := eng.VerifyHeaders(fc, []*types.Header{hd}, []bool{false})
		defer close(abort)
		select {
		case err := <-results:
			fmt.Printf("VERDICT %s\n", verdictWord(err))
		case <-time.After(60 * time.Second):
			fmt.Println("VERDICT timeout")
		}
		return
	}
	ec := e2eCase{Kind: "header", N: 2, GasLimit: 4712388, GenesisTs: 1500000000, GenDiff: "100000", CheckFreq: 1, Offsets: []int64{0, 0}}
	env := ec.env()
	genesis, blocks := ec.generate(env, nil)
	nh := blocks[0].Header()
	nh.Number.SetInt64(0)
	if strings.HasSuffix(name, "_unknown_parent") {
		nh.ParentHash = common.BytesToHash(r.Bytes(32))
	}
	nh.Version = env.cfg.GetBlockVersion(nh.Number)
	blk := blocks[0].WithSeal(nh)
	broken := env.n.ref.Check(specOf(genesis.Header()).ref(), specOf(nh).ref(), -1)
	chain, stop := env.newChain()
	defer stop()
	fmt.Printf("INFO reference=%v header=%+v\n", broken, specOf(nh))
	var err error
	if strings.HasPrefix(name, "insertheaderchain_") {
		_, err = chain.InsertHeaderChain([]*types.Header{nh}, 1)
	} else {
		_, err = chain.InsertChain(types.Blocks{blk})
	}
	fmt.Printf("VERDICT %s\n", verdictWord(err))
}

func verdictWord(err error) string {
	if err == nil {
		return "accepted"
	}
	return "rejected: " + err.Error()
}

var reHex = regexp.MustCompile(`0x[0-9a-f]+`)

func runHazard(c *fw.Ctx) {
	if inner := os.Getenv(hazardEnv); inner != "" {
		hazardInner(inner, c.Seed)
		os.Exit(0)
	}
	if c.Batch >= len(hazards) {
		return
	}
	name := hazards[c.Batch]
	op := hazardOp(name)
	hc := hazardCase{Template: name, Net: "test", Op: op,
		Note: "a single header (block) that claims height 0: a valid child of the genesis block except for its number; parent hash = the genesis block's, or a hash unknown to the chain; reader = the node's (number, hash) lookup, or hash-only ('lax'). The call runs in a process of its own."}
	c.Case("hazard-"+name, hc, func() {
		var out, errb bytes.Buffer
		// same binary, same child arguments, own scratch directory
		args := append([]string{}, os.Args[1:]...)
		if len(args) >= 8 {
			args[7] = c.Dir
		}
		cmd := exec.Command(os.Args[0], args...)
		cmd.Env = append(os.Environ(), hazardEnv+"="+name)
		cmd.Stdout, cmd.Stderr = &out, &errb
		done := make(chan error, 1)
		if err := cmd.Start(); err != nil {
			c.Inconclusive("hazard_inner_not_started")
			return
		}
		go func() { done <- cmd.Wait() }()
		var werr error
		select {
		case werr = <-done:
		case <-time.After(10 * time.Minute):
			cmd.Process.Kill()
			<-done
			c.Inconclusive("hazard_inner_timeout")
			return
		}
		c.Nontrivial(name)
		c.Count("hazard_cases")
		c.Note("inner exit: %v; stdout: %s", werr, strings.ReplaceAll(out.String(), "\n", " | "))
		verdict := ""
		for _, ln := range strings.Split(out.String(), "\n") {
			if strings.HasPrefix(ln, "VERDICT ") {
				verdict = strings.TrimPrefix(ln, "VERDICT ")
			}
		}
		switch {
		case verdict == "" && werr != nil:
			c.Count("hazard_process_died")
			st := errb.String()
			if i := strings.Index(st, "panic: "); i >= 0 {
				st = st[i:]
			}
			if len(st) > 3000 {
				st = st[:3000]
			}
			c.Violate("engine_panics", op, "first_header_claims_height_0",
				fmt.Sprintf("the process running %s on a header that claims height 0 (%s) died: %v\n%s\n%s", op, name, werr, out.String(), reHex.ReplaceAllString(st, "0x?")))
		case verdict == "accepted":
			c.Violate("accepted_but_invalid", op, "number:first_header_claims_height_0", "a header claiming height 0 on top of the genesis block was accepted")
		case strings.HasPrefix(verdict, "rejected"):
			c.Count("hazard_rejected")
		default:
			c.Inconclusive("hazard_inner_no_verdict")
		}
		if c.WantSample() {
			c.Sample(map[string]interface{}{"case": "hazard-" + name, "input": hc, "outcome": verdict, "inner_exit": fmt.Sprint(werr)})
		}
	})
}
