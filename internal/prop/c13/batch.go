package c13

import (
	"fmt"
	"hash/fnv"
	"math/big"
	"runtime"
	"strings"
	"sync"
	"time"

	"gitlab.com/aquachain/aquachain/common"
	"gitlab.com/aquachain/aquachain/consensus/aquahash"
	"gitlab.com/aquachain/aquachain/core/types"
	"verif/internal/fw"
)

type faultSpec struct {
	Pos  int    `json:"pos"`
	Kind string `json:"kind"` // rule:<mutation> | unknown_parent | broken_link | seal
}

type batchCase struct {
	Net    string      `json:"net"`
	Start  uint64      `json:"start"` // number of the first header of the batch
	Len    int         `json:"len"`
	Base   int         `json:"base_headers"` // headers below the batch known to the chain
	Known  int         `json:"known_prefix"` // the first Known headers of the batch are already in the chain
	Faults []faultSpec `json:"faults"`
	Seals  string      `json:"seals"` // all | none | mixed
	Delay  string      `json:"delay"` // none | reader | gosched | seal
	Lax    bool        `json:"lax_reader"`
	Specs  []hspec     `json:"-"`
}

var batchRuleFaults = []string{"diff+1", "diff-1", "time=parent", "extra=33", "gas=parent+bound", "gas=parent-bound", "gas_used=limit+1", "number+2", "number+0", "time=parent-1"}

var gomaxprocsSet = []int{1, 2, 3, 4, 8, 16}

type builtBatch struct {
	base    []*types.Header
	headers []*types.Header
	seals   []bool
	refFail int    // first failing index per the reference (-1 none)
	refWhy  string // broken rules / fault kind at refFail
	sealAt  uint64 // height whose seal fails (0 none)
}

func (bc *batchCase) faultAt(i int) *faultSpec {
	for k := range bc.Faults {
		if bc.Faults[k].Pos == i {
			return &bc.Faults[k]
		}
	}
	return nil
}

func (bc *batchCase) build(n *network, r *fw.Rand, now int64) *builtBatch {
	bb := &builtBatch{refFail: -1}
	// base chain
	rootH := bc.Start - uint64(bc.Base)
	par := n.ref.ParamsAt(new(big.Int).SetUint64(rootH + 1))
	pds := parentDiffs(par, r)
	spec := hspec{Number: u64s(rootH), Time: fmt.Sprint(1500000000 + int64(r.Intn(100000000))), Diff: pds[r.Intn(6)].String(),
		GasLimit: []uint64{4712388, 8000000, 5120000}[r.Intn(3)], Salt: r.Uint64()}
	hash := common.BytesToHash(r.Bytes(32))
	for i := 0; i < bc.Base; i++ {
		if i > 0 {
			spec = child(n, spec, pickDt(r), r.Uint64())
		}
		h := spec.header(n.cfg, hash)
		hash = h.Hash()
		bb.base = append(bb.base, h)
	}
	prev := spec
	for i := 0; i < bc.Len; i++ {
		s := child(n, prev, pickDt(r), r.Uint64())
		phash := hash
		seal := bc.Seals == "all" || (bc.Seals == "mixed" && r.Bool())
		why := ""
		if f := bc.faultAt(i); f != nil {
			switch {
			case strings.HasPrefix(f.Kind, "rule:"):
				s = mutateSide(n, prev, s, strings.TrimPrefix(f.Kind, "rule:"), now)
			case f.Kind == "unknown_parent" || f.Kind == "broken_link":
				phash = common.BytesToHash(r.Bytes(32))
				why = "unknown_ancestor"
			case f.Kind == "seal":
				seal = true
				if bb.sealAt == 0 {
					bb.sealAt = bigs(s.Number).Uint64()
				}
			}
		}
		bc.Specs = append(bc.Specs, s)
		h := s.header(n.cfg, phash)
		hash = h.Hash()
		bb.headers = append(bb.headers, h)
		bb.seals = append(bb.seals, seal)
		if bb.refFail < 0 && i >= bc.Known {
			if why == "" {
				if broken := n.ref.Check(prev.ref(), s.ref(), now); len(broken) > 0 {
					why = strings.Join(broken, "+")
				}
			}
			if why == "" && seal && bb.sealAt != 0 && bigs(s.Number).IsUint64() && bigs(s.Number).Uint64() == bb.sealAt {
				why = "seal"
			}
			if why != "" {
				bb.refFail, bb.refWhy = i, why
			}
		}
		prev = s
	}
	return bb
}

func (bb *builtBatch) chain(n *network, bc *batchCase) *fakeChain {
	fc := newFakeChain(n.cfg, bc.Lax)
	for _, h := range bb.base {
		fc.add(h)
	}
	for i := 0; i < bc.Known; i++ {
		fc.add(bb.headers[i])
	}
	return fc
}

func genBatchCase(r *fw.Rand, i int) (*network, batchCase) {
	ns := nets()
	n := ns[i%len(ns)]
	bc := batchCase{Net: n.ref.Name}
	// length
	switch x := r.Intn(10); {
	case x < 3:
		bc.Len = r.Range(1, 3)
	case x < 8:
		bc.Len = r.Range(4, 40)
	case x < 9:
		bc.Len = r.Range(41, 120)
	default:
		bc.Len = r.Range(121, 300)
	}
	if i%17 == 3 {
		bc.Len = 1
	}
	if i%13 == 5 {
		bc.Len = r.Range(100, 300)
	}
	// start: near a fork so that the batch crosses it, or at the bottom of the chain
	fh := n.ref.ForkHeights()
	f := fh[r.Intn(len(fh))]
	back := uint64(r.Range(0, bc.Len+2))
	if f > back+1 {
		bc.Start = f - back
	} else {
		bc.Start = uint64(r.Range(1, 3))
	}
	if r.Chance(1, 8) {
		bc.Start = 1
	}
	// headers of hash version 3/4 (16/32 KiB argon2id) are slow under the race
	// detector: long batches stay on the cheaper versions
	if v := n.ref.HeaderVersion(new(big.Int).SetUint64(bc.Start + uint64(bc.Len))); v >= 3 && bc.Len > 40 {
		bc.Len = r.Range(20, 40)
	}
	switch {
	case bc.Start == 1:
		bc.Base = 1
	case bc.Start == 2:
		bc.Base = 2
	default:
		bc.Base = r.Range(2, 4)
		if uint64(bc.Base) > bc.Start {
			bc.Base = int(bc.Start)
		}
	}
	bc.Seals = []string{"all", "none", "mixed"}[r.Intn(3)]
	// the schedule of delay modes, fault counts, positions and kinds is a function
	// of the global case index, so every class is met in every run; the PRNG only
	// fills in parameters
	bc.Delay = []string{"none", "reader", "gosched", "seal"}[(i/4)%4]
	bc.Lax = r.Chance(1, 4)
	nf := []int{1, 0, 1, 2, 1, 3}[(i/5)%6]
	if i%11 == 0 {
		nf = 0
	}
	if bc.Len >= 3 && (i/3)%5 == 0 {
		bc.Known = r.Range(1, bc.Len-1)
	}
	kinds := []string{"rule", "rule", "link", "rule", "seal", "rule", "link", "rule", "seal", "rule"}
	for k := 0; k < nf; k++ {
		var pos int
		switch (i + k) % 4 {
		case 0:
			pos = 0
		case 1:
			pos = 1
		case 2:
			pos = bc.Len - 1
		default:
			pos = r.Intn(bc.Len)
		}
		if pos >= bc.Len {
			pos = bc.Len - 1
		}
		if pos < bc.Known {
			pos = bc.Known
		}
		if bc.faultAt(pos) != nil {
			continue
		}
		kind := kinds[(i/16+k)%len(kinds)]
		switch kind {
		case "rule":
			kind = "rule:" + batchRuleFaults[r.Intn(len(batchRuleFaults))]
		case "link":
			kind = "broken_link"
			if pos == 0 {
				kind = "unknown_parent"
			}
		}
		if kind == "rule:number+0" && bc.Start == 1 && pos == 0 {
			// a first header claiming height 0 is a hazard template of its own (leg "hazard")
			kind = "rule:number+2"
		}
		if kind == "seal" {
			has := false
			for _, f := range bc.Faults {
				has = has || f.Kind == "seal"
			}
			if has || bc.Delay == "seal" {
				kind = "rule:extra=33"
			}
		}
		bc.Faults = append(bc.Faults, faultSpec{Pos: pos, Kind: kind})
	}
	return n, bc
}

type batchRun struct {
	fail  int // first failing index (-1 none)
	err   error
	order string
	got   int
	stuck bool
}

func posClass(i int) string {
	switch {
	case i < 0:
		return "none"
	case i == 0:
		return "index_0"
	case i == 1:
		return "index_1"
	}
	return "index_ge_2"
}

func runBatch(c *fw.Ctx) {
	total := c.Pick(24, 300) // batch cases per child; each runs under 6 worker counts
	orders := map[uint64]bool{}
	defer runtime.GOMAXPROCS(runtime.GOMAXPROCS(0))
	for i := 0; i < total; i++ {
		r := c.Rand("batch", fmt.Sprint(i))
		n, bc := genBatchCase(r, i*c.NBatch+c.Batch)
		now := time.Now().Unix()
		bb := bc.build(n, r, now)
		id := fmt.Sprintf("batch-%d", i)
		c.Case(id, bc, func() { checkBatch(c, n, &bc, bb, r, orders, id) })
	}
	c.Extra("distinct_worker_orders", float64(len(orders)))
}

func checkBatch(c *fw.Ctx, n *network, bc *batchCase, bb *builtBatch, r *fw.Rand, orders map[uint64]bool, id string) {
	mkEngine := func() *aquahash.Aquahash {
		switch {
		case bb.sealAt != 0:
			return aquahash.NewFakeFailer(bb.sealAt)
		case bc.Delay == "seal":
			return aquahash.NewFakeDelayer(time.Duration(r.Range(50, 800)) * time.Microsecond)
		}
		return aquahash.NewFaker()
	}
	// one-by-one: each header against a chain holding the headers before it
	seqFail, seqErr := -1, error(nil)
	{
		eng := mkEngine()
		fc := bb.chain(n, bc)
		for i, h := range bb.headers {
			if err := eng.VerifyHeader(fc, h, bb.seals[i]); err != nil {
				seqFail, seqErr = i, err
				break
			}
			fc.add(h)
		}
	}
	// classes
	c.Count("batch_cases")
	if len(bc.Faults) == 0 {
		c.Count("batch_all_valid")
	}
	if len(bc.Faults) >= 2 {
		c.Count("batch_multi_fault")
	}
	for _, f := range bc.Faults {
		switch {
		case f.Pos == 0:
			c.Count("batch_fault_at_0")
		case f.Pos == 1:
			c.Count("batch_fault_at_1")
		}
		if f.Pos == bc.Len-1 {
			c.Count("batch_fault_at_last")
		}
		if f.Pos > 1 && f.Pos < bc.Len-1 {
			c.Count("batch_fault_random_pos")
		}
		switch f.Kind {
		case "unknown_parent":
			c.Count("batch_unknown_parent")
		case "broken_link":
			c.Count("batch_broken_link")
		case "seal":
			c.Count("batch_seal_fault")
		}
	}
	if bc.Known > 0 {
		c.Count("batch_known_prefix")
	}
	if bc.Len == 1 {
		c.Count("batch_len_1")
	}
	if bc.Len >= 100 {
		c.Count("batch_len_ge_100")
	}
	if len(bc.Faults) > 0 || bc.Len >= 2 {
		c.Nontrivial(fmt.Sprintf("%+v %v", *bc, bc.Specs))
	}

	faultKindAt := func(i int) string {
		if i < 0 {
			return "no_failure"
		}
		if f := bc.faultAt(i); f != nil {
			k := f.Kind
			if strings.HasPrefix(k, "rule:") {
				k = "rule_fault"
			}
			return k
		}
		return "no_fault"
	}

	// sequential vs reference (the header rules again, in chain context)
	if seqFail != bb.refFail {
		at := seqFail
		if at < 0 || (bb.refFail >= 0 && bb.refFail < at) {
			at = bb.refFail
		}
		c.Violate("sequential_differs_from_reference", "VerifyHeader", faultKindAt(at)+"@"+posClass(at),
			fmt.Sprintf("one-by-one verification first fails at %d (%v); the reference at %d (%s)", seqFail, errStr(seqErr), bb.refFail, bb.refWhy))
		return
	}

	for _, g := range gomaxprocsSet {
		runtime.GOMAXPROCS(g)
		run := runOneBatch(bc, bb, n, mkEngine(), r)
		c.Count("batch_runs")
		c.Count(fmt.Sprintf("gomaxprocs:%d", g))
		if run.stuck {
			c.Inconclusive("batch_results_timeout")
			continue
		}
		h := fnv.New64a()
		h.Write([]byte(run.order))
		orders[h.Sum64()] = true
		if run.got != bc.Len {
			c.Violate("batch_result_count", "VerifyHeaders", "", fmt.Sprintf("GOMAXPROCS=%d: %d results for %d headers", g, run.got, bc.Len))
			continue
		}
		if run.fail != seqFail {
			at := run.fail
			if at < 0 || (seqFail >= 0 && seqFail < at) {
				at = seqFail
			}
			c.Violate("batch_differs_from_sequential", "VerifyHeaders", faultKindAt(at)+"@"+posClass(at),
				fmt.Sprintf("GOMAXPROCS=%d delay=%s: batch verification first fails at %d (%v); one-by-one at %d (%v); faults %v; batch of %d from #%d on %s",
					g, bc.Delay, run.fail, errStr(run.err), seqFail, errStr(seqErr), bc.Faults, bc.Len, bc.Start, bc.Net))
			continue
		}
		c.Count("batch_first_failure_agrees")
		if seqFail >= 0 {
			c.Count("batch_first_failure_agrees_on_a_failure")
			if errStr(run.err) != errStr(seqErr) {
				c.Count("batch_same_index_other_error_text")
			}
		}
	}
	if c.WantSample() && len(bc.Faults) > 0 && bc.Len <= 12 {
		c.Sample(map[string]interface{}{"case": id, "input": bc, "headers": bc.Specs, "first_failure": seqFail, "error": errStr(seqErr), "reference": bb.refWhy})
	}
}

// runOneBatch runs VerifyHeaders once and returns the index of the first
// failure in the result stream.
func runOneBatch(bc *batchCase, bb *builtBatch, n *network, eng *aquahash.Aquahash, r *fw.Rand) batchRun {
	fc := bb.chain(n, bc)
	idx := map[common.Hash]int{}
	for i, h := range bb.headers {
		idx[h.Hash()] = i
	}
	var mu sync.Mutex
	var order []byte
	calls := 0
	dr := r.Fork("delay")
	fc.hook = func(hash common.Hash, number uint64) {
		mu.Lock()
		calls++
		if i, ok := idx[hash]; ok {
			order = append(order, byte(i), byte(i>>8))
		}
		var d time.Duration
		if bc.Delay == "reader" && dr.Chance(1, 3) {
			d = time.Duration(dr.Range(1, 300)) * time.Microsecond
		}
		mu.Unlock()
		switch bc.Delay {
		case "reader":
			if d > 0 {
				time.Sleep(d)
			}
		case "gosched":
			runtime.Gosched()
		}
	}
	abort, results := eng.VerifyHeaders(fc, bb.headers, bb.seals)
	defer close(abort)
	run := batchRun{fail: -1}
	timer := time.NewTimer(120 * time.Second)
	defer timer.Stop()
	for i := 0; i < bc.Len; i++ {
		select {
		case err := <-results:
			run.got++
			if err != nil && run.fail < 0 {
				run.fail, run.err = i, err
			}
		case <-timer.C:
			run.stuck = true
			return run
		}
	}
	mu.Lock()
	run.order = string(order)
	mu.Unlock()
	return run
}
