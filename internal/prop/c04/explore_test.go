//go:build verif

package c04

import (
	"fmt"
	"os"
	"runtime/debug"
	"strconv"
	"testing"
	"time"

	"gitlab.com/aquachain/aquachain/common/log"
)

type tsink struct {
	cnt map[string]int
	vio []string
}

func (s *tsink) Violate(clause, op, cause, detail string) {
	s.vio = append(s.vio, clause+"|"+op+"|"+cause+" :: "+detail)
}
func (s *tsink) Count(c string)         { s.cnt[c]++ }
func (s *tsink) CountN(c string, n int) { s.cnt[c] += n }

func TestExplore(t *testing.T) {
	log.Root().SetHandler(log.DiscardHandler())
	if gcp, _ := strconv.Atoi(os.Getenv("C04_GC")); gcp > 0 {
		debug.SetGCPercent(gcp)
	}
	kind := os.Getenv("C04_KIND")
	if kind == "" {
		kind = "archive"
	}
	cfg := os.Getenv("C04_CFG")
	if cfg == "" {
		cfg = "test"
	}
	spec := Spec{Name: "x-" + kind, Kind: kind, Config: cfg, Seed: 1, Size: 30}
	t0 := time.Now()
	wl := Build(spec)
	t.Logf("build %v blocks=%d sh=%v long=%v", time.Since(t0), len(wl.T.Order), wl.ShorterHeavier, wl.LongerFork)
	t0 = time.Now()
	run := wl.Execute(nil, nil)
	t.Logf("execute %v events=%d errs=%v", time.Since(t0), run.J.Len(), nonEmpty(run.StepErrs))
	a := analyse(wl, run)
	classes := map[string]int{}
	for _, c := range a.class {
		classes[c]++
	}
	t.Logf("classes %v", classes)
	if os.Getenv("C04_DUMP") != "" {
		for i := range a.evs {
			fmt.Printf("%4d step=%d/%s %-22s ops=%d label(k=%d)=%s\n", i, a.stepIdx[i], a.stepKind[i], a.class[i], len(a.evs[i].Ops), i, a.label(i))
		}
	}
	s := &tsink{cnt: map[string]int{}}
	rp := newReplayer(a)
	t0 = time.Now()
	step := 1
	if kind != "archive" {
		step = 9
	}
	n := 0
	for k := 0; k <= len(a.evs); k += step {
		rp.advanceTo(k)
		before := len(s.vio)
		rp.checkPrefix(s, a.label(k), true)
		n++
		if len(s.vio) > before {
			s.cnt["viol_at_"+a.label(k)]++
		}
	}
	t.Logf("checked %d prefixes in %v", n, time.Since(t0))
	t.Logf("counts %v", s.cnt)
	seen := map[string]int{}
	for _, v := range s.vio {
		key := v[:40]
		seen[key]++
		if seen[key] <= 2 {
			t.Logf("VIO %s", v)
		}
	}
	t.Logf("violations %d", len(s.vio))
}
