package c04

import (
	"encoding/json"
	"fmt"
	"math/big"
	"sync/atomic"
	"time"

	"gitlab.com/aquachain/aquachain/aquadb"
	"gitlab.com/aquachain/aquachain/common"
	"gitlab.com/aquachain/aquachain/core"
	"gitlab.com/aquachain/aquachain/core/types"
	"gitlab.com/aquachain/aquachain/params"
	"gitlab.com/aquachain/aquachain/rlp"
	"verif/internal/fw"
	"verif/internal/gen"
	"verif/internal/mon/journaldb"
)

// Spec identifies one workload completely: the block tree, the order and
// batching of imports and the API calls between them are a pure function of it.
// It is the replay input of every case.
type Spec struct {
	Name   string `json:"name"`
	Kind   string `json:"kind"`   // archive | prune_flush | prune_stop | prune_restart | bigpre
	Config string `json:"config"` // test | versions | prebyz
	Seed   uint64 `json:"seed"`
	Size   int    `json:"size"` // length of the first branch
}

func (s Spec) pruning() bool { return s.Kind != "archive" }

func (s Spec) config() *params.ChainConfig {
	switch s.Config {
	case "versions":
		return gen.ConfigVersions()
	case "prebyz":
		return gen.ConfigPreByzantium()
	}
	return gen.ConfigTest()
}

func (s Spec) cache() *core.CacheConfig {
	switch s.Kind {
	case "archive":
		return &core.CacheConfig{Disabled: true}
	case "prune_stop", "prune_restart":
		// memory allowance never exceeded: no flush while importing, Stop flushes
		return &core.CacheConfig{TrieNodeLimit: 256 * 1024 * 1024, TrieTimeLimit: 1000 * time.Hour}
	}
	// allowance of zero: every block above triesInMemory flushes the trie that
	// leaves the in-memory window (and garbage-collects the older ones)
	return &core.CacheConfig{TrieNodeLimit: 0, TrieTimeLimit: 1000 * time.Hour}
}

// Step is one API call of the workload.
type Step struct {
	Kind   string // insert | sethead | stop | restart
	Blocks types.Blocks
	N      uint64
}

func (s Step) String() string {
	switch s.Kind {
	case "insert":
		return fmt.Sprintf("insert[%d..%d]", s.Blocks[0].NumberU64(), s.Blocks[len(s.Blocks)-1].NumberU64())
	case "sethead":
		return fmt.Sprintf("sethead(%d)", s.N)
	}
	return s.Kind
}

// Workload is a generated tree plus the API call sequence.
type Workload struct {
	Spec  Spec
	W     *gen.World
	T     *gen.Tree
	Steps []Step
	// facts recorded while building (observation classes produced by construction)
	ShorterHeavier bool // a branch that is shorter than the branch it displaces but heavier
	LongerFork     bool
}

// builder grows a tree in which no two blocks of the same height have the same
// total difficulty, so that the fork choice never reaches its random tie break
// (equal total difficulty and equal number) and every run of the same workload
// writes the same sequence.
type builder struct {
	r    *fw.Rand
	w    *gen.World
	t    *gen.Tree
	seen map[string]bool
}

func newBuilder(r *fw.Rand, w *gen.World) *builder {
	t := gen.NewTree(w)
	b := &builder{r: r, w: w, t: t, seen: map[string]bool{}}
	return b
}

func (b *builder) add(parent *types.Block, plan gen.BlockPlan) *gen.Built {
	// The difficulty rule is two-valued (block time below / not below the
	// duration limit), so two blocks of one height can only differ in total
	// difficulty through the speed classes along their branches: try the
	// planned block time first, then the other class.
	offsets := []int64{plan.TimeOffset, -200, 0}
	for _, off := range offsets {
		plan.TimeOffset = off
		blt := b.w.BuildBlock(b.r, b.t.GenDB, parent, plan)
		td := new(big.Int).Add(b.t.TD[parent.Hash()], blt.Block.Difficulty())
		key := fmt.Sprintf("%d/%s", blt.Block.NumberU64(), td)
		if b.seen[key] {
			continue
		}
		b.seen[key] = true
		b.t.ByHash[blt.Block.Hash()] = blt
		b.t.TD[blt.Block.Hash()] = td
		b.t.Order = append(b.t.Order, blt)
		return blt
	}
	return nil // both speed classes are taken at this height: the caller ends the branch here
}

func (b *builder) plan(maxTx int, fast bool) gen.BlockPlan {
	r := b.r
	p := gen.BlockPlan{Kinds: gen.RandomKinds(r, r.Intn(maxTx+1)), Coinbase: b.w.Coinbases[r.Intn(len(b.w.Coinbases))]}
	switch {
	case fast:
		p.TimeOffset = -200
	case r.Chance(1, 4):
		p.TimeOffset = int64(-r.Range(1, 200))
	case r.Chance(1, 8):
		p.TimeOffset = int64(r.Range(1, 400))
	}
	if r.Chance(1, 5) {
		p.Extra = r.Bytes(r.Range(1, 32))
	}
	return p
}

// chain appends n blocks to parent.
func (b *builder) chain(parent *types.Block, n, maxTx int, fast bool) []*types.Block {
	var out []*types.Block
	for i := 0; i < n; i++ {
		blt := b.add(parent, b.plan(maxTx, fast))
		if blt == nil {
			break
		}
		out = append(out, blt.Block)
		parent = blt.Block
	}
	return out
}

// batches splits a branch into InsertChain calls of 1..max blocks.
func batches(r *fw.Rand, blocks []*types.Block, max int) []Step {
	var out []Step
	for len(blocks) > 0 {
		n := r.Range(1, max)
		if n > len(blocks) {
			n = len(blocks)
		}
		out = append(out, Step{Kind: "insert", Blocks: blocks[:n]})
		blocks = blocks[n:]
	}
	return out
}

// Build generates the workload of a spec.
func Build(spec Spec) *Workload {
	r := fw.NewRand(spec.Seed, "c04-workload", spec.Name)
	w := gen.NewWorld(r, spec.config(), 5)
	b := newBuilder(r, w)
	wl := &Workload{Spec: spec, W: w, T: b.t}
	g := b.t.Genesis
	tdOf := func(x *types.Block) *big.Int { return b.t.TD[x.Hash()] }

	switch spec.Kind {
	case "archive":
		m := spec.Size
		if m < 30 {
			m = 30
		}
		main := b.chain(g, m, 4, false)
		wl.Steps = append(wl.Steps, batches(r, main, 4)...)
		// a short side branch that never wins
		sidePt := main[m-10]
		side := b.chain(sidePt, 2, 3, false)
		wl.Steps = append(wl.Steps, batches(r, side, 2)...)
		// a longer branch: forks 5 below the tip, 8 blocks
		long := b.chain(main[m-6], 8, 4, false)
		if len(long) > 0 && tdOf(long[len(long)-1]).Cmp(tdOf(main[m-1])) > 0 && long[len(long)-1].NumberU64() > main[m-1].NumberU64() {
			wl.LongerFork = true
		}
		wl.Steps = append(wl.Steps, batches(r, long, 3)...)
		head := main[m-1]
		for _, x := range long { // the fork choice takes the heaviest block seen so far
			if tdOf(x).Cmp(tdOf(head)) > 0 {
				head = x
			}
		}
		// a shorter but heavier branch: forks 24 below the current head, 23 fast blocks
		path := b.t.Path(head)
		forkAt := path[len(path)-25]
		sh := b.chain(forkAt, 23, 3, true)
		// the fork choice takes the heaviest block seen so far
		for _, x := range sh {
			if tdOf(x).Cmp(tdOf(head)) > 0 {
				if x.NumberU64() < head.NumberU64() {
					wl.ShorterHeavier = true
				}
				head = x
			}
		}
		wl.Steps = append(wl.Steps, batches(r, sh, 4)...)
		// the new head is extended
		ext := b.chain(head, 3, 4, false)
		wl.Steps = append(wl.Steps, batches(r, ext, 2)...)
		if len(ext) > 0 {
			head = ext[len(ext)-1]
		}
		// rewind, import the same blocks again, stop
		back := uint64(r.Range(2, 6))
		wl.Steps = append(wl.Steps, Step{Kind: "sethead", N: head.NumberU64() - back})
		hp := b.t.Path(head)
		wl.Steps = append(wl.Steps, batches(r, hp[len(hp)-int(back):], 3)...)
		wl.Steps = append(wl.Steps, Step{Kind: "stop"})

	case "prune_flush", "prune_stop":
		m := spec.Size
		if m < 140 {
			m = 140
		}
		main := b.chain(g, m, 2, false)
		wl.Steps = append(wl.Steps, batches(r, main, 6)...)
		// a fork near the tip while everything recent is still in memory
		long := b.chain(main[m-4], 6, 2, false)
		if len(long) > 0 && tdOf(long[len(long)-1]).Cmp(tdOf(main[m-1])) > 0 {
			wl.LongerFork = true
		}
		wl.Steps = append(wl.Steps, batches(r, long, 3)...)
		wl.Steps = append(wl.Steps, Step{Kind: "stop"})

	case "prune_restart":
		m := spec.Size
		if m < 140 {
			m = 140
		}
		main := b.chain(g, m, 2, false)
		wl.Steps = append(wl.Steps, batches(r, main, 6)...)
		wl.Steps = append(wl.Steps, Step{Kind: "restart"})
		// after the restart only head, head-1 and head-127 have state on disk: a
		// fork from head-4 is a chain of blocks with pruned ancestors, stored
		// without state until it is heavier, then re-executed from the last state
		long := b.chain(main[m-5], 8, 2, false)
		if len(long) > 0 && tdOf(long[len(long)-1]).Cmp(tdOf(main[m-1])) > 0 {
			wl.LongerFork = true
		}
		wl.Steps = append(wl.Steps, batches(r, long, 3)...)
		wl.Steps = append(wl.Steps, Step{Kind: "stop"})

	case "bigpre":
		// many fresh recipients per block: > 100 KiB of key preimages are pending
		// when the first trie leaves the in-memory window, so the flush takes its
		// intermediate batch writes
		m := spec.Size
		if m < 132 {
			m = 132
		}
		const perBlock = 42
		nonces := make([]uint64, len(w.Keys))
		var main []*types.Block
		parent := g
		for i := 0; i < m; i++ {
			num := new(big.Int).Add(parent.Number(), big.NewInt(1))
			var metas []*gen.TxMeta
			for j := 0; j < perBlock; j++ {
				s := j % len(w.Keys)
				var to common.Address
				copy(to[:], r.Bytes(20))
				to[0] = 0xee
				tx := types.NewTransaction(nonces[s], to, big.NewInt(1), 21000, big.NewInt(1e9), nil)
				signed, err := types.SignTx(tx, w.Signer(num), w.Keys[s])
				if err != nil {
					panic(err)
				}
				nonces[s]++
				metas = append(metas, &gen.TxMeta{Kind: gen.TxTransfer, Sender: s, Tx: signed})
			}
			blt := b.add(parent, gen.BlockPlan{Reuse: metas, Coinbase: w.Coinbases[i%len(w.Coinbases)]})
			if blt == nil || len(blt.Txs) != perBlock {
				panic("c04: bigpre block did not take all its transactions")
			}
			main = append(main, blt.Block)
			parent = blt.Block
		}
		wl.Steps = append(wl.Steps, batches(r, main, 8)...)
		wl.Steps = append(wl.Steps, Step{Kind: "stop"})
	default:
		panic("c04: unknown workload kind " + spec.Kind)
	}
	return wl
}

// InsertSteps returns the import calls in their original order and batching.
func (wl *Workload) InsertSteps() []Step {
	var out []Step
	for _, s := range wl.Steps {
		if s.Kind == "insert" {
			out = append(out, s)
		}
	}
	return out
}

// Lookup finds a generated block (or the genesis) by hash.
func (wl *Workload) Lookup(h common.Hash) *types.Block {
	if h == wl.T.Genesis.Hash() {
		return wl.T.Genesis
	}
	if b, ok := wl.T.ByHash[h]; ok {
		return b.Block
	}
	return nil
}

// Run is the outcome of executing a workload on a journaled database.
type Run struct {
	J        *journaldb.DB
	Final    common.Hash // head after the last step (crash-free runs)
	StepErrs []string    // per step: "" or the error / panic text
	// write-failure runs
	Stopped   bool   // the workload was abandoned (a lock was found held)
	FailStep  int    // step during which the injected failure happened (-1 none)
	LockLeak  string // which lock was found held after the failing step returned
	PanicStep int    // step that panicked (-1 none)
	PanicText string
	chain     *core.BlockChain
}

// Execute runs the workload on a fresh journaled MemDatabase. fail (may be nil)
// arms the write-failure injector; onFail runs at the moment of the failure.
// After a failure has happened the locks are probed at every quiescent point; a
// held lock ends the run (going on would block forever).
func (wl *Workload) Execute(fail *journaldb.FailSpec, onFail func(*journaldb.Failure)) *Run {
	return wl.execute(fail, onFail, nil, nil)
}

// execute: store (may be nil) is an empty database to run on instead of a fresh
// MemDatabase; withJournal sees the journal before the first write.
func (wl *Workload) execute(fail *journaldb.FailSpec, onFail func(*journaldb.Failure), withJournal func(*journaldb.DB), store aquadb.Database) *Run {
	var j *journaldb.DB
	if store != nil {
		wl.W.CommitGenesis(store)
		j = journaldb.New(store, nil)
	} else {
		mem, _ := wl.W.NewDB()
		j = journaldb.New(mem, journaldb.SnapshotMem(mem))
	}
	if withJournal != nil {
		withJournal(j)
	}
	run := &Run{J: j, FailStep: -1, PanicStep: -1}
	j.OnFail = onFail
	j.FailOn(fail)
	core.VerifC04ResetLastWrite()
	open := func() (bc *core.BlockChain, err error) {
		defer func() {
			if p := recover(); p != nil {
				err = fmt.Errorf("panic: %v", p)
			}
		}()
		return wl.W.NewChain(j, wl.Spec.cache())
	}
	bc, err := open()
	if err != nil {
		run.StepErrs = append(run.StepErrs, "open: "+err.Error())
		run.PanicStep = 0
		run.PanicText = err.Error()
		return run
	}
	liveChain.Store(bc)
	stopped := false
	for i, st := range wl.Steps {
		if st.Kind == "restart" {
			j.MarkStep(fmt.Sprintf("%d:stop", i))
		} else {
			j.MarkStep(fmt.Sprintf("%d:%s", i, st.Kind))
		}
		msg := ""
		func() {
			defer func() {
				if p := recover(); p != nil {
					msg = fmt.Sprintf("panic: %v", p)
					if run.PanicStep < 0 {
						run.PanicStep, run.PanicText = i, msg
					}
				}
			}()
			switch st.Kind {
			case "insert":
				if _, err := bc.InsertChain(st.Blocks); err != nil {
					msg = err.Error()
				}
			case "sethead":
				if err := bc.SetHead(st.N); err != nil {
					msg = err.Error()
				}
			case "stop":
				bc.Stop()
				stopped = true
			case "restart":
				bc.Stop()
				j.MarkStep(fmt.Sprintf("%d:reopen", i))
				core.VerifC04ResetLastWrite()
				nbc, err := wl.W.NewChain(j, wl.Spec.cache())
				if err != nil {
					msg = err.Error()
					stopped = true
				} else {
					bc = nbc
					liveChain.Store(bc)
				}
			}
		}()
		run.StepErrs = append(run.StepErrs, msg)
		if f := j.Failed(); f != nil {
			if run.FailStep < 0 {
				run.FailStep = i
			}
			// quiescent point after a failed write: no method is running, so a
			// lock that cannot be taken was left held by one that returned
			if leak := probeLocks(bc); leak != "" {
				run.LockLeak = leak
				run.Stopped = true
				break
			}
		}
		if run.PanicStep >= 0 {
			break
		}
	}
	run.chain = bc
	if !run.Stopped && run.PanicStep < 0 {
		run.Final = bc.CurrentBlock().Hash()
		if !stopped {
			j.MarkStep(fmt.Sprintf("%d:stop", len(wl.Steps)))
			bc.Stop()
		}
	}
	return run
}

// liveChain is the chain object the running workload currently drives (read by
// the lock monitor of a fault-injection process).
var liveChain atomic.Value

// probeLocks returns the name of a lock that is held at a quiescent point, or "".
func probeLocks(bc *core.BlockChain) string {
	if !bc.VerifC04TrieDB().VerifLockFree() {
		return "trie_database_lock"
	}
	mu, chainmu, procmu := bc.VerifC04LocksFree()
	switch {
	case !mu:
		return "blockchain_mu"
	case !chainmu:
		return "blockchain_chainmu"
	case !procmu:
		return "blockchain_procmu"
	}
	return ""
}

// ---------------------------------------------------------------------------
// Serialisation: a fault-injection process loads the workload its parent
// generated instead of generating it again (the generator opens a chain per
// block and is the expensive part).

type wireStep struct {
	Kind   string `json:"k"`
	Blocks []int  `json:"b,omitempty"` // indices into the block list
	N      uint64 `json:"n,omitempty"`
}

type wireWorkload struct {
	Spec           Spec       `json:"spec"`
	Blocks         [][]byte   `json:"blocks"` // RLP, generation order
	Steps          []wireStep `json:"steps"`
	ShorterHeavier bool       `json:"sh"`
	LongerFork     bool       `json:"lf"`
}

// Encode serialises the workload.
func (wl *Workload) Encode() ([]byte, error) {
	ww := wireWorkload{Spec: wl.Spec, ShorterHeavier: wl.ShorterHeavier, LongerFork: wl.LongerFork}
	idx := map[common.Hash]int{}
	for i, b := range wl.T.Order {
		enc, err := rlp.EncodeToBytes(b.Block)
		if err != nil {
			return nil, err
		}
		ww.Blocks = append(ww.Blocks, enc)
		idx[b.Block.Hash()] = i
	}
	for _, st := range wl.Steps {
		ws := wireStep{Kind: st.Kind, N: st.N}
		for _, b := range st.Blocks {
			ws.Blocks = append(ws.Blocks, idx[b.Hash()])
		}
		ww.Steps = append(ww.Steps, ws)
	}
	return json.Marshal(ww)
}

// DecodeWorkload rebuilds a workload: the world (genesis, keys) is regenerated
// from the spec, the blocks are taken from the encoding.
func DecodeWorkload(data []byte) (*Workload, error) {
	var ww wireWorkload
	if err := json.Unmarshal(data, &ww); err != nil {
		return nil, err
	}
	spec := ww.Spec
	r := fw.NewRand(spec.Seed, "c04-workload", spec.Name)
	w := gen.NewWorld(r, spec.config(), 5)
	t := gen.NewTree(w)
	wl := &Workload{Spec: spec, W: w, T: t, ShorterHeavier: ww.ShorterHeavier, LongerFork: ww.LongerFork}
	var blocks []*types.Block
	for _, enc := range ww.Blocks {
		var b types.Block
		if err := rlp.DecodeBytes(enc, &b); err != nil {
			return nil, err
		}
		b.SetVersion(spec.config().GetBlockVersion(b.Number()))
		ptd := t.TD[b.ParentHash()]
		if ptd == nil {
			return nil, fmt.Errorf("c04: block %d has no parent in the encoding", b.NumberU64())
		}
		t.ByHash[b.Hash()] = &gen.Built{Block: &b}
		t.TD[b.Hash()] = new(big.Int).Add(ptd, b.Difficulty())
		t.Order = append(t.Order, t.ByHash[b.Hash()])
		blocks = append(blocks, &b)
	}
	for _, ws := range ww.Steps {
		st := Step{Kind: ws.Kind, N: ws.N}
		for _, i := range ws.Blocks {
			st.Blocks = append(st.Blocks, blocks[i])
		}
		wl.Steps = append(wl.Steps, st)
	}
	return wl, nil
}

var _ = aquadb.IdealBatchSize
