package c04

import (
	"encoding/json"
	"fmt"
	"hash/fnv"
	"os"
	"os/exec"
	"path/filepath"
	"regexp"
	"runtime"
	"runtime/debug"
	"strconv"
	"strings"
	"sync"
	"syscall"
	"time"

	"gitlab.com/aquachain/aquachain/common"
	"gitlab.com/aquachain/aquachain/common/log"
	"gitlab.com/aquachain/aquachain/core"
	"verif/internal/fw"
	"verif/internal/mon/journaldb"
)

// The write-failure leg. One injection = one process (a "grandchild": the
// vcheck binary started with the sub-command c04fault), because most failed
// chain-database writes end in log.Crit -> os.Exit(1).

// failPlan is the share of one batch: which events of which workload fail.
type failPlan struct {
	Spec Spec
	Mode string // stride | flush
	Mod  int
	Rem  int
	Max  int // flush mode: at most this many injections (0 = all)
}

func failSpecs(tier string, seed uint64) []failPlan {
	sp := func(kind, cfg string, size int, tag string) Spec {
		return Spec{Name: fmt.Sprintf("f-%s-%s-%s", kind, cfg, tag), Kind: kind, Config: cfg, Seed: seed, Size: size}
	}
	var out []failPlan
	if tier == "thorough" {
		// every event of six workloads
		for i, s := range []Spec{sp("archive", "test", 31, "a"), sp("archive", "versions", 33, "b"), sp("archive", "prebyz", 30, "c"),
			sp("prune_flush", "test", 141, "d"), sp("prune_restart", "versions", 140, "e"), sp("prune_stop", "prebyz", 140, "f")} {
			_ = i
			for r := 0; r < 8; r++ {
				out = append(out, failPlan{Spec: s, Mode: "stride", Mod: 8, Rem: r})
			}
		}
		out = append(out, failPlan{Spec: sp("bigpre", "test", 132, "g"), Mode: "flush", Mod: 2, Rem: 0})
		out = append(out, failPlan{Spec: sp("bigpre", "test", 132, "g"), Mode: "flush", Mod: 2, Rem: 1})
		return out
	}
	// quick: every 3rd event of two archive workloads (5 batches each), flush,
	// Stop and restart events of two pruning workloads, the flush events of the
	// preimage-heavy workload
	for _, s := range []Spec{sp("archive", "test", 30, "a"), sp("archive", "prebyz", 31, "b")} {
		for r := 0; r < 5; r++ {
			out = append(out, failPlan{Spec: s, Mode: "stride", Mod: 15, Rem: 3 * r})
		}
	}
	for _, s := range []Spec{sp("prune_flush", "test", 140, "d"), sp("prune_restart", "versions", 140, "e")} {
		for r := 0; r < 2; r++ {
			out = append(out, failPlan{Spec: s, Mode: "flush", Mod: 2, Rem: r, Max: 12})
		}
	}
	out = append(out, failPlan{Spec: sp("bigpre", "test", 132, "g"), Mode: "flush", Mod: 2, Rem: 0, Max: 4})
	out = append(out, failPlan{Spec: sp("bigpre", "test", 132, "g"), Mode: "flush", Mod: 2, Rem: 1, Max: 3})
	return out
}

// FaultIn is what a grandchild is told.
type FaultIn struct {
	Spec     Spec        `json:"spec"`
	Workload string      `json:"workload"` // file with the encoded workload ("" = generate from the spec)
	Mode     string      `json:"mode"`     // "" write failure at event Index | "kill": SIGKILL self after write number Index, on LevelDB in Dir
	Dir      string      `json:"dir"`
	Index    int         `json:"index"`
	Final    common.Hash `json:"final"` // head of the crash-free run
}

// FaultPre is written at the moment of the failure (the process may die right after).
type FaultPre struct {
	Index     int    `json:"index"`
	Class     string `json:"class"`
	StepKind  string `json:"step_kind"`
	ClassHash uint64 `json:"class_hash"` // over the classes of the events before the failure
}

type faultVio struct {
	Clause, Op, Cause, Detail string
}

// FaultOut is what a grandchild that lived reports.
type FaultOut struct {
	Pre        *FaultPre      `json:"pre"`
	Events     int            `json:"events"`
	StepErrs   []string       `json:"step_errs"`
	FailStep   int            `json:"fail_step"`
	LockLeak   string         `json:"lock_leak"`
	Parked     string         `json:"parked"`      // stack of the workload goroutine found parked for ever on a lock
	ParkedIn   string         `json:"parked_in"`   // "trie" | "chain"
	ParkedPath string         `json:"parked_path"` // node functions from the lock call outwards
	ParkedStep string         `json:"parked_step"` // workload step kind that never returned
	PanicStep  int            `json:"panic_step"`
	PanicText  string         `json:"panic_text"`
	Violations []faultVio     `json:"violations"`
	Counters   map[string]int `json:"counters"`
	Done       bool           `json:"done"`
}

type collector struct{ out *FaultOut }

func (c *collector) Violate(clause, op, cause, detail string) {
	c.out.Violations = append(c.out.Violations, faultVio{clause, op, cause, detail})
}
func (c *collector) Count(class string)         { c.out.Counters[class]++ }
func (c *collector) CountN(class string, n int) { c.out.Counters[class] += n }

func classHash(classes []string) uint64 {
	h := fnv.New64a()
	for _, c := range classes {
		h.Write([]byte(c))
		h.Write([]byte{0})
	}
	return h.Sum64()
}

func writeJSON(path string, v interface{}) {
	b, _ := json.Marshal(v)
	tmp := path + ".tmp"
	if err := os.WriteFile(tmp, b, 0o644); err == nil {
		os.Rename(tmp, path)
	}
}

// FaultMain is the grandchild: vcheck c04fault IN OUT.
func FaultMain(args []string) int {
	if len(args) < 2 {
		fmt.Fprintln(os.Stderr, "usage: vcheck c04fault IN.json OUT.json")
		return 2
	}
	log.Root().SetHandler(log.DiscardHandler())
	debug.SetGCPercent(400)
	var in FaultIn
	b, err := os.ReadFile(args[0])
	if err == nil {
		err = json.Unmarshal(b, &in)
	}
	if err != nil {
		fmt.Fprintln(os.Stderr, err)
		return 2
	}
	outPath := args[1]
	out := &FaultOut{Counters: map[string]int{}, FailStep: -1, PanicStep: -1}
	var wl *Workload
	if in.Workload != "" {
		data, err := os.ReadFile(in.Workload)
		if err == nil {
			wl, err = DecodeWorkload(data)
		}
		if err != nil {
			fmt.Fprintln(os.Stderr, err)
			return 2
		}
	} else {
		wl = Build(in.Spec)
	}
	if in.Mode == "kill" {
		return killMain(in, wl, outPath)
	}
	var jref *journaldb.DB
	onFail := func(f *journaldb.Failure) {
		evs := jref.Events()
		classes := make([]string, len(evs))
		for i := range evs {
			classes[i] = eventClass(&evs[i])
		}
		step := "open"
		if m := jref.Marks(); len(m) > 0 {
			lab := m[len(m)-1].Label
			step = lab[strings.IndexByte(lab, ':')+1:]
		}
		out.Pre = &FaultPre{Index: f.Index, Class: eventClass(&f.Event), StepKind: step, ClassHash: classHash(classes)}
		writeJSON(outPath+".pre", out.Pre)
	}
	// The workload runs on its own goroutine. Once the failure is injected this
	// goroutine looks at the goroutine stacks from time to time: if the workload
	// is parked in RWMutex.Lock of the trie database while no goroutine is inside
	// a trie-database method, nobody can ever release that lock - it was left
	// held by a method that has returned. The clock only decides when to look;
	// the verdict is read off the stacks.
	failedCh := make(chan struct{})
	inner := onFail
	onFail = func(f *journaldb.Failure) {
		inner(f)
		close(failedCh)
	}
	doneCh := make(chan *Run, 1)
	go func() {
		doneCh <- wl.execute(&journaldb.FailSpec{Index: in.Index}, onFail, func(j *journaldb.DB) { jref = j }, nil)
	}()
	var run *Run
	select {
	case run = <-doneCh:
	case <-failedCh:
		tick := time.NewTicker(100 * time.Millisecond)
		deadline := time.After(25 * time.Minute)
		seen := 0
		for run == nil {
			select {
			case run = <-doneCh:
			case <-tick.C:
				if in, path, d := provenStuck(); d != "" {
					if seen++; seen >= 3 {
						out.Parked, out.ParkedIn, out.ParkedPath = d, in, path
						run = &Run{J: jref, FailStep: -1, PanicStep: -1, Stopped: true, LockLeak: in + "_lock"}
						if m := jref.Marks(); len(m) > 0 {
							lab := m[len(m)-1].Label
							run.FailStep, _ = strconv.Atoi(lab[:strings.IndexByte(lab, ':')])
							out.ParkedStep = lab[strings.IndexByte(lab, ':')+1:]
						}
					}
				} else {
					seen = 0
				}
			case <-deadline:
				fmt.Fprintln(os.Stderr, "c04fault: workload did not finish; no proof of a held lock in the stacks")
				return 3
			}
		}
		tick.Stop()
	}
	out.Events = run.J.Len()
	out.StepErrs = run.StepErrs
	out.FailStep, out.LockLeak, out.PanicStep, out.PanicText = run.FailStep, run.LockLeak, run.PanicStep, run.PanicText
	// the database as it now is must still satisfy the reopen oracle
	a := analyse(wl, run)
	a.final = in.Final
	rp := newReplayer(a)
	rp.advanceTo(len(a.evs))
	col := &collector{out}
	func() {
		defer func() {
			if p := recover(); p != nil {
				col.Violate("panic", "after_failed_write", stable(fmt.Sprint(p)), fmt.Sprintf("reopen oracle panicked: %v", p))
			}
		}()
		rp.checkPrefix(col, "after_failed_write", true)
	}()
	out.Done = true
	writeJSON(outPath, out)
	return 0
}

// provenStuck inspects all goroutine stacks and returns a proof that the
// workload can never continue, or "". The proof: the workload goroutine is
// parked in a sync lock acquisition called from node code; every other
// goroutine is outside node code (apart from the chain's idle future-block
// ticker), so no running code can release that lock - it is held by a method
// that has returned, or by the parked goroutine itself further up its own
// stack; and the non-blocking probe of that lock (hooks) fails. in tells whose
// lock ("trie" node database, "chain" BlockChain mutexes), path lists the node
// functions from the lock call outwards.
func provenStuck() (in, path, stack string) {
	buf := make([]byte, 1<<20)
	buf = buf[:runtime.Stack(buf, true)]
	const node = "gitlab.com/aquachain/aquachain/"
	var work []string
	workHdr := ""
	for _, g := range strings.Split(string(buf), "\n\n") {
		lines := strings.Split(g, "\n")
		if len(lines) < 2 {
			continue
		}
		var fns []string
		for _, ln := range lines[1:] {
			if !strings.HasPrefix(ln, "\t") {
				fns = append(fns, ln)
			}
		}
		isWork, firstNode := false, ""
		for _, fn := range fns {
			if strings.HasPrefix(fn, "verif/internal/prop/c04.(*Workload).execute") {
				isWork = true
			}
			if firstNode == "" && strings.HasPrefix(fn, node) {
				firstNode = fn
			}
		}
		switch {
		case isWork:
			work, workHdr, stack = fns, lines[0], g
		case firstNode == "":
			// runtime, signal handling, this monitor: cannot release a node lock
		case strings.HasPrefix(firstNode, node+"core.(*BlockChain).update(") && strings.Contains(lines[0], "[select"):
			// the chain's ticker loop, idle
		default:
			return "", "", "" // other node code is alive: no proof
		}
	}
	if work == nil || !(strings.Contains(workHdr, "[sync.RWMutex.Lock") || strings.Contains(workHdr, "[sync.Mutex.Lock") || strings.Contains(workHdr, "[sync.RWMutex.RLock")) {
		return "", "", ""
	}
	var chain []string
	for _, fn := range work {
		if strings.HasPrefix(fn, node) {
			short := strings.TrimPrefix(fn, node)
			if i := strings.LastIndex(short, "("); i > 0 {
				short = short[:i]
			}
			// "core.(*BlockChain).SetHead" -> "BlockChain.SetHead" (signature-safe)
			short = reRecv.ReplaceAllString(short, "$1.")
			chain = append(chain, short)
		} else if len(chain) > 0 {
			break
		}
	}
	if len(chain) == 0 {
		return "", "", ""
	}
	bc, _ := liveChain.Load().(*core.BlockChain)
	if bc == nil {
		return "", "", ""
	}
	switch {
	case strings.HasPrefix(work0(work, node), node+"trie."):
		if bc.VerifC04TrieDB().VerifLockFree() {
			return "", "", ""
		}
		in = "trie"
	case strings.HasPrefix(work0(work, node), node+"core.(*BlockChain)."):
		if mu, chainmu, procmu := bc.VerifC04LocksFree(); mu && chainmu && procmu {
			return "", "", ""
		}
		in = "chain"
	default:
		return "", "", ""
	}
	if len(chain) > 5 {
		chain = chain[:5]
	}
	return in, strings.Join(chain, "<"), stack
}

var reRecv = regexp.MustCompile(`^[\w/]+\.\(\*?(\w+)\)\.`)

// work0 returns the innermost node-code frame of a stack.
func work0(fns []string, node string) string {
	for _, fn := range fns {
		if strings.HasPrefix(fn, node) {
			return fn
		}
	}
	return ""
}

// selectFailures lists the event indices of a plan.
func selectFailures(p failPlan, a *analysis) (sel []int) {
	n := len(a.evs)
	switch p.Mode {
	case "stride":
		for j := 0; j < n; j++ {
			if j%p.Mod == p.Rem {
				sel = append(sel, j)
			}
		}
	case "flush":
		cnt := 0
		var first, rest []int
		for j := 0; j < n; j++ {
			// forced template: every intermediate preimage write of a flush is
			// taken by the first batch of the workload, whatever the stride
			if midFlush(&a.evs[j]) {
				if p.Rem == 0 {
					first = append(first, j)
				}
				continue
			}
			if a.class[j] == "trie_batch_write" || a.class[j] == "preimage_batch_write" || a.stepKind[j] == "stop" || a.stepKind[j] == "reopen" {
				if cnt%p.Mod == p.Rem {
					rest = append(rest, j)
				}
				cnt++
			}
		}
		sel = append(first, rest...)
		if p.Max > 0 && len(sel) > p.Max {
			sel = sel[:p.Max]
		}
	}
	return
}

func runFail(c *fw.Ctx, plan failPlan) {
	spec := plan.Spec
	var wl *Workload
	var a *analysis
	ok := setupCase(c, "run-"+spec.Name, spec, func() {
		wl = Build(spec)
		run := wl.Execute(nil, nil)
		for i, e := range run.StepErrs {
			if e != "" {
				// not a crash-consistency verdict: without a clean reference run
				// nothing is checked and the observation gates fail the run
				c.Note("crash-free run of %s failed at step %d: %s", spec.Name, i, e)
				c.Inconclusive("crash_free_run_error")
				return
			}
		}
		a = analyse(wl, run)
	})
	if !ok || a == nil {
		return
	}
	sel := selectFailures(plan, a)
	if plan.Rem == 0 {
		c.CountN("fail_events_in_workloads", len(a.evs))
	}
	exe, err := os.Executable()
	if err != nil {
		exe = os.Args[0]
	}
	wlPath := filepath.Join(c.Dir, "workload-"+spec.Name+".json")
	if enc, err := wl.Encode(); err == nil {
		if os.WriteFile(wlPath, enc, 0o644) != nil {
			wlPath = ""
		}
	} else {
		wlPath = ""
	}
	rp := newReplayer(a)
	// crash prefixes must be visited in increasing order by the replayer
	order := append([]int{}, sel...)
	sortInts(order)
	// the injection processes are independent of this one: run three at a time,
	// then evaluate them in order
	results := map[int]*faultRes{}
	{
		var mu sync.Mutex
		var wg sync.WaitGroup
		sem := make(chan struct{}, 3)
		for _, j := range sel {
			if id := fmt.Sprintf("%s!%d", spec.Name, j); c.OnlyCase != "" && c.OnlyCase != id && c.OnlyCase != id+"-reopen" {
				continue // replay of one case: only its injection is needed
			}
			wg.Add(1)
			go func(j int) {
				defer wg.Done()
				sem <- struct{}{}
				defer func() { <-sem }()
				c.Note("inject %s!%d (%s)", spec.Name, j, a.class[j])
				r := spawnFault(c, exe, fmt.Sprintf("%s!%d", spec.Name, j), FaultIn{Spec: spec, Workload: wlPath, Index: j, Final: a.final})
				mu.Lock()
				results[j] = r
				mu.Unlock()
			}(j)
		}
		wg.Wait()
	}
	for _, j := range sel {
		id := fmt.Sprintf("%s!%d", spec.Name, j)
		c.Case(id, map[string]interface{}{"workload": spec, "fail_event": j, "of": len(a.evs), "event_class": a.class[j], "step": a.stepKind[j]}, func() {
			c.Count("fail_injected")
			if a.class[j] == "trie_batch_write" || a.class[j] == "preimage_batch_write" {
				c.Count("fail_on_trie_or_preimage_batch")
			}
			if midFlush(&a.evs[j]) {
				c.Count("fail_on_preimage_batch_mid_flush")
			}
			r := results[j]
			if r == nil {
				return
			}
			// the intermediate flush of a trie-database commit is another code
			// path than its final write: keep the causes apart
			cls := a.class[j]
			if midFlush(&a.evs[j]) {
				cls += "_mid_commit"
			}
			op := "failed_write_in_" + a.stepKind[j]
			switch {
			case r.to:
				if strings.Contains(r.dmp, "sync.(*RWMutex).Lock") && strings.Contains(r.dmp, "trie.(*Database)") {
					c.Violate("deadlock_after_failed_write", op, cls, "process idle for the whole watchdog period with a goroutine parked in RWMutex.Lock of the trie database:\n"+truncate(r.dmp, 4000))
				} else {
					c.Inconclusive("fault_process_watchdog")
				}
				return
			case r.out != nil && r.out.Done:
				o := r.out
				if o.Pre == nil {
					c.Violate("harness_failure_not_injected", op, "", fmt.Sprintf("event %d was never reached (journal has %d events)", j, o.Events))
					return
				}
				if o.Pre.Class != a.class[j] {
					c.Inconclusive("journal_not_reproducible")
					return
				}
				c.Count("fail_survived_and_checked")
				for k, n := range o.Counters {
					c.CountN("afterfail_"+k, n)
				}
				if o.Parked != "" && o.ParkedIn == "trie" {
					c.Violate("lock_held_after_failed_write", op, cls,
						fmt.Sprintf("write %d (%s) returned an error during step %d; the same API call then blocked for ever: its goroutine is parked in a lock acquisition of the trie database (%s) while no other goroutine is inside node code and the lock cannot be taken (it was left held by a method that returned):\n%s",
							j, a.class[j], o.FailStep, o.ParkedPath, truncate(o.Parked, 2500)))
				} else if o.Parked != "" {
					c.Violate("deadlock_after_failed_write", "blocked_in_"+o.ParkedStep, o.ParkedPath,
						fmt.Sprintf("write %d (%s, during a %s step) returned an error; a later %s call (step %d) blocked for ever: its goroutine is parked in a lock acquisition at %s while no other goroutine is inside node code and the chain mutexes cannot be taken (step results before: %v):\n%s",
							j, a.class[j], a.stepKind[j], o.ParkedStep, o.FailStep, o.ParkedPath, nonEmpty(o.StepErrs), truncate(o.Parked, 2500)))
				} else if o.LockLeak != "" {
					c.Violate("lock_held_after_failed_write", op, cls,
						fmt.Sprintf("write %d (%s) returned an error during step %d; after the API call returned, %s could not be taken although no method was running (step results: %v)",
							j, a.class[j], o.FailStep, o.LockLeak, nonEmpty(o.StepErrs)))
				} else {
					c.Count("fail_locks_free_after")
				}
				if o.PanicStep >= 0 {
					c.Violate("panic_after_failed_write", op, stable(o.PanicText), fmt.Sprintf("write %d (%s) failed; step %d then panicked: %s", j, a.class[j], o.PanicStep, o.PanicText))
				}
				for _, v := range o.Violations {
					c.Violate(v.Clause, v.Op, v.Cause, fmt.Sprintf("after failed write %d (%s, step results %v): %s", j, a.class[j], nonEmpty(o.StepErrs), v.Detail))
				}
			case r.pre != nil && strings.Contains(r.err, "exit status 3"):
				// the fault process gave up waiting for its workload without
				// finding a proof of a held lock in the stacks
				c.Inconclusive("fault_process_no_verdict")
			case r.pre != nil:
				// the process ended itself after the failed write (log.Crit): the
				// database is the crash prefix j, checked below
				if r.pre.Class != a.class[j] || r.pre.Index != j || r.pre.ClassHash != classHash(a.class[:j]) {
					c.Inconclusive("journal_not_reproducible")
					return
				}
				if !strings.Contains(r.err, "exit status 1") {
					c.Violate("process_died_after_failed_write", op, stable(firstPanicLine(r.dmp)), fmt.Sprintf("write %d (%s) failed; the process then died (%s):\n%s", j, a.class[j], r.err, truncate(r.dmp, 3000)))
					return
				}
				c.Count("fail_process_exited_by_crit")
			default:
				c.Violate("process_died_after_failed_write", op, "before_failure_record", fmt.Sprintf("fault process ended without reaching event %d: %s\n%s", j, r.err, truncate(r.dmp, 3000)))
			}
		})
	}
	// processes that exited through log.Crit left the crash prefix j behind
	for _, j := range order {
		r := results[j]
		if r == nil || r.pre == nil || (r.out != nil && r.out.Done) || r.to || !strings.Contains(r.err, "exit status 1") {
			continue
		}
		id := fmt.Sprintf("%s!%d-reopen", spec.Name, j)
		c.Case(id, map[string]interface{}{"workload": spec, "prefix": j, "of": len(a.evs), "phase": a.label(j), "after": "log.Crit exit on failed write"}, func() {
			rp.advanceTo(j)
			c.Count("fail_crit_prefix_reopened")
			rp.checkPrefix(c, a.label(j), true)
		})
	}
	c.Sample(map[string]interface{}{"workload": spec, "journal_events": len(a.evs), "failures_injected": len(sel), "mode": plan.Mode})
}

func nonEmpty(s []string) []string {
	var out []string
	for i, e := range s {
		if e != "" {
			out = append(out, fmt.Sprintf("step %d: %s", i, e))
		}
	}
	return out
}

func firstPanicLine(s string) string {
	for _, ln := range strings.Split(s, "\n") {
		if strings.HasPrefix(ln, "panic: ") || strings.HasPrefix(ln, "fatal error: ") {
			return ln
		}
	}
	return "exit"
}

func truncate(s string, n int) string {
	if len(s) > n {
		return s[:n] + "...[truncated]"
	}
	return s
}

func sortInts(a []int) {
	for i := 1; i < len(a); i++ {
		for j := i; j > 0 && a[j] < a[j-1]; j-- {
			a[j], a[j-1] = a[j-1], a[j]
		}
	}
}

// spawnFault runs one grandchild under a watchdog.
type faultRes struct {
	pre *FaultPre
	out *FaultOut
	err string
	to  bool
	dmp string
}

func spawnFault(c *fw.Ctx, exe, id string, in FaultIn) *faultRes {
	r := &faultRes{}
	base := filepath.Join(c.Dir, strings.NewReplacer("!", "_", "/", "_").Replace(id))
	inPath, outPath, errPath := base+".in.json", base+".out.json", base+".stderr"
	writeJSON(inPath, in)
	defer func() {
		for _, p := range []string{inPath, outPath, outPath + ".pre", errPath} {
			os.Remove(p)
		}
	}()
	ef, _ := os.Create(errPath)
	cmd := exec.Command(exe, "c04fault", inPath, outPath)
	cmd.Stdout, cmd.Stderr = ef, ef
	cmd.SysProcAttr = &syscall.SysProcAttr{Setpgid: true}
	if err := cmd.Start(); err != nil {
		r.err = err.Error()
		ef.Close()
		return r
	}
	done := make(chan error, 1)
	go func() { done <- cmd.Wait() }()
	select {
	case err := <-done:
		if err != nil {
			r.err = err.Error()
		}
	case <-time.After(30 * time.Minute):
		syscall.Kill(-cmd.Process.Pid, syscall.SIGQUIT)
		select {
		case <-done:
		case <-time.After(10 * time.Second):
			syscall.Kill(-cmd.Process.Pid, syscall.SIGKILL)
			<-done
		}
		r.to = true
	}
	ef.Close()
	if b, err := os.ReadFile(errPath); err == nil {
		r.dmp = string(b)
	}
	if b, err := os.ReadFile(outPath + ".pre"); err == nil {
		var p FaultPre
		if json.Unmarshal(b, &p) == nil {
			r.pre = &p
		}
	}
	if b, err := os.ReadFile(outPath); err == nil {
		var o FaultOut
		if json.Unmarshal(b, &o) == nil {
			r.out = &o
		}
	}
	return r
}
