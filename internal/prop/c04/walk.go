package c04

import (
	"bytes"
	"encoding/binary"
	"fmt"

	"gitlab.com/aquachain/aquachain/common"
	"verif/internal/mon/journaldb"
	"verif/internal/ref/refhash"
	"verif/internal/ref/refrlp"
)

// ---------------------------------------------------------------------------
// Key schema of the chain database, from the comments of core/database_util.go
// (written out here; no helper of the repository is called).

var (
	keyLastBlock  = "LastBlock"
	keyLastHeader = "LastHeader"
	keyLastFast   = "LastFast"
	preimagePfx   = "secure-key-"
)

func num8(n uint64) []byte {
	var b [8]byte
	binary.BigEndian.PutUint64(b[:], n)
	return b[:]
}

func headerKey(h common.Hash, n uint64) string { return "h" + string(num8(n)) + string(h[:]) }
func bodyKey(h common.Hash, n uint64) string   { return "b" + string(num8(n)) + string(h[:]) }
func tdKey(h common.Hash, n uint64) string     { return "h" + string(num8(n)) + string(h[:]) + "t" }
func canonKey(n uint64) string                 { return "h" + string(num8(n)) + "n" }
func hashNumKey(h common.Hash) string          { return "H" + string(h[:]) }

// keyClass names what a key is, by its length and prefix.
func keyClass(k []byte) string {
	s := string(k)
	switch {
	case s == keyLastBlock:
		return "head_block"
	case s == keyLastHeader:
		return "head_header"
	case s == keyLastFast:
		return "head_fast"
	case len(k) == 32:
		return "trie_node"
	case len(k) == 43 && bytes.HasPrefix(k, []byte(preimagePfx)):
		return "preimage"
	case len(k) == 10 && k[0] == 'h' && k[9] == 'n':
		return "canonical"
	case len(k) == 42 && k[0] == 'h' && k[41] == 't':
		return "td"
	case len(k) == 41 && k[0] == 'h':
		return "header"
	case len(k) == 41 && k[0] == 'b':
		return "body"
	case len(k) == 41 && k[0] == 'r':
		return "receipts"
	case len(k) == 33 && k[0] == 'H':
		return "hash_to_number"
	case len(k) == 33 && k[0] == 'l':
		return "tx_lookup"
	}
	return "other"
}

// eventClass names a write event: "put_td", "delete_header", or for a batch
// flush what it carries.
func eventClass(ev *journaldb.Event) string {
	switch ev.Kind {
	case journaldb.KindPut:
		return "put_" + keyClass(ev.Ops[0].Key)
	case journaldb.KindDelete:
		return "delete_" + keyClass(ev.Ops[0].Key)
	}
	has := map[string]bool{}
	for i := range ev.Ops {
		has[keyClass(ev.Ops[i].Key)] = true
	}
	switch {
	case has["body"] || has["header"]:
		return "block_batch_write"
	case has["head_block"]:
		return "head_batch_write" // number->hash entry and head pointer of a new head, together
	case has["trie_node"]:
		return "trie_batch_write"
	case has["preimage"] && len(has) == 1:
		return "preimage_batch_write"
	case has["tx_lookup"] && len(has) == 1:
		return "lookup_batch_write"
	case has["receipts"]:
		return "receipts_batch_write"
	}
	return "other_batch_write"
}

// headWrite returns the value an event writes to the head-block pointer (as a
// single put or inside a batch flush), if it writes one.
func headWrite(ev *journaldb.Event) (common.Hash, bool) {
	var h common.Hash
	found := false
	for i := range ev.Ops {
		if o := &ev.Ops[i]; !o.Del && string(o.Key) == keyLastBlock {
			h, found = common.BytesToHash(o.Val), true
		}
	}
	return h, found
}

// midFlush reports whether a batch flush is an intermediate write of a trie
// database commit: only key preimages, and more than the ideal batch size of
// them (the commit flushes its batch whenever it grows beyond 100 KiB).
func midFlush(ev *journaldb.Event) bool {
	if eventClass(ev) != "preimage_batch_write" {
		return false
	}
	size := 0
	for i := range ev.Ops {
		size += len(ev.Ops[i].Val)
	}
	return size > 100*1024
}

// ---------------------------------------------------------------------------
// Independent state walker: decides from the raw key/value view alone whether
// the entire state below a root is present - every node of the account trie,
// every node of every storage trie, every code blob - verifying each blob
// against the hash it is stored under. Node decoding is refrlp; no trie or
// state code of the repository is used.

var (
	emptyRoot = refhash.Keccak256([]byte{0x80})
	emptyCode = refhash.Keccak256(nil)
)

type walker struct {
	view map[string][]byte
	// done memoises complete subtrees by context+hash. Valid as long as the view
	// only gains trie-node keys (the replayer resets it on any delete or
	// overwrite of a 32-byte key).
	done map[string]bool
}

func newWalker(view map[string][]byte) *walker {
	return &walker{view: view, done: map[string]bool{}}
}

type walkResult struct {
	Hashes   map[common.Hash]bool // every hash-addressed blob below the root (nodes and code), when collecting
	Accounts int
	Slots    int
	Codes    int
}

// errMissing describes the first defect found below a root.
type walkErr struct {
	Kind string // missing_node | hash_mismatch | malformed_node | missing_code | code_hash_mismatch | malformed_account
	Hash []byte
	Ctx  string
}

func (e *walkErr) Error() string { return fmt.Sprintf("%s %x (%s trie)", e.Kind, e.Hash, e.Ctx) }

// complete reports whether the whole state below root is in the view.
func (w *walker) complete(root []byte) *walkErr {
	return w.ref("a", root, nil)
}

// collect walks everything (no memo) and returns the set of hashes and counts.
func (w *walker) collect(root []byte) (*walkResult, *walkErr) {
	res := &walkResult{Hashes: map[common.Hash]bool{}}
	saved := w.done
	w.done = map[string]bool{}
	err := w.ref("a", root, res)
	w.done = saved
	return res, err
}

// ref follows a 32-byte reference in context ctx ("a" account trie, "s" storage trie).
func (w *walker) ref(ctx string, hash []byte, res *walkResult) *walkErr {
	if bytes.Equal(hash, emptyRoot) {
		return nil
	}
	mk := ctx + string(hash)
	if res == nil && w.done[mk] {
		return nil
	}
	blob, ok := w.view[string(hash)]
	if !ok {
		return &walkErr{"missing_node", hash, ctx}
	}
	if !bytes.Equal(refhash.Keccak256(blob), hash) {
		return &walkErr{"hash_mismatch", hash, ctx}
	}
	if res != nil {
		res.Hashes[common.BytesToHash(hash)] = true
	}
	it, err := refrlp.Decode(blob)
	if err != nil {
		return &walkErr{"malformed_node", hash, ctx}
	}
	if e := w.node(ctx, it, hash, res); e != nil {
		return e
	}
	if res == nil {
		w.done[mk] = true
	}
	return nil
}

// child handles one child slot of a branch or the target of an extension.
func (w *walker) child(ctx string, it *refrlp.Item, at []byte, res *walkResult) *walkErr {
	if it.IsList {
		return w.node(ctx, it, at, res) // node embedded in its parent (< 32 bytes)
	}
	switch len(it.Str) {
	case 0:
		return nil
	case 32:
		return w.ref(ctx, it.Str, res)
	}
	return &walkErr{"malformed_node", at, ctx}
}

func (w *walker) node(ctx string, it *refrlp.Item, at []byte, res *walkResult) *walkErr {
	if !it.IsList {
		return &walkErr{"malformed_node", at, ctx}
	}
	switch len(it.List) {
	case 17:
		for i := 0; i < 16; i++ {
			if e := w.child(ctx, it.List[i], at, res); e != nil {
				return e
			}
		}
		if v := it.List[16]; v.IsList {
			return &walkErr{"malformed_node", at, ctx}
		} else if len(v.Str) > 0 {
			return w.value(ctx, v.Str, at, res)
		}
		return nil
	case 2:
		path := it.List[0]
		if path.IsList || len(path.Str) == 0 {
			return &walkErr{"malformed_node", at, ctx}
		}
		if path.Str[0]&0x20 != 0 { // hex-prefix terminator flag: leaf
			if it.List[1].IsList {
				return &walkErr{"malformed_node", at, ctx}
			}
			return w.value(ctx, it.List[1].Str, at, res)
		}
		return w.child(ctx, it.List[1], at, res)
	}
	return &walkErr{"malformed_node", at, ctx}
}

// value handles a leaf value: an account in the account trie (follow its
// storage root and code hash), an opaque slot value in a storage trie.
func (w *walker) value(ctx string, val []byte, at []byte, res *walkResult) *walkErr {
	if ctx == "s" {
		if res != nil {
			res.Slots++
		}
		return nil
	}
	acc, err := refrlp.Decode(val)
	if err != nil || !acc.IsList || len(acc.List) != 4 || acc.List[2].IsList || acc.List[3].IsList ||
		len(acc.List[2].Str) != 32 || len(acc.List[3].Str) != 32 {
		return &walkErr{"malformed_account", at, ctx}
	}
	if res != nil {
		res.Accounts++
	}
	if e := w.ref("s", acc.List[2].Str, res); e != nil {
		return e
	}
	ch := acc.List[3].Str
	if !bytes.Equal(ch, emptyCode) {
		code, ok := w.view[string(ch)]
		if !ok {
			return &walkErr{"missing_code", ch, ctx}
		}
		if !bytes.Equal(refhash.Keccak256(code), ch) {
			return &walkErr{"code_hash_mismatch", ch, ctx}
		}
		if res != nil {
			res.Codes++
			res.Hashes[common.BytesToHash(ch)] = true
		}
	}
	return nil
}
