package c04

import (
	"fmt"
	"regexp"
	"strconv"
	"strings"

	"gitlab.com/aquachain/aquachain/aquadb"
	"gitlab.com/aquachain/aquachain/common"
	"gitlab.com/aquachain/aquachain/core"
	"gitlab.com/aquachain/aquachain/core/state"
	"gitlab.com/aquachain/aquachain/core/types"
	"verif/internal/mon/journaldb"
)

// sink receives verdicts and observation counts (fw.Ctx in a child, a plain
// collector in a fault-injection grandchild).
type sink interface {
	Violate(clause, op, cause, detail string)
	Count(class string)
	CountN(class string, n int)
}

var (
	reHex = regexp.MustCompile(`0x[0-9a-fA-F]+|[0-9a-fA-F]{8,}`)
	reNum = regexp.MustCompile(`[0-9]+`)
	// "missing trie node <hash> (path <nibbles>)": the nibble path is data
	rePath = regexp.MustCompile(`\(path [0-9a-fA-F]*\)`)
)

// stable turns an error / panic text into a signature-safe string.
func stable(s string) string {
	if i := strings.IndexByte(s, '\n'); i >= 0 {
		s = s[:i]
	}
	s = rePath.ReplaceAllString(s, "(path)")
	s = reHex.ReplaceAllString(s, "X")
	s = reNum.ReplaceAllString(s, "N")
	if len(s) > 100 {
		s = s[:100]
	}
	return s
}

// analysis is the journal of one crash-free run with everything that can be
// derived from the journal and the generated tree alone.
type analysis struct {
	wl       *Workload
	evs      []journaldb.Event
	base     map[string][]byte
	class    []string // eventClass per event
	stepIdx  []int    // workload step index per event (-1: opening the chain)
	stepKind []string // step kind per event ("open", "insert", "sethead", "stop", "reopen")
	reorgEnd []int    // for event i inside a reorg window: index of the last event of the window, else -1
	final    common.Hash
	cleanRun bool // journal of a crash-free, failure-free run
}

func analyse(wl *Workload, run *Run) *analysis {
	a := &analysis{wl: wl, evs: run.J.Events(), base: run.J.Base(), final: run.Final, cleanRun: run.J.Failed() == nil}
	marks := run.J.Marks()
	n := len(a.evs)
	a.class = make([]string, n)
	a.stepIdx = make([]int, n)
	a.stepKind = make([]string, n)
	a.reorgEnd = make([]int, n)
	for i := range a.evs {
		a.class[i] = eventClass(&a.evs[i])
		a.stepIdx[i], a.stepKind[i] = -1, "open"
		if m := a.evs[i].Step; m >= 0 {
			lab := marks[m].Label
			c := strings.IndexByte(lab, ':')
			a.stepIdx[i], _ = strconv.Atoi(lab[:c])
			a.stepKind[i] = lab[c+1:]
		}
		a.reorgEnd[i] = -1
	}
	// Reorg windows. A window opens, inside an import step, at the first write of
	// the head pointer (a single put or a batch flush carrying it) whose value
	// neither is nor extends the previous head - the first re-pointing step of a
	// reorganisation - and runs to the last write of that block's import group
	// (the event before the next block's total-difficulty put, or the end of the
	// API call). A number-index put immediately before the opening head put
	// belongs to the same re-pointing step.
	cur := common.BytesToHash(a.base[keyLastBlock])
	start := -1
	closeAt := func(end int) {
		if start >= 0 {
			for x := start; x <= end; x++ {
				a.reorgEnd[x] = end
			}
			start = -1
		}
	}
	for i := range a.evs {
		if i > 0 && start >= 0 && (a.evs[i].Step != a.evs[i-1].Step || a.class[i] == "put_td") {
			closeAt(i - 1)
		}
		v, isHead := headWrite(&a.evs[i])
		if !isHead {
			continue
		}
		if a.stepKind[i] == "insert" && start < 0 {
			if b := wl.Lookup(v); b != nil && v != cur && b.ParentHash() != cur {
				start = i
				if i > 0 && a.class[i-1] == "put_canonical" && a.evs[i-1].Step == a.evs[i].Step {
					start = i - 1
				}
			}
		}
		cur = v
	}
	closeAt(n - 1)
	return a
}

// label names the phase a crash after the first k events falls into.
func (a *analysis) label(k int) string {
	n := len(a.evs)
	if k <= 0 || k >= n {
		return "quiescent"
	}
	if a.evs[k-1].Step != a.evs[k].Step {
		return "quiescent"
	}
	switch kind := a.stepKind[k]; kind {
	case "insert":
		// inside a reorg: its first re-pointing write is applied, its last write is not
		if a.reorgEnd[k] >= 0 && a.reorgEnd[k-1] == a.reorgEnd[k] {
			return "import_reorg"
		}
		if a.wl.Spec.pruning() {
			for _, c := range []string{a.class[k-1], a.class[k]} {
				if c == "trie_batch_write" || c == "preimage_batch_write" {
					return "import_flush"
				}
			}
		}
		if a.class[k] == "put_td" {
			return "import_block_boundary"
		}
		return "import"
	default:
		return kind // open | sethead | stop | reopen
	}
}

func nontrivialLabel(l string) bool { return l != "quiescent" && l != "import_block_boundary" }

// replayer rolls the view forward one event at a time and checks prefixes.
type replayer struct {
	a        *analysis
	k        int
	view     map[string][]byte
	walk     *walker
	headHist []common.Hash
	roots    []*types.Block         // every block of the tree plus genesis
	last     map[string]interface{} // what the latest checkPrefix saw (for evidence samples)
	// open returns the database to reopen for the current prefix (nil: a fresh
	// MemDatabase built from the view)
	open func() aquadb.Database
}

func newReplayer(a *analysis) *replayer {
	view := make(map[string][]byte, len(a.base)+4096)
	for k, v := range a.base {
		view[k] = v
	}
	r := &replayer{a: a, view: view, walk: newWalker(view)}
	r.headHist = append(r.headHist, common.BytesToHash(view[keyLastBlock]))
	r.roots = append(r.roots, a.wl.T.Genesis)
	r.roots = append(r.roots, a.wl.T.Blocks()...)
	return r
}

// advanceTo applies events until the view is the database after the first k.
func (r *replayer) advanceTo(k int) {
	for r.k < k {
		ev := &r.a.evs[r.k]
		for i := range ev.Ops {
			o := &ev.Ops[i]
			if len(o.Key) == 32 {
				if old, ok := r.view[string(o.Key)]; o.Del || (ok && string(old) != string(o.Val)) {
					r.walk.done = map[string]bool{} // a node went away or changed: forget what was complete
				}
			}
			if !o.Del && string(o.Key) == keyLastBlock {
				r.headHist = append(r.headHist, common.BytesToHash(o.Val))
			}
		}
		journaldb.Apply(r.view, ev)
		r.k++
	}
}

func (r *replayer) stored(b *types.Block) bool {
	h, n := b.Hash(), b.NumberU64()
	_, hd := r.view[headerKey(h, n)]
	_, bd := r.view[bodyKey(h, n)]
	_, hn := r.view[hashNumKey(h)]
	return hd && bd && hn
}

// expectation is what the journal and the tree say the reopened node must show.
type expectation struct {
	Pointer     common.Hash  // last value written to the head pointer
	PointerBlk  *types.Block // nil: hash unknown to the generator
	HeadAbsent  bool         // the pointer names a block that is not stored
	Expected    *types.Block // expected head
	IncompleteH *walkErr     // why the pointer block's own state is not complete (nil if complete)
}

func (r *replayer) expect() expectation {
	wl := r.a.wl
	e := expectation{Pointer: common.BytesToHash(r.view[keyLastBlock])}
	e.PointerBlk = wl.Lookup(e.Pointer)
	if e.PointerBlk == nil {
		return e
	}
	hb := e.PointerBlk
	if !r.stored(hb) {
		// the node made its head a block it had not stored: the last head that is
		// stored is what a reopen can expose at best
		e.HeadAbsent = true
		hb = nil
		for i := len(r.headHist) - 1; i >= 0; i-- {
			if b := wl.Lookup(r.headHist[i]); b != nil && r.stored(b) {
				hb = b
				break
			}
		}
		if hb == nil {
			hb = wl.T.Genesis
		}
	}
	e.IncompleteH = r.walk.complete(hb.Root().Bytes())
	if !wl.Spec.pruning() {
		e.Expected = hb
		return e
	}
	for b := hb; b != nil; b = wl.T.Parent(b) {
		if r.walk.complete(b.Root().Bytes()) == nil {
			e.Expected = b
			return e
		}
	}
	e.Expected = wl.T.Genesis // unreachable: the genesis state is in the base
	return e
}

// checkRoots: a state root present on disk has its entire trie on disk.
func (r *replayer) checkRoots(s sink, op string) {
	for _, b := range r.roots {
		root := b.Root().Bytes()
		if _, ok := r.view[string(root)]; !ok {
			continue
		}
		s.Count("root_present_checked")
		if e := r.walk.complete(root); e != nil {
			s.Violate("root_present_trie_incomplete", op, e.Kind,
				fmt.Sprintf("prefix %d: state root %x of block %d is on disk but %v", r.k, root, b.NumberU64(), e))
			return
		}
	}
}

// checkPrefix is the whole oracle for "the process died after the first k
// writes" (the replayer must stand at k). refeed selects the convergence part.
func (r *replayer) checkPrefix(s sink, op string, refeed bool) {
	wl := r.a.wl
	k := r.k
	exp := r.expect()
	r.last = map[string]interface{}{"prefix": k, "phase": op, "last_write_applied": r.lastEvent(), "head_pointer": fmt.Sprintf("%x", exp.Pointer[:6])}
	if exp.PointerBlk == nil {
		s.Violate("head_pointer_unknown_block", op, "", fmt.Sprintf("prefix %d: head pointer %x names no generated block", k, exp.Pointer))
		return
	}
	r.last["head_pointer_block"] = exp.PointerBlk.NumberU64()
	r.last["head_pointer_block_stored"] = !exp.HeadAbsent
	r.last["expected_head"] = exp.Expected.NumberU64()
	if exp.HeadAbsent {
		s.Count("prefix_head_pointer_names_absent_block")
	}
	r.checkRoots(s, op)
	if r.afterCleanStop() && wl.Spec.pruning() {
		// Stop has returned: the shutdown flush of a pruning node is complete, so
		// nothing the node had made its head may be lost by it
		s.Count("clean_stop_points")
		if !exp.HeadAbsent && exp.IncompleteH != nil {
			s.Violate("clean_stop_head_state_not_flushed", op, exp.IncompleteH.Kind,
				fmt.Sprintf("prefix %d: Stop completed but the state of the head block %d is not on disk: %v", k, exp.PointerBlk.NumberU64(), exp.IncompleteH))
		}
	}

	// reopen
	var db aquadb.Database
	if r.open != nil {
		db = r.open()
	} else {
		db = journaldb.ToMem(r.view)
	}
	core.VerifC04ResetLastWrite()
	var bc *core.BlockChain
	var err error
	panicked := ""
	func() {
		defer func() {
			if p := recover(); p != nil {
				panicked = fmt.Sprint(p)
			}
		}()
		bc, err = wl.W.NewChain(db, wl.Spec.cache())
	}()
	absentCause := func(other string) string {
		if exp.HeadAbsent {
			return "head_pointer_names_absent_block"
		}
		return other
	}
	if panicked != "" {
		r.last["reopen"] = "panic: " + panicked
		s.Violate("reopen_panics", op, absentCause(stable(panicked)),
			fmt.Sprintf("prefix %d (%s): core.NewBlockChain panicked: %s; head pointer = block %d %x (stored: %v), last event applied: %s",
				k, op, panicked, exp.PointerBlk.NumberU64(), exp.Pointer, !exp.HeadAbsent, r.lastEvent()))
		return
	}
	if err != nil {
		s.Violate("reopen_error", op, absentCause(stable(err.Error())), fmt.Sprintf("prefix %d (%s): core.NewBlockChain: %v", k, op, err))
		return
	}
	defer func() {
		defer func() {
			if p := recover(); p != nil {
				s.Violate("stop_after_reopen_panics", op, stable(fmt.Sprint(p)), fmt.Sprintf("prefix %d (%s): Stop of the reopened chain panicked: %v", k, op, p))
			}
		}()
		bc.Stop()
	}()
	s.Count("reopened")

	// head
	head := bc.CurrentBlock()
	r.last["reopen"] = "ok"
	r.last["reopened_head"] = head.NumberU64()
	r.last["reopened_head_hash"] = fmt.Sprintf("%x", head.Hash().Bytes()[:6])
	if head.Hash() != exp.Expected.Hash() {
		cause := "other_branch"
		switch hb := wl.Lookup(head.Hash()); {
		case hb == nil:
			cause = "unknown_block"
		case wl.T.IsAncestor(hb, exp.Expected):
			cause = "behind_expected"
		case wl.T.IsAncestor(exp.Expected, hb):
			cause = "ahead_of_expected"
		}
		why := ""
		if exp.IncompleteH != nil {
			why = fmt.Sprintf("; state of the pointer block: %v", exp.IncompleteH)
		}
		s.Violate("wrong_head", op, absentCause(cause),
			fmt.Sprintf("prefix %d (%s): reopened head is block %d %x, expected block %d %x (head pointer %x, pruning=%v)%s",
				k, op, head.NumberU64(), head.Hash(), exp.Expected.NumberU64(), exp.Expected.Hash(), exp.Pointer, wl.Spec.pruning(), why))
	} else {
		s.Count("head_as_expected")
		if exp.Expected.Hash() != exp.PointerBlk.Hash() {
			s.Count("head_is_flushed_ancestor_of_pointer")
		}
	}

	// complete state at the head, through the node's own iteration, against the
	// independent walk of the same bytes
	r.checkState(s, op, bc, head)

	// parent links and number index from the head back to genesis
	r.checkIndex(s, op, bc, db, head)

	// convergence
	if refeed {
		r.refeed(s, op, bc)
	}
}

// afterCleanStop: the view is the database right after a Stop call returned in
// the crash-free run.
func (r *replayer) afterCleanStop() bool {
	a := r.a
	if r.k == 0 || !a.cleanRun || a.stepKind[r.k-1] != "stop" {
		return false
	}
	return r.k == len(a.evs) || a.evs[r.k].Step != a.evs[r.k-1].Step
}

func (r *replayer) lastEvent() string {
	if r.k == 0 {
		return "none"
	}
	return fmt.Sprintf("#%d %s", r.k-1, r.a.class[r.k-1])
}

func (r *replayer) checkState(s sink, op string, bc *core.BlockChain, head *types.Block) {
	ref, werr := r.walk.collect(head.Root().Bytes())
	st, err := bc.StateAt(head.Root())
	if err != nil {
		s.Violate("state_unreadable", op, "open_"+stable(err.Error()), fmt.Sprintf("prefix %d: state of head %d: %v (disk walk: %v)", r.k, head.NumberU64(), err, werr))
		return
	}
	got := map[common.Hash]bool{}
	it := state.NewNodeIterator(st)
	for it.Next() {
		if it.Hash != (common.Hash{}) {
			got[it.Hash] = true
		}
	}
	if it.Error != nil {
		s.Violate("state_unreadable", op, "iterate_"+stable(it.Error.Error()), fmt.Sprintf("prefix %d: iterating the state of head %d: %v (disk walk: %v)", r.k, head.NumberU64(), it.Error, werr))
		return
	}
	if werr != nil {
		// the node read a state the bytes on disk do not contain
		s.Violate("state_differs_from_disk_walk", op, werr.Kind, fmt.Sprintf("prefix %d: node iterated %d entries but the disk walk says %v", r.k, len(got), werr))
		return
	}
	if len(got) != len(ref.Hashes) {
		s.Violate("state_differs_from_disk_walk", op, "entry_count", fmt.Sprintf("prefix %d: node iterated %d hashed entries, disk walk found %d", r.k, len(got), len(ref.Hashes)))
		return
	}
	for h := range ref.Hashes {
		if !got[h] {
			s.Violate("state_differs_from_disk_walk", op, "entry_set", fmt.Sprintf("prefix %d: %x on disk below the root but not iterated", r.k, h))
			return
		}
	}
	s.Count("state_fully_read")
	s.CountN("state_entries_read", len(got))
	r.last["state_entries_read"] = len(got)
	r.last["state_accounts_slots_codes"] = []int{ref.Accounts, ref.Slots, ref.Codes}
	if ref.Slots > 0 && ref.Codes > 0 {
		s.Count("state_with_storage_and_code")
	}
}

func (r *replayer) checkIndex(s sink, op string, bc *core.BlockChain, db core.DatabaseReader, head *types.Block) {
	wl := r.a.wl
	ref := wl.Lookup(head.Hash())
	if ref == nil {
		return // reported as wrong_head/unknown_block
	}
	cur := head
	for n := head.NumberU64(); ; n-- {
		if cur.Hash() != ref.Hash() {
			s.Violate("index_disagrees_with_ancestry", op, "parent_link", fmt.Sprintf("prefix %d: walking parents from head %d reached %x at height %d, the tree says %x", r.k, head.NumberU64(), cur.Hash(), n, ref.Hash()))
			return
		}
		if ch := core.GetCanonicalHash(db, n); ch != cur.Hash() {
			cause := "canonical_hash_differs"
			if ch == (common.Hash{}) {
				cause = "canonical_hash_missing"
			}
			s.Violate("index_disagrees_with_ancestry", op, cause, fmt.Sprintf("prefix %d: number %d maps to %x but the ancestor of head %d at that height is %x", r.k, n, ch, head.NumberU64(), cur.Hash()))
			return
		}
		if b := bc.GetBlockByNumber(n); b == nil || b.Hash() != cur.Hash() {
			s.Violate("index_disagrees_with_ancestry", op, "block_by_number", fmt.Sprintf("prefix %d: GetBlockByNumber(%d) does not return the ancestor %x of the head", r.k, n, cur.Hash()))
			return
		}
		if n == 0 {
			break
		}
		next := bc.GetBlock(cur.ParentHash(), n-1)
		if next == nil {
			s.Violate("index_disagrees_with_ancestry", op, "missing_ancestor", fmt.Sprintf("prefix %d: ancestor %x (height %d) of head %d is not readable", r.k, cur.ParentHash(), n-1, head.NumberU64()))
			return
		}
		cur, ref = next, wl.T.Parent(ref)
		if ref == nil {
			s.Violate("index_disagrees_with_ancestry", op, "parent_link", fmt.Sprintf("prefix %d: ancestry of head %d leaves the generated tree at height %d", r.k, head.NumberU64(), n-1))
			return
		}
	}
	s.Count("index_walked_to_genesis")
}

func (r *replayer) refeed(s sink, op string, bc *core.BlockChain) {
	wl := r.a.wl
	firstErr := ""
	panicked := ""
	func() {
		defer func() {
			if p := recover(); p != nil {
				panicked = fmt.Sprint(p)
			}
		}()
		for _, st := range wl.InsertSteps() {
			if _, err := bc.InsertChain(st.Blocks); err != nil && firstErr == "" {
				firstErr = fmt.Sprintf("%s: %v", st, err)
			}
		}
	}()
	if panicked != "" {
		s.Violate("refeed_panics", op, stable(panicked), fmt.Sprintf("prefix %d (%s): importing the original blocks again panicked: %s", r.k, op, panicked))
		return
	}
	if firstErr != "" {
		s.Count("refeed_insert_error")
	}
	got0 := bc.CurrentBlock().NumberU64()
	if got := bc.CurrentBlock(); got.Hash() != r.a.final {
		cause := "no_import_error"
		if firstErr != "" {
			cause = "after_import_error"
		}
		fnum := uint64(0)
		if fb := wl.Lookup(r.a.final); fb != nil {
			fnum = fb.NumberU64()
		}
		s.Violate("refeed_diverges", op, cause, fmt.Sprintf("prefix %d (%s): after importing the original blocks again the head is %d %x, the crash-free run ended on %d %x; first import error: %q",
			r.k, op, got.NumberU64(), got.Hash(), fnum, r.a.final, firstErr))
		return
	}
	s.Count("refeed_converged")
	r.last["head_after_reimport"] = got0
}
