package c04

import (
	"bytes"
	"fmt"
	"os"
	"path/filepath"
	"sort"
	"strings"
	"syscall"

	"gitlab.com/aquachain/aquachain/aquadb"
	"verif/internal/fw"
	"verif/internal/mon/journaldb"
)

// The fidelity leg (thorough tier): the same workloads on a real LevelDB
// directory, in a process that sends itself SIGKILL right after its N-th write
// reached the store. The parent then opens the directory: its content must be
// exactly "base + first N events" of the reference journal (so the crash model
// of the prefix leg is what a real process death leaves behind; the page cache
// survives a process death, LevelDB's own batch atomicity is trusted), and the
// reopen oracle runs on the real store.

func killSpecs(tier string, seed uint64) []Spec {
	if tier != "thorough" {
		return nil
	}
	return []Spec{
		{Name: "k-archive-test", Kind: "archive", Config: "test", Seed: seed, Size: 30},
		{Name: "k-archive-versions", Kind: "archive", Config: "versions", Seed: seed, Size: 32},
		{Name: "k-prune_flush-prebyz", Kind: "prune_flush", Config: "prebyz", Seed: seed, Size: 140},
		{Name: "k-prune_restart-test", Kind: "prune_restart", Config: "test", Seed: seed, Size: 140},
	}
}

const killsPerWorkload = 50

// killMain is the body of a grandchild in kill mode.
func killMain(in FaultIn, wl *Workload, outPath string) int {
	ldb, err := aquadb.NewLDBDatabase(in.Dir, 16, 16)
	if err != nil {
		fmt.Fprintln(os.Stderr, err)
		return 2
	}
	var jref *journaldb.DB
	run := wl.execute(nil, nil, func(j *journaldb.DB) {
		jref = j
		j.AfterWrite = func(n int) {
			if n != in.Index {
				return
			}
			evs := jref.Events()
			classes := make([]string, len(evs))
			for i := range evs {
				classes[i] = eventClass(&evs[i])
			}
			writeJSON(outPath+".pre", &FaultPre{Index: n, ClassHash: classHash(classes)})
			syscall.Kill(os.Getpid(), syscall.SIGKILL)
			select {} // not reached
		}
	}, ldb)
	// the journal was shorter than the kill point
	writeJSON(outPath, &FaultOut{Events: run.J.Len(), Done: true, FailStep: -1, PanicStep: -1})
	return 0
}

// readAll copies a LevelDB into a map.
func readAll(db *aquadb.LDBDatabase) map[string][]byte {
	out := map[string][]byte{}
	it := db.NewIterator()
	for it.Next() {
		out[string(it.Key())] = append([]byte{}, it.Value()...)
	}
	it.Release()
	return out
}

func runKill(c *fw.Ctx, spec Spec) {
	var wl *Workload
	var a *analysis
	ok := setupCase(c, "run-"+spec.Name, spec, func() {
		wl = Build(spec)
		run := wl.Execute(nil, nil)
		for i, e := range run.StepErrs {
			if e != "" {
				c.Note("crash-free run of %s failed at step %d: %s", spec.Name, i, e)
				c.Inconclusive("crash_free_run_error")
				return
			}
		}
		a = analyse(wl, run)
	})
	if !ok || a == nil {
		return
	}
	exe, err := os.Executable()
	if err != nil {
		exe = os.Args[0]
	}
	wlPath := filepath.Join(c.Dir, "workload-"+spec.Name+".json")
	enc, err := wl.Encode()
	if err != nil || os.WriteFile(wlPath, enc, 0o644) != nil {
		c.Inconclusive("workload_not_encodable")
		return
	}
	// kill points: PRNG, distinct, ascending (the replayer only moves forward)
	r := c.Rand("kill", spec.Name)
	seen := map[int]bool{}
	var points []int
	for len(points) < killsPerWorkload && len(points) < len(a.evs) {
		n := 1 + r.Intn(len(a.evs))
		if !seen[n] {
			seen[n] = true
			points = append(points, n)
		}
	}
	sort.Ints(points)
	rp := newReplayer(a)
	for _, n := range points {
		id := fmt.Sprintf("%s#%d", spec.Name, n)
		op := a.label(n)
		c.Case(id, map[string]interface{}{"workload": spec, "sigkill_after_write": n, "of": len(a.evs), "phase": op, "store": "leveldb"}, func() {
			dir := filepath.Join(c.Dir, fmt.Sprintf("ldb-%d", n))
			defer os.RemoveAll(dir)
			res := spawnFault(c, exe, id, FaultIn{Spec: spec, Workload: wlPath, Mode: "kill", Dir: dir, Index: n, Final: a.final})
			if res.to {
				c.Inconclusive("kill_process_watchdog")
				return
			}
			if res.pre == nil || !strings.Contains(res.err, "killed") {
				c.Note("kill process for %s: err=%q pre=%v", id, res.err, res.pre != nil)
				c.Inconclusive("kill_process_not_killed")
				return
			}
			if res.pre.Index != n || res.pre.ClassHash != classHash(a.class[:n]) {
				c.Inconclusive("journal_not_reproducible")
				return
			}
			c.Count("sigkill_runs")
			if nontrivialLabel(op) {
				c.Nontrivial(id)
				c.Count("sigkill_inside_write_group")
			}
			ldb, err := aquadb.NewLDBDatabase(dir, 16, 16)
			if err != nil {
				c.Violate("store_does_not_open_after_kill", op, stable(err.Error()), fmt.Sprintf("after SIGKILL following write %d: %v", n, err))
				return
			}
			defer ldb.Close()
			rp.advanceTo(n)
			real := readAll(ldb)
			if diff := diffViews(rp.view, real); diff != "" {
				c.Violate("disk_content_differs_from_write_prefix", op, "leveldb", fmt.Sprintf("after SIGKILL following write %d the LevelDB directory does not hold base + first %d events: %s", n, n, diff))
				return
			}
			c.Count("sigkill_disk_equals_prefix")
			rp.open = func() aquadb.Database { return ldb }
			rp.checkPrefix(c, op, true)
			rp.open = nil
		})
	}
	c.Sample(map[string]interface{}{"workload": spec, "store": "leveldb", "sigkill_points": len(points), "journal_events": len(a.evs)})
}

// diffViews describes the first difference between two key/value views, or "".
func diffViews(want, got map[string][]byte) string {
	for k, v := range want {
		g, ok := got[k]
		if !ok {
			return fmt.Sprintf("key %x (%s) missing on disk", k, keyClass([]byte(k)))
		}
		if !bytes.Equal(g, v) {
			return fmt.Sprintf("key %x (%s) has another value on disk", k, keyClass([]byte(k)))
		}
	}
	for k := range got {
		if _, ok := want[k]; !ok {
			return fmt.Sprintf("key %x (%s) on disk but not in the write prefix", k, keyClass([]byte(k)))
		}
	}
	return ""
}
