// Package c04: the chain database survives a crash at any write boundary.
//
// Monitor: the real core.BlockChain runs a generated workload (import of a block
// tree with forks, a reorganisation to a longer and one to a shorter-but-heavier
// branch, SetHead, restart, Stop; archive and pruning configurations) on a
// journaling database (internal/mon/journaldb) that numbers every write reaching
// the store. Then, for every prefix of that journal, "the database after the
// first k writes" is rebuilt and reopened with core.NewBlockChain, and the
// reopened node is compared with what the journal and the generated tree alone
// say it must show: the head (last block the head pointer was set to; on a
// pruning node its nearest ancestor whose whole state is on disk, decided by an
// independent refrlp trie walk), the complete readability of that state, the
// number index against the parent links down to genesis, and the head reached
// after importing the original blocks again. For every prefix, every state root
// present on disk must have its entire trie on disk. A second leg makes single
// writes fail (one process per injection, because most failed writes end in
// log.Crit -> os.Exit) and checks that no lock is left held, nothing panics and
// the database that results still satisfies the reopen oracle.
package c04

import (
	"fmt"
	"os"
	"runtime/debug"
	"strings"
	"time"

	"gitlab.com/aquachain/aquachain/common/log"
	"verif/internal/fw"
)

func init() {
	fw.Register(&fw.Prop{
		ID:    "C04",
		Title: "The chain database survives a crash at any write boundary",
		Level: "fault_enumeration",
		Rule: "a workload is a generated block tree (no two blocks of one height with equal total difficulty) plus a fixed sequence of InsertChain/SetHead/restart/Stop calls, run once on a journaling " +
			"MemDatabase; a case is one crash point = one prefix of the write journal (single puts, deletes, atomic batch flushes), reopened in-process and checked against expectations " +
			"derived from the journal and the tree only. Archive workloads (30-38 block first branch, a losing side branch, a reorg to a longer branch, a reorg to a shorter-but-heavier " +
			"branch of 23 fast blocks, extension, SetHead, re-import, Stop; three chain configs): every prefix. Pruning workloads (140-150 blocks: flush-every-block-above-128, " +
			"flush-only-at-Stop, restart followed by a fork with pruned ancestors, and one with >100 KiB of pending key preimages): quick = every prefix within 40 events of a trie flush, " +
			"reorg, Stop or restart plus every 7th elsewhere, thorough = every prefix. Write-failure leg: the j-th write of a workload returns an error (quick: every 3rd event of two " +
			"archive workloads, the flush/Stop/restart events of two pruning workloads and of the preimage-heavy one; thorough: every event of six workloads), each in its own process. Thorough only: the same workloads on a LevelDB directory in a process that SIGKILLs itself after a PRNG-chosen write; the directory must equal the write prefix and pass the same reopen oracle. " +
			"A crash point is non-trivial when it cuts inside the write group of one API call (not between calls, not between two blocks of one call); distinct = (workload, prefix length).",
		Legs: func(tier string) []fw.Leg {
			if tier == "thorough" {
				return []fw.Leg{
					{Name: "prefix", Variant: "plain", Batches: len(prefixSpecs(tier, 0)), Timeout: 120 * time.Minute},
					{Name: "fail", Variant: "plain", Batches: len(failSpecs(tier, 0)), Timeout: 120 * time.Minute},
					{Name: "kill", Variant: "plain", Batches: len(killSpecs(tier, 0)), Timeout: 120 * time.Minute},
				}
			}
			return []fw.Leg{
				{Name: "prefix", Variant: "plain", Batches: len(prefixSpecs(tier, 0)), Timeout: 45 * time.Minute},
				{Name: "fail", Variant: "plain", Batches: len(failSpecs(tier, 0)), Timeout: 45 * time.Minute},
			}
		},
		Run: run,
		Gate: func(tier string) map[string]int {
			g := gates()
			if tier == "thorough" {
				g["sigkill_runs"] = 150
				g["sigkill_disk_equals_prefix"] = 150
				g["sigkill_inside_write_group"] = 100
			}
			return g
		},

		AnchorFiles: []string{"/core/blockchain.go", "/core/headerchain.go", "/core/database_util.go", "/trie/database.go", "/core/state/statedb.go"},
		Assumptions: []string{
			"crash model: the process dies between two logical writes; a batch flush is atomic (LevelDB's batch atomicity is trusted); torn single puts and reordering below the store are out of model",
			"a reopen in the same process stands for a restart: the package-level flush bookkeeping (core.lastWrite) is reset to its start-up value before every open (hook VerifC04ResetLastWrite)",
			"the expected state content of a block is fixed by its state root: the independent walk verifies every node and code blob against the hash it is stored under",
			"generated trees contain no two blocks of the same height with equal total difficulty, so the random tie break of the fork choice is never reached and the crash-free head is unique",
			"after a Stop call of a pruning node has returned, the state of the head block is on disk (the property's mechanism 'Stop flushes the recent tries'); demanded only at that quiescent point, never inside Stop",
			"a workload that can never continue is recognised from the goroutine stacks (workload goroutine parked in a lock acquisition inside node code, no other goroutine inside node code, non-blocking lock probe fails), never from elapsed time",
			"crash points inside SetHead are outside the quantifier of the property (import, reorganisation, shutdown); they are exercised and reported under op=sethead so that they can be told apart",
		},
		Exhaustive: func(tier string, counters map[string]int) bool {
			return counters["prefix_not_selected"] == 0 && counters["fail_injected"] >= counters["fail_events_in_workloads"]
		},
	})
}

func run(c *fw.Ctx) {
	log.Root().SetHandler(log.DiscardHandler())
	// header hashing (argon2id) allocates per call: trade memory for fewer
	// collections; verdicts do not depend on it
	debug.SetGCPercent(400)
	if !selectedBatch(c) {
		return
	}
	switch c.Leg {
	case "prefix":
		specs := prefixSpecs(c.Tier, c.Seed)
		runPrefix(c, specs[c.Batch%len(specs)])
	case "fail":
		specs := failSpecs(c.Tier, c.Seed)
		runFail(c, specs[c.Batch%len(specs)])
	case "kill":
		specs := killSpecs(c.Tier, c.Seed)
		runKill(c, specs[c.Batch%len(specs)])
	}
}

func gates() map[string]int {
	return map[string]int{
		"workload_runs":                           16,
		"workload_prune_restart":                  1,
		"reopened":                                2500,
		"refeed_converged":                        2500,
		"state_fully_read":                        2500,
		"state_with_storage_and_code":             1500,
		"index_walked_to_genesis":                 2500,
		"root_present_checked":                    50000,
		"cut_inside_write_group":                  2500,
		"cut_import_reorg":                        300,
		"cut_import_flush":                        10,
		"cut_stop":                                10,
		"clean_stop_points":                       4,
		"workload_reorg_to_longer":                6,
		"workload_reorg_to_shorter_heavier":       3,
		"workload_pruned_ancestor_import":         1,
		"workload_preimage_batch_mid_flush":       1,
		"workload_trie_commit_in_several_batches": 1,
		"head_is_flushed_ancestor_of_pointer":     100,
		"fail_injected":                           150,
		"fail_process_exited_by_crit":             50,
		"fail_survived_and_checked":               50,
		"fail_on_trie_or_preimage_batch":          30,
		"fail_on_preimage_batch_mid_flush":        1,
	}
}

// setupCase runs the reference run of a workload as a logged case; under the
// replay filter (one case id only) it still runs, unlogged, because every crash
// point of the workload needs it.
func setupCase(c *fw.Ctx, id string, input interface{}, fn func()) bool {
	if c.OnlyCase != "" && c.OnlyCase != id {
		fn()
		return true
	}
	return c.Case(id, input, fn)
}

// selectedBatch implements the developer aid VERIF_C04_ONLY="prefix:0,9 fail:12":
// only the listed batches run (break-it validation of one mechanism without the
// whole tier). Unset in every registered run.
func selectedBatch(c *fw.Ctx) bool {
	only := os.Getenv("VERIF_C04_ONLY")
	if only == "" {
		return true
	}
	for _, part := range strings.Fields(only) {
		leg, list, ok := strings.Cut(part, ":")
		if !ok || leg != c.Leg {
			continue
		}
		for _, b := range strings.Split(list, ",") {
			if b == fmt.Sprint(c.Batch) {
				return true
			}
		}
	}
	return false
}

// prefixSpecs: one workload per batch.
func prefixSpecs(tier string, seed uint64) []Spec {
	cfgs := []string{"test", "versions", "prebyz"}
	var out []Spec
	add := func(kind, cfg string, size int) {
		out = append(out, Spec{Name: fmt.Sprintf("%s-%s-%d", kind, cfg, len(out)), Kind: kind, Config: cfg, Seed: seed, Size: size})
	}
	nArchive, nEach := 9, 2
	if tier == "thorough" {
		nArchive, nEach = 40, 4
	}
	for i := 0; i < nArchive; i++ {
		add("archive", cfgs[i%3], 30+(i*3)%9)
	}
	for i := 0; i < nEach; i++ {
		add("prune_flush", cfgs[i%3], 142+i*4)
		add("prune_stop", cfgs[(i+1)%3], 141+i*5)
		add("prune_restart", cfgs[(i+2)%3], 140+i*3)
	}
	add("bigpre", "test", 132)
	return out
}

// selectPrefixes returns the prefix lengths to check for a workload.
// Archive workloads: all. Pruning workloads: all in the thorough tier; in the
// quick tier every crash point inside Stop, a restart and a reorganisation
// (+-6), around the first three and last two trie flushes of the import (+-6),
// and every 13th elsewhere. The preimage-heavy workload (thousands of
// transactions to re-import per crash point) is sampled in both tiers.
func selectPrefixes(c *fw.Ctx, a *analysis) (sel []int, skipped int) {
	n := len(a.evs)
	kind := a.wl.Spec.Kind
	all := kind == "archive" || (c.Thorough() && kind != "bigpre")
	near := make([]bool, n+1)
	if !all {
		radius, every := 6, 13
		if kind == "bigpre" {
			radius, every = 2, 90
			if c.Thorough() {
				radius, every = 12, 12
			}
		}
		mark := func(i int) {
			for x := i - radius; x <= i+radius+1; x++ {
				if x >= 0 && x <= n {
					near[x] = true
				}
			}
		}
		var flushes []int
		for i := range a.evs {
			switch {
			case a.stepKind[i] == "stop" || a.stepKind[i] == "reopen" || a.stepKind[i] == "open":
				mark(i)
			case a.reorgEnd[i] >= 0:
				mark(i)
			case a.class[i] == "trie_batch_write" || a.class[i] == "preimage_batch_write":
				flushes = append(flushes, i)
			}
		}
		for x, i := range flushes {
			if c.Thorough() || x < 3 || x >= len(flushes)-2 {
				mark(i)
			}
		}
		for k := 0; k <= n; k += every {
			near[k] = true
		}
		near[0], near[n] = true, true
	}
	for k := 0; k <= n; k++ {
		if all || near[k] {
			sel = append(sel, k)
		} else {
			skipped++
		}
	}
	return
}

func runPrefix(c *fw.Ctx, spec Spec) {
	var wl *Workload
	var a *analysis
	ok := setupCase(c, "run-"+spec.Name, spec, func() {
		wl = Build(spec)
		run := wl.Execute(nil, nil)
		for i, e := range run.StepErrs {
			if e != "" {
				// not a crash-consistency verdict: without a clean reference run
				// nothing is checked and the observation gates fail the run
				c.Note("crash-free run of %s failed at step %d: %s", spec.Name, i, e)
				c.Inconclusive("crash_free_run_error")
				return
			}
		}
		a = analyse(wl, run)
		observeWorkload(c, wl, a)
	})
	if !ok || a == nil {
		return
	}
	sel, skipped := selectPrefixes(c, a)
	c.CountN("prefix_not_selected", skipped)
	c.CountN("journal_events", len(a.evs))
	rp := newReplayer(a)
	labels := map[string]int{}
	checked := 0
	sampled := map[string]bool{}
	for _, k := range sel {
		op := a.label(k)
		id := fmt.Sprintf("%s@%d", spec.Name, k)
		c.Case(id, map[string]interface{}{"workload": spec, "prefix": k, "of": len(a.evs), "phase": op}, func() {
			rp.advanceTo(k)
			c.Count("prefix_checked")
			c.Count("cut_" + op)
			labels[op]++
			if nontrivialLabel(op) {
				c.Count("cut_inside_write_group")
				c.Nontrivial(id)
			}
			// the preimage-heavy workload re-imports ~5500 transactions per
			// crash point: convergence is checked at every 3rd of its points
			refeed := spec.Kind != "bigpre" || checked%3 == 0
			checked++
			rp.checkPrefix(c, op, refeed)
			if !sampled[op] && (op == "import_reorg" || op == "import_flush" || op == "stop") && labels[op] == 3 {
				sampled[op] = true
				rp.last["workload"] = spec.Name
				c.Sample(rp.last)
			}
		})
	}
	c.Sample(map[string]interface{}{"workload": spec, "blocks": len(wl.T.Order), "journal_events": len(a.evs), "prefixes_checked": len(sel),
		"crash_points_by_phase": labels, "reorg_to_longer": wl.LongerFork, "reorg_to_shorter_heavier": wl.ShorterHeavier})
}

// observeWorkload counts what the crash-free run actually did (gates).
func observeWorkload(c *fw.Ctx, wl *Workload, a *analysis) {
	c.Count("workload_runs")
	c.Count("workload_" + wl.Spec.Kind)
	reorgs := 0
	for i := range a.evs {
		if a.reorgEnd[i] == i {
			reorgs++
		}
	}
	c.CountN("workload_reorgs_in_journal", reorgs)
	if wl.LongerFork && reorgs > 0 {
		c.Count("workload_reorg_to_longer")
	}
	if wl.ShorterHeavier && reorgs > 1 {
		c.Count("workload_reorg_to_shorter_heavier")
	}
	// blocks written without state (pruned ancestor): header/body as single puts
	for i := range a.evs {
		if a.class[i] == "put_body" && a.stepKind[i] == "insert" {
			c.Count("workload_pruned_ancestor_import")
			break
		}
	}
	multi := false
	for i := range a.evs {
		if midFlush(&a.evs[i]) {
			c.Count("workload_preimage_batch_mid_flush")
		}
		// a trie commit spread over several batch flushes (children first)
		if i > 0 && a.class[i] == "trie_batch_write" && a.class[i-1] == "trie_batch_write" && a.stepIdx[i] == a.stepIdx[i-1] {
			multi = true
		}
	}
	if multi {
		c.Count("workload_trie_commit_in_several_batches")
	}
	classes := map[string]int{}
	for _, cl := range a.class {
		classes[cl]++
	}
	for cl, n := range classes {
		c.CountN("event_"+cl, n)
	}
}
