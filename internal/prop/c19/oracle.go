package c19

import (
	"fmt"
	"sort"
)

// The offline oracle. It sees only what was recorded at the client boundary of
// the feed: one global sequence counter stamps
//
//	send.call(v) / send.ret(v,n)      around Feed.Send
//	sub.call(s) / sub.ret(s)          around Feed.Subscribe
//	unsub.call(s) / unsub.ret(s)      around every Unsubscribe of s (earliest of each kept)
//	close.call / close.ret            around SubscriptionScope.Close (counts as an
//	                                  Unsubscribe of every subscription the scope tracked)
//	recv(c,v)                         after a value came out of subscriber channel c
//
// A stamp a < b means a's operation boundary was passed before b's in real time.
// Every value is unique. Subscribers are identified by their channel; a channel
// can carry more than one subscription ("twin"), in which case the bounds below
// count subscriptions.

type hSend struct {
	val       uint64
	call, ret uint64
	n         int
}

type hSub struct {
	ch                  int
	subCall, subRet     uint64
	unsubCall, unsubRet uint64 // earliest call / earliest return (own calls and scope Close)
}

type hRecv struct {
	val   uint64
	seq   uint64
	ghost bool // came out of the channel after every subscription of the channel had returned from Unsubscribe and the values buffered at that moment had been taken
}

type hChan struct {
	name  string
	buf   int
	recvs []hRecv // in the order the single receiver took them
}

type history struct {
	sends []hSend
	subs  []hSub
	chans []hChan
	// subscriptions whose first Unsubscribe was the scope's Close; Track calls
	// that found the scope closed
	cancelledByClose, trackNil int
}

type finding struct{ clause, op, cause, detail string }

type verdict struct {
	findings []finding
	classes  map[string]int
	// values of the first channel in reception order, used as "delivery order seen"
	order []uint64
}

func vname(v uint64) string { return fmt.Sprintf("s%d#%d", (v>>32)-1, v&0xffffffff) }

// overlapClass says what else was going on while send sd was in flight; it is
// the "distinguishing input class" part of a signature.
func overlapClass(h *history, sd *hSend, exceptCh int) string {
	unsub, sub, send := false, false, false
	for i := range h.subs {
		s := &h.subs[i]
		if s.unsubCall < sd.ret && s.unsubRet > sd.call {
			unsub = true
		}
		if s.subCall < sd.ret && s.subRet > sd.call {
			sub = true
		}
	}
	for i := range h.sends {
		o := &h.sends[i]
		if o != sd && o.call < sd.ret && o.ret > sd.call {
			send = true
		}
	}
	switch {
	case unsub:
		return "unsubscribe_overlapped_the_send"
	case sub:
		return "subscribe_overlapped_the_send"
	case send:
		return "another_send_overlapped"
	}
	return "nothing_overlapped"
}

func check(h *history) *verdict {
	vd := &verdict{classes: map[string]int{}}
	add := func(clause, op, cause, detail string) {
		vd.findings = append(vd.findings, finding{clause, op, cause, detail})
	}
	sendIdx := map[uint64]int{}
	for i := range h.sends {
		sendIdx[h.sends[i].val] = i
	}
	vd.classes["sends"] = len(h.sends)

	// subscriptions per channel
	subsOf := make([][]int, len(h.chans))
	for i := range h.subs {
		if h.subs[i].ch >= 0 {
			subsOf[h.subs[i].ch] = append(subsOf[h.subs[i].ch], i)
		}
	}

	// cnt[c][sendIndex]; first reception stamp of every value on any channel
	cnt := make([]map[int]int, len(h.chans))
	total := make([]int, len(h.sends))
	firstRecv := make([]uint64, len(h.sends))
	for c := range h.chans {
		cnt[c] = map[int]int{}
		for _, r := range h.chans[c].recvs {
			si, ok := sendIdx[r.val]
			if !ok {
				add("value_never_sent_was_delivered", "Send", "unknown_value", fmt.Sprintf("channel %s received %#x which no sender sent", h.chans[c].name, r.val))
				continue
			}
			cnt[c][si]++
			total[si]++
			if firstRecv[si] == 0 || r.seq < firstRecv[si] {
				firstRecv[si] = r.seq
			}
			if r.ghost {
				sd := &h.sends[si]
				add("delivered_after_unsubscribe_returned", "Unsubscribe", "value_arrived_after_return",
					fmt.Sprintf("channel %s: %s came out of the channel after Unsubscribe had returned for every subscription of the channel and the values buffered at that moment had been taken (send.call=%d send.ret=%d, recv stamp %d)", h.chans[c].name, vname(r.val), sd.call, sd.ret, r.seq))
			}
		}
	}

	// 1. exactly once to every live subscriber / at most once otherwise
	for si := range h.sends {
		sd := &h.sends[si]
		for c := range h.chans {
			lo, hi, afterUnsub := 0, 0, 0
			for _, k := range subsOf[c] {
				s := &h.subs[k]
				if s.subRet < sd.call && s.unsubCall > sd.ret {
					lo++
				}
				if s.subCall < sd.ret && s.unsubRet > sd.call {
					hi++
				}
				if s.unsubRet < sd.call {
					afterUnsub++
				}
			}
			got := cnt[c][si]
			vd.classes["deliveries_checked"] += lo
			if hi > lo {
				vd.classes["maybe_live_pairs_checked"] += hi - lo
			}
			if got < lo {
				add("lost_delivery", "Send", overlapClass(h, sd, c),
					fmt.Sprintf("%s: %d subscription(s) of channel %s (buf %d) were subscribed before send.call=%d and not unsubscribed until after send.ret=%d, but the channel received the value %d time(s)", vname(sd.val), lo, h.chans[c].name, h.chans[c].buf, sd.call, sd.ret, got))
			}
			if got > hi {
				if hi == 0 && afterUnsub > 0 && afterUnsub == len(subsOf[c]) {
					add("delivered_after_unsubscribe_returned", "Send", "send_began_after_unsubscribe_returned",
						fmt.Sprintf("%s (send.call=%d) reached channel %s although every subscription of it had returned from Unsubscribe before", vname(sd.val), sd.call, h.chans[c].name))
				} else {
					add("duplicate_delivery", "Send", overlapClass(h, sd, c),
						fmt.Sprintf("%s: channel %s (buf %d) received the value %d times with at most %d subscription(s) possibly live during [send.call=%d, send.ret=%d]", vname(sd.val), h.chans[c].name, h.chans[c].buf, got, hi, sd.call, sd.ret))
				}
			}
		}
		// 2. the return value is the number of deliveries made
		if sd.ret == never {
			// still in flight when a stuck case was stopped: nothing to compare
			continue
		}
		if sd.n != total[si] {
			cause := "reported_fewer_than_delivered"
			if sd.n > total[si] {
				cause = "reported_more_than_delivered"
			}
			add("send_count_mismatch", "Send", cause, fmt.Sprintf("%s: Send returned %d, subscriber channels received it %d time(s) in total (%s)", vname(sd.val), sd.n, total[si], overlapClass(h, sd, -1)))
		}
		vd.classes["send_counts_compared"]++
	}

	// 3. one common order
	checkOrder(h, sendIdx, vd, add)

	// observation classes derived from the history (logical, no clock)
	classify(h, subsOf, cnt, firstRecv, vd)

	if len(h.chans) > 0 {
		for _, r := range h.chans[0].recvs {
			vd.order = append(vd.order, r.val)
		}
	}
	return vd
}

// checkOrder: the union over channels of "v was received before w" must be
// acyclic, also together with "Send(v) returned before Send(w) was called".
func checkOrder(h *history, sendIdx map[uint64]int, vd *verdict, add func(clause, op, cause, detail string)) {
	n := len(h.sends)
	adj := make([]map[int]struct{}, n)
	edge := func(a, b int) {
		if a == b {
			return
		}
		if adj[a] == nil {
			adj[a] = map[int]struct{}{}
		}
		adj[a][b] = struct{}{}
	}
	recvBy := make([]int, n)
	for c := range h.chans {
		prev := -1
		seen := map[int]bool{}
		for _, r := range h.chans[c].recvs {
			si, ok := sendIdx[r.val]
			if !ok || r.ghost {
				continue
			}
			if !seen[si] {
				seen[si] = true
				recvBy[si]++
			}
			if prev >= 0 {
				edge(prev, si)
			}
			prev = si
		}
	}
	if cyc := findCycle(adj, n); cyc != nil {
		add("no_common_delivery_order", "Send", "subscribers_disagree", "subscriber channels saw these values in contradictory orders: "+cycleNames(h, cyc))
		return
	}
	// pairs of overlapping sends both seen by >= 2 channels: the order of those
	// was decided by the feed and compared across subscribers
	byCall := make([]int, n)
	for i := range byCall {
		byCall[i] = i
	}
	sort.Slice(byCall, func(a, b int) bool { return h.sends[byCall[a]].call < h.sends[byCall[b]].call })
	for x := 0; x < n; x++ {
		a := byCall[x]
		for y := x + 1; y < n; y++ {
			b := byCall[y]
			if h.sends[b].call > h.sends[a].ret {
				break
			}
			if recvBy[a] >= 2 && recvBy[b] >= 2 {
				vd.classes["overlapping_send_pairs_order_compared"]++
			}
		}
	}
	for a := 0; a < n; a++ {
		for b := 0; b < n; b++ {
			if a != b && h.sends[a].ret < h.sends[b].call {
				edge(a, b)
			}
		}
	}
	if cyc := findCycle(adj, n); cyc != nil {
		add("no_common_delivery_order", "Send", "contradicts_order_of_non_overlapping_sends", "a send that returned before another was called was received after it: "+cycleNames(h, cyc))
	}
}

func cycleNames(h *history, cyc []int) string {
	s := ""
	for i, k := range cyc {
		if i > 0 {
			s += " -> "
		}
		sd := &h.sends[k]
		s += fmt.Sprintf("%s[call=%d ret=%d]", vname(sd.val), sd.call, sd.ret)
		if i >= 7 {
			s += " ..."
			break
		}
	}
	return s
}

// findCycle returns some cycle of the graph or nil.
func findCycle(adj []map[int]struct{}, n int) []int {
	state := make([]uint8, n)
	parent := make([]int, n)
	type frame struct {
		v    int
		next []int
	}
	for root := 0; root < n; root++ {
		if state[root] != 0 {
			continue
		}
		parent[root] = -1
		stack := []frame{{root, keys(adj[root])}}
		state[root] = 1
		for len(stack) > 0 {
			f := &stack[len(stack)-1]
			if len(f.next) == 0 {
				state[f.v] = 2
				stack = stack[:len(stack)-1]
				continue
			}
			w := f.next[0]
			f.next = f.next[1:]
			switch state[w] {
			case 0:
				state[w] = 1
				parent[w] = f.v
				stack = append(stack, frame{w, keys(adj[w])})
			case 1:
				cyc := []int{w}
				for x := f.v; x != w && x >= 0; x = parent[x] {
					cyc = append(cyc, x)
				}
				// reverse to follow edge direction
				for i, j := 1, len(cyc)-1; i < j; i, j = i+1, j-1 {
					cyc[i], cyc[j] = cyc[j], cyc[i]
				}
				return append(cyc, w)
			}
		}
	}
	return nil
}

func keys(m map[int]struct{}) []int {
	out := make([]int, 0, len(m))
	for k := range m {
		out = append(out, k)
	}
	sort.Ints(out)
	return out
}

// classify counts the interleavings that the history proves to have happened.
func classify(h *history, subsOf [][]int, cnt []map[int]int, firstRecv []uint64, vd *verdict) {
	// (s, v): s was subscribed before send.call(v), never got v, and its
	// Unsubscribe was called after some other channel had already received v and
	// before Send(v) returned. Send(v) held the send token from before that first
	// delivery and could not return while s was among its cases, so this
	// Unsubscribe was served by the running Send (removeSub path).
	type blocked struct{ sub, send int }
	var bl []blocked
	for si := range h.sends {
		sd := &h.sends[si]
		for k := range h.subs {
			s := &h.subs[k]
			if s.ch < 0 {
				continue
			}
			if s.subRet < sd.call && s.unsubCall < sd.ret && firstRecv[si] != 0 && s.unsubCall > firstRecv[si] &&
				len(subsOf[s.ch]) == 1 && cnt[s.ch][si] == 0 {
				bl = append(bl, blocked{k, si})
				vd.classes["unsubscribe_served_by_blocked_send"]++
				if h.chans[s.ch].buf == 0 {
					vd.classes["unsubscribe_served_by_blocked_send_unbuffered"]++
				} else {
					vd.classes["unsubscribe_served_by_blocked_send_buffered_full"]++
				}
			}
		}
	}
	for _, b := range bl {
		s, sd := &h.subs[b.sub], &h.sends[b.send]
		for k := range h.subs {
			p := &h.subs[k]
			if k == b.sub {
				continue
			}
			// subscribed while that send was blocked on s
			if p.subCall > firstRecv[b.send] && p.subRet < s.unsubCall {
				vd.classes["subscribe_during_blocked_send"]++
				if p.unsubRet < s.unsubCall {
					vd.classes["unsubscribe_from_inbox_during_blocked_send"]++
				}
			}
		}
		for i := range h.sends {
			o := &h.sends[i]
			if i != b.send && o.call > firstRecv[b.send] && o.call < s.unsubCall {
				vd.classes["send_called_while_another_send_blocked"]++
			}
		}
		_ = sd
	}
	if h.cancelledByClose > 0 {
		vd.classes["scope_close_with_live_subscriptions"]++
		vd.classes["subscriptions_cancelled_by_scope_close"] += h.cancelledByClose
	}
	vd.classes["track_on_closed_scope"] += h.trackNil
	// Unsubscribe of a subscription that had received something, with no send in
	// flight at any point of the call: the caller took the send token itself.
	for k := range h.subs {
		s := &h.subs[k]
		if s.ch < 0 {
			continue
		}
		got := 0
		for _, n := range cnt[s.ch] {
			got += n
		}
		if got == 0 {
			continue
		}
		idle := true
		for i := range h.sends {
			o := &h.sends[i]
			if o.call < s.unsubRet && o.ret > s.unsubCall {
				idle = false
				break
			}
		}
		if idle {
			vd.classes["unsubscribe_on_idle_feed"]++
		}
	}
	for c := range h.chans {
		if len(subsOf[c]) > 1 {
			vd.classes["channel_with_two_subscriptions"]++
			for si := range h.sends {
				if cnt[c][si] == 2 {
					vd.classes["value_delivered_twice_to_twin_channel"]++
				}
			}
		}
	}
	// subscribers that joined after the first send was called and still received
	for c := range h.chans {
		if len(h.sends) == 0 || len(subsOf[c]) == 0 {
			continue
		}
		firstCall := h.sends[0].call
		for i := range h.sends {
			if h.sends[i].call < firstCall {
				firstCall = h.sends[i].call
			}
		}
		if h.subs[subsOf[c][0]].subCall > firstCall && len(h.chans[c].recvs) > 0 {
			vd.classes["late_subscriber_received"]++
		}
	}
}
