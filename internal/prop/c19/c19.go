// Package c19: event feeds deliver every value exactly once to every live subscriber.
//
// Monitor: PRNG scripts of senders, subscribers (buffered / unbuffered, fast /
// slow / stalling), unsubscriptions (from a controller, from inside the receive
// loop, twice at once, through SubscriptionScope.Close, while a Send is blocked on
// that very subscriber) and subscriptions made while a Send is blocked run
// against the real aqua/event.Feed. Every client-side boundary is stamped from one
// atomic counter; after all goroutines have finished an offline oracle
// (oracle.go) decides, from the stamps alone:
//
//	exactly one reception per subscription that was subscribed before send.call
//	  and whose Unsubscribe was not called before send.ret; at most one otherwise
//	Send's return value == number of receptions of the value over all channels
//	nothing comes out of a channel after Unsubscribe has returned (beyond what
//	  was buffered at that moment)
//	the "received before" relations of all channels, together with the order of
//	  non-overlapping sends, form no cycle
//	all goroutines finish (progress watchdog -> goroutine dump -> all parked on
//	  channel/lock operations with one inside the event package = deadlock)
//
// and the race detector watches the "race" leg.
package c19

import (
	"encoding/json"
	"fmt"
	"hash/fnv"
	"sort"
	"strings"
	"time"

	"verif/internal/fw"
)

func init() {
	fw.Register(&fw.Prop{
		ID:    "C19",
		Title: "Event feeds deliver every value exactly once to every live subscriber",
		Level: "exploration",
		Rule: "cases are PRNG scripts run against a fresh event.Feed + SubscriptionScope: 1-8 sender goroutines (some started while another Send is blocked), 1-12 subscriber channels " +
			"(buffer 0-4; always-receiving, slow, or stalling after k receptions so that a Send blocks on them), unsubscription at a reception count of the reference subscriber, from inside the receive loop, " +
			"by two goroutines at once, by scope Close, and exactly while a Send is blocked on that subscriber; subscriptions (kept or cancelled at once) made during a blocked Send; one channel subscribed twice; GOMAXPROCS 1/2/4/16. " +
			"A case is non-trivial when its recorded history contains an Unsubscribe overlapping a Send, two Sends overlapping each other, and >= 2 channels that both received >= 2 common values; distinct = hash of the script. " +
			"The schedule itself is chosen by the Go runtime (plus PRNG yields between client operations), so re-running a script explores other interleavings.",
		Legs: func(tier string) []fw.Leg {
			return []fw.Leg{
				{Name: "race", Variant: "race", Batches: 16, Timeout: 4 * time.Hour},
				{Name: "plain", Variant: "plain", Batches: 16, Timeout: 4 * time.Hour},
			}
		},
		Run: run,
		Gate: func(tier string) map[string]int {
			return map[string]int{
				"sends": 20000, "deliveries_checked": 50000, "send_counts_compared": 20000,
				"unsubscribe_served_by_blocked_send":               400,
				"unsubscribe_served_by_blocked_send_unbuffered":    100,
				"unsubscribe_served_by_blocked_send_buffered_full": 100,
				"subscribe_during_blocked_send":                    100,
				"unsubscribe_from_inbox_during_blocked_send":       50,
				"send_called_while_another_send_blocked":           100,
				"overlapping_send_pairs_order_compared":            1000,
				"unsubscribe_from_receive_loop":                    100,
				"double_unsubscribe":                               100,
				"scope_close_with_live_subscriptions":              100,
				"value_delivered_twice_to_twin_channel":            100,
				"unsubscribe_on_idle_feed":                         100,
				"late_subscriber_received":                         100,
				"oracle_selftest_mutants_caught":                   1,
			}
		},
		AnchorFiles: []string{"aqua/event/feed.go", "aqua/event/subscription.go"},
		Assumptions: []string{
			"a stamp taken from one atomic counter before an operation is called / after it returned orders operations in real time; 'subscribed before the send began' = sub.ret stamp < send.call stamp, 'has not unsubscribed' = earliest unsub.call stamp > send.ret stamp",
			"a delivery is a value placed into the subscriber's channel: values still buffered when the subscriber unsubscribes are taken out and counted",
			"deliveries of one Send happen before that Send returns, so a subscriber that sees two non-overlapping sends sees them in call order (checked as part of the common order)",
			"interleavings are those the Go scheduler produces under GOMAXPROCS 1/2/4/16 with PRNG-placed yields; no scheduler control inside Send/remove (hook H2 not installed)",
			"deadlock = all goroutines of the case parked on channel/lock operations with no timer among them, at least one inside aqua/event; anything else that stops progress is reported inconclusive",
		},
	})
}

// ---------------------------------------------------------------------------
// Script generator

func pickInt(r *fw.Rand, xs ...int) int { return xs[r.Intn(len(xs))] }

func genScript(r *fw.Rand, idx int) script {
	sc := script{Procs: []int{1, 2, 4, 16}[idx%4], YieldSeed: r.Uint64()}
	forced := (idx / 4) % 6
	sc.Subs = append(sc.Subs, subSpec{Name: "canary", Buf: pickInt(r, 0, 0, 1, 4), Mode: "fast", Unsub: "end", WaitSender: -1})

	ns := r.Range(1, 5)
	if forced == 1 && ns < 2 {
		ns = 2
	}
	total := 0
	for i := 0; i < ns; i++ {
		n := r.Range(3, 30)
		sc.Senders = append(sc.Senders, senderSpec{Count: n, Yields: r.Intn(3)})
		total += n
	}
	late := func() int {
		if r.Chance(1, 3) {
			return r.Range(1, total/2+1)
		}
		return 0
	}
	// always-receiving subscribers
	nfast := r.Range(0, 3)
	if forced == 2 && nfast == 0 {
		nfast = 1
	}
	for i := 0; i < nfast; i++ {
		s := subSpec{Name: fmt.Sprintf("fast%d", i), Buf: r.Intn(5), Mode: "fast", SubAt: late(), Scope: r.Chance(1, 3), Double: r.Chance(1, 4), WaitSender: -1}
		switch x := r.Intn(3); {
		case x == 0 || (forced == 2 && i == 0):
			s.Unsub, s.SelfAfter = "self", r.Range(1, 8)
			if forced == 2 && i == 0 {
				s.SubAt = 0
			}
		case x == 1:
			s.Unsub, s.UnsubAt = "gate", r.Range(1, total)
		default:
			s.Unsub = "end"
		}
		sc.Subs = append(sc.Subs, s)
	}
	for i, n := 0, r.Range(0, 2); i < n; i++ {
		s := subSpec{Name: fmt.Sprintf("slow%d", i), Buf: r.Intn(5), Mode: "slow", SubAt: late(), Scope: r.Chance(1, 3), WaitSender: -1}
		if r.Bool() {
			s.Slow = r.Range(1, 8)
		} else {
			s.Slow = r.Range(10, 150)
		}
		switch r.Intn(3) {
		case 0:
			s.Unsub, s.SelfAfter = "self", r.Range(1, 8)
		case 1:
			s.Unsub, s.UnsubAt = "gate", r.Range(1, total)
		default:
			s.Unsub = "end"
		}
		sc.Subs = append(sc.Subs, s)
	}
	// stalling subscribers: a Send blocks on them until they are unsubscribed
	nstall := r.Range(0, 3)
	if forced <= 1 || forced == 3 {
		if nstall == 0 {
			nstall = 1
		}
	}
	need := 0
	for i := 0; i < nstall; i++ {
		s := subSpec{Name: fmt.Sprintf("stall%d", i), Buf: pickInt(r, 0, 0, 1, 2, 4), Mode: "stall", StallAfter: r.Range(0, 5),
			Unsub: "blocked", SubAt: late(), Scope: r.Chance(1, 4), Double: r.Chance(1, 4), WaitSender: -1}
		if r.Chance(1, 4) {
			s.Early = r.Range(1, 3)
		}
		for p, np := 0, r.Range(0, 2); p < np; p++ {
			s.Probes = append(s.Probes, probeSpec{Buf: r.Intn(3), Immediate: r.Bool()})
		}
		if i == 0 {
			switch forced {
			case 0: // unsubscribe exactly while a Send is blocked on this subscriber
				s.SubAt, s.Early, s.Scope = 0, 0, false
				s.Buf = pickInt(r, 0, 0, 1, 3)
			case 1: // a second sender calls Send while the first is blocked
				s.SubAt, s.Early, s.Scope, s.WaitSender = 0, 0, false, 0 // sender index fixed below
			case 3: // subscribe (and cancel) during a blocked send
				s.SubAt, s.Early, s.Scope = 0, 0, false
				s.Probes = []probeSpec{{Buf: r.Intn(3), Immediate: true}, {Buf: r.Intn(3), Immediate: false}}
			}
		} else if s.SubAt == 0 && r.Chance(1, 4) {
			s.WaitSender = 0
		}
		if s.WaitSender >= 0 {
			k := s.StallAfter + s.Buf + 1 - s.Early
			if k < 1 {
				s.Early = 0
				k = s.StallAfter + s.Buf + 1
			}
			sc.Senders = append(sc.Senders, senderSpec{Count: r.Range(1, 5), StartAt: k, Yields: r.Intn(2)})
			s.WaitSender = len(sc.Senders) - 1
		}
		if s.SubAt == 0 && s.StallAfter+s.Buf+3 > need {
			need = s.StallAfter + s.Buf + 3
		}
		sc.Subs = append(sc.Subs, s)
	}
	// enough ungated sends for every from-the-start stall to really block one
	if total < need {
		sc.Senders[0].Count += need - total
		total = need
	}
	if r.Chance(1, 4) || forced == 4 {
		s := subSpec{Name: "twin", Buf: r.Intn(3), Mode: "fast", Twin: true, SubAt: 0, WaitSender: -1}
		if forced != 4 {
			s.SubAt = late()
		}
		if r.Bool() {
			s.Unsub, s.UnsubAt = "gate", r.Range(2, total)
		} else {
			s.Unsub = "end"
		}
		sc.Subs = append(sc.Subs, s)
	}
	if forced == 5 {
		// the scope has live subscriptions when it is closed in mid-stream
		sc.Subs = append(sc.Subs, subSpec{Name: "scoped", Buf: r.Intn(5), Mode: "fast", Unsub: "end", Scope: true, WaitSender: -1})
		sc.ScopeCloseAt = r.Range(1, total-1)
	} else if r.Bool() {
		sc.ScopeCloseAt = r.Range(1, total)
	}
	sanitize(&sc)
	return sc
}

// sanitize enforces the invariants that make every wait of the harness end for
// a correct feed (see harness.go): whatever the generator drew.
func sanitize(sc *script) {
	c := &sc.Subs[0]
	c.Mode, c.SubAt, c.Unsub, c.Scope, c.Twin, c.WaitSender, c.Probes = "fast", 0, "end", false, false, -1, nil
	for i := range sc.Subs {
		s := &sc.Subs[i]
		if s.Mode == "stall" {
			s.Unsub, s.Twin = "blocked", false
			if s.Early < 0 {
				s.Early = 0
			}
		} else {
			if s.Unsub == "blocked" {
				s.Unsub = "end"
			}
			s.WaitSender, s.Probes = -1, nil
		}
		if s.Twin {
			s.Mode, s.Scope, s.Double = "fast", false, false
			if s.Unsub == "self" {
				s.Unsub = "end"
			}
		}
		if s.Unsub == "self" && s.SelfAfter < 1 {
			s.SelfAfter = 1
		}
		if s.WaitSender >= 0 {
			k := s.StallAfter + s.Buf + 1 - s.Early
			if s.SubAt != 0 || s.WaitSender >= len(sc.Senders) || sc.Senders[s.WaitSender].StartAt == 0 || sc.Senders[s.WaitSender].StartAt > k {
				s.WaitSender = -1
			}
		}
	}
	for i := range sc.Senders {
		if sc.Senders[i].Count < 1 {
			sc.Senders[i].Count = 1
		}
	}
}

// ---------------------------------------------------------------------------

func run(c *fw.Ctx) {
	if !selftest(c) {
		return
	}
	n := c.Pick(400, 10000)
	if c.Leg == "plain" {
		n = c.Pick(1500, 40000)
	}
	orders := map[uint64]struct{}{}
	sigInBatch := map[string]int{}
	for i := 0; i < n; i++ {
		r := c.Rand("script", fmt.Sprint(i))
		sc := genScript(r, i)
		id := fmt.Sprintf("%s-%d", c.Leg, i)
		aborted := false
		c.Case(id, sc, func() {
			hist, st := play(&sc, 10*time.Second)
			if st != nil {
				aborted = true
				if !st.deadlock {
					c.Inconclusive("no_progress_but_not_all_parked")
					c.Note("no progress; %d workers, not parked: %v\n%s", st.workers, st.notParked, trimDump(st.dump))
					return
				}
				// The frozen history may show why: e.g. the reference subscriber missed
				// a value, so the script's unsubscriptions were never triggered. Then
				// that is the violation and the standstill its consequence.
				vd := check(hist)
				other := ""
				if len(vd.findings) > 0 {
					other = "(after_other_violations)"
					witness := map[string]interface{}{"script": sc, "history": renderHistory(hist)}
					seen := map[string]bool{}
					for _, f := range vd.findings {
						if sig := f.clause + f.op + f.cause; !seen[sig] {
							seen[sig] = true
							c.ViolateInput(f.clause, f.op, f.cause, f.detail+" [history of a case that then stopped making progress]", witness)
						}
					}
				}
				c.ViolateInput("deadlock", "Send/Unsubscribe", "all_parked_in:"+st.where+other,
					fmt.Sprintf("no operation completed for 10 s and all %d goroutines of the case are parked on channel or lock operations; goroutines inside the event package: %s\n%s", st.workers, st.where, trimDump(st.dump)),
					map[string]interface{}{"script": sc, "history": renderHistory(hist)})
				return
			}
			vd := check(hist)
			if len(vd.findings) > 0 {
				// one record per distinct signature of this case, with the history
				// written out once; the rest is only counted
				var witness interface{}
				seen := map[string]int{}
				for _, f := range vd.findings {
					sig := f.clause + "|" + f.op + "|" + f.cause
					seen[sig]++
					if seen[sig] > 1 {
						continue
					}
					sigInBatch[sig]++
					if sigInBatch[sig] > 3 {
						// the framework keeps three full records per signature
						c.Violate(f.clause, f.op, f.cause, f.detail)
						continue
					}
					if witness == nil {
						witness = map[string]interface{}{"script": sc, "history": renderHistory(hist)}
					}
					c.ViolateInput(f.clause, f.op, f.cause, f.detail, witness)
				}
				for sig, n := range seen {
					if n > 1 {
						c.CountN("further_findings_same_case:"+sig, n-1)
					}
				}
			}
			for k, v := range vd.classes {
				c.CountN(k, v)
			}
			countScriptClasses(c, &sc, hist)
			if vd.classes["overlapping_send_pairs_order_compared"] > 0 && unsubOverlapsSend(hist) {
				b, _ := json.Marshal(sc)
				c.NontrivialBytes(b)
			}
			hh := fnv.New64a()
			for _, v := range vd.order {
				fmt.Fprintf(hh, "%x,", v)
			}
			if _, ok := orders[hh.Sum64()]; !ok {
				orders[hh.Sum64()] = struct{}{}
				c.Count("distinct_delivery_orders_per_batch")
			}
			if i < 2 && c.WantSample() {
				c.Sample(map[string]interface{}{"case": id, "script": sc, "sends": len(hist.sends), "channels": len(hist.chans),
					"subscriptions": len(hist.subs), "first_events": firstLines(renderHistory(hist), 40), "classes": vd.classes})
			}
		})
		if aborted {
			// goroutines of the stuck case are still there; nothing after it in this
			// process could be judged cleanly
			c.Note("batch stopped after a stuck case")
			return
		}
	}
}

func unsubOverlapsSend(h *history) bool {
	for i := range h.subs {
		s := &h.subs[i]
		for j := range h.sends {
			if s.unsubCall < h.sends[j].ret && s.unsubRet > h.sends[j].call {
				return true
			}
		}
	}
	return false
}

// countScriptClasses counts what the script did by construction and the history confirms.
func countScriptClasses(c *fw.Ctx, sc *script, h *history) {
	chOf := map[string]int{}
	for i := range h.chans {
		chOf[h.chans[i].name] = i
	}
	for i := range sc.Subs {
		s := &sc.Subs[i]
		ci := chOf[s.Name]
		var subs []*hSub
		for k := range h.subs {
			if h.subs[k].ch == ci {
				subs = append(subs, &h.subs[k])
			}
		}
		if len(subs) == 0 {
			continue
		}
		if s.Unsub == "self" && len(h.chans[ci].recvs) >= s.SelfAfter {
			c.Count("unsubscribe_from_receive_loop")
		}
		if s.Double && !s.Twin {
			c.Count("double_unsubscribe")
		}
		if s.Buf == 0 {
			c.Count("channels_unbuffered")
		} else {
			c.Count("channels_buffered")
		}
		if s.Mode == "slow" {
			c.Count("channels_slow_receiver")
		}
		if s.Mode == "stall" {
			c.Count("channels_stalling_receiver")
		}
	}
	c.CountN("sender_goroutines", len(sc.Senders))
	c.CountN("subscriber_channels", len(h.chans))
	c.Count(fmt.Sprintf("scripts_gomaxprocs_%d", sc.Procs))
}

func trimDump(d string) string {
	if len(d) > 9000 {
		return d[:9000] + "\n...[truncated]"
	}
	return d
}

func firstLines(s []string, n int) []string {
	if len(s) > n {
		return s[:n]
	}
	return s
}

// renderHistory writes the recorded events in stamp order.
func renderHistory(h *history) []string {
	type line struct {
		seq uint64
		s   string
	}
	var ls []line
	for i := range h.sends {
		sd := &h.sends[i]
		ls = append(ls, line{sd.call, fmt.Sprintf("send.call %s", vname(sd.val))})
		if sd.ret != never {
			ls = append(ls, line{sd.ret, fmt.Sprintf("send.ret %s n=%d", vname(sd.val), sd.n)})
		}
	}
	for k := range h.subs {
		s := &h.subs[k]
		if s.ch < 0 {
			continue
		}
		nm := fmt.Sprintf("sub%d(%s)", k, h.chans[s.ch].name)
		ls = append(ls, line{s.subCall, "sub.call " + nm}, line{s.subRet, "sub.ret " + nm})
		if s.unsubCall != never {
			ls = append(ls, line{s.unsubCall, "unsub.call(first) " + nm})
		}
		if s.unsubRet != never {
			ls = append(ls, line{s.unsubRet, "unsub.ret(first) " + nm})
		}
	}
	for c := range h.chans {
		for _, r := range h.chans[c].recvs {
			k := "recv"
			if r.ghost {
				k = "recv-after-unsub"
			}
			ls = append(ls, line{r.seq, fmt.Sprintf("%s %s %s", k, h.chans[c].name, vname(r.val))})
		}
	}
	sort.Slice(ls, func(a, b int) bool { return ls[a].seq < ls[b].seq })
	out := make([]string, 0, len(ls))
	for _, l := range ls {
		out = append(out, fmt.Sprintf("%d %s", l.seq, l.s))
	}
	if len(out) > 1500 {
		out = append(out[:1500], "...")
	}
	return out
}

// ---------------------------------------------------------------------------
// Self-test of the oracle: hand-made histories with one defect each must be
// flagged with the expected clause, and the clean one must pass. A failure is a
// broken harness (the gate class stays 0), never a verdict about the feed.

func selftest(c *fw.Ctx) bool {
	clean := func() *history {
		// two channels A,B subscribed at 1..4; sends v1 [10,15], v2 [12,20] overlapping; v3 [30,35]
		v := func(s, n int) uint64 { return uint64(s+1)<<32 | uint64(n) }
		return &history{
			sends: []hSend{{val: v(0, 1), call: 10, ret: 15, n: 2}, {val: v(1, 1), call: 12, ret: 20, n: 2}, {val: v(0, 2), call: 30, ret: 35, n: 1}},
			subs:  []hSub{{ch: 0, subCall: 1, subRet: 2, unsubCall: 50, unsubRet: 51}, {ch: 1, subCall: 3, subRet: 4, unsubCall: 25, unsubRet: 26}},
			chans: []hChan{
				{name: "A", recvs: []hRecv{{val: v(0, 1), seq: 13}, {val: v(1, 1), seq: 17}, {val: v(0, 2), seq: 33}}},
				{name: "B", recvs: []hRecv{{val: v(0, 1), seq: 14}, {val: v(1, 1), seq: 18}}},
			},
		}
	}
	v := func(s, n int) uint64 { return uint64(s+1)<<32 | uint64(n) }
	type mutant struct {
		name, clause string
		mut          func(h *history)
	}
	muts := []mutant{
		{"lost", "lost_delivery", func(h *history) { h.chans[1].recvs = h.chans[1].recvs[:1]; h.sends[1].n = 1 }},
		{"dup", "duplicate_delivery", func(h *history) {
			h.chans[0].recvs = append(h.chans[0].recvs, hRecv{val: v(0, 2), seq: 34})
			h.sends[2].n = 2
		}},
		{"count", "send_count_mismatch", func(h *history) { h.sends[0].n = 1 }},
		{"late_ghost", "delivered_after_unsubscribe_returned", func(h *history) {
			h.sends[2].call, h.sends[2].ret, h.sends[2].n = 24, 35, 2
			h.chans[1].recvs = append(h.chans[1].recvs, hRecv{val: v(0, 2), seq: 34, ghost: true})
		}},
		{"late_send", "delivered_after_unsubscribe_returned", func(h *history) {
			h.chans[1].recvs = append(h.chans[1].recvs, hRecv{val: v(0, 2), seq: 34})
			h.sends[2].n = 2
		}},
		{"order", "no_common_delivery_order", func(h *history) {
			r := h.chans[1].recvs
			r[0], r[1] = r[1], r[0]
		}},
		{"realtime", "no_common_delivery_order", func(h *history) {
			r := h.chans[0].recvs
			r[1], r[2] = r[2], r[1]
		}},
		{"unknown", "value_never_sent_was_delivered", func(h *history) {
			h.chans[0].recvs = append(h.chans[0].recvs, hRecv{val: v(7, 7), seq: 40})
		}},
	}
	ok := true
	if vd := check(clean()); len(vd.findings) != 0 {
		c.Note("selftest: clean history flagged: %+v", vd.findings)
		ok = false
	}
	for _, m := range muts {
		h := clean()
		m.mut(h)
		vd := check(h)
		hit := false
		var got []string
		for _, f := range vd.findings {
			got = append(got, f.clause)
			if f.clause == m.clause {
				hit = true
			}
		}
		if !hit {
			c.Note("selftest: mutant %s not flagged as %s (got %s)", m.name, m.clause, strings.Join(got, ","))
			ok = false
		}
	}
	// dump analysis
	dl, where, _, _ := analyseDump("goroutine 7 [select]:\ngitlab.com/aquachain/aquachain/aqua/event.(*Feed).Send(0x1)\n\t/repo/aqua/event/feed.go:170\nverif/internal/prop/c19.(*harness).sender(0x1)\n\n" +
		"goroutine 8 [chan receive]:\nverif/internal/prop/c19.(*harness).receiver(0x1)\n\ngoroutine 1 [running]:\nverif/internal/prop/c19.play(0x1)\n")
	if !dl || where != "Feed.Send" {
		c.Note("selftest: dump analysis did not recognise a deadlock (%v %q)", dl, where)
		ok = false
	}
	dl, _, _, _ = analyseDump("goroutine 7 [select]:\ngitlab.com/aquachain/aquachain/aqua/event.(*Feed).Send(0x1)\nverif/internal/prop/c19.(*harness).sender(0x1)\n\n" +
		"goroutine 8 [sleep]:\nverif/internal/prop/c19.(*harness).receiver(0x1)\n")
	if dl {
		c.Note("selftest: dump analysis called a state with a sleeping goroutine a deadlock")
		ok = false
	}
	if ok {
		c.CountN("oracle_selftest_mutants_caught", len(muts))
	} else {
		c.Inconclusive("oracle_selftest_failed")
	}
	return ok
}
