package c19

import (
	"fmt"
	"math"
	"regexp"
	"runtime"
	"sort"
	"strings"
	"sync"
	"sync/atomic"
	"time"

	"gitlab.com/aquachain/aquachain/aqua/event"
	"verif/internal/fw"
)

// ---------------------------------------------------------------------------
// Script: what one case does. Everything here is a pure function of the PRNG.
//
// Roles
//   canary    channel 0: subscribed before any send, receives everything at once,
//             unsubscribed last. Its reception count drives the gates.
//   fast/slow subscriber channels that always keep receiving (slow: pauses between
//             receptions)
//   stall     receives StallAfter values, then stops receiving until it has been
//             unsubscribed: the (StallAfter+Buf+1)-th send after its subscription
//             blocks on it. Its controller unsubscribes it when the canary has
//             received that many values ("blocked"), i.e. while that very Send
//             is blocked on it, or Early values sooner.
//   probes    subscriptions made by a stall controller at the moment the send is
//             blocked (inbox path), cancelled at once or kept to the end.
//
// Gates are reception counts of the canary; every wait also ends when all
// ungated senders have finished ("release"), so no wait depends on more values
// than are sent.

type probeSpec struct {
	Buf       int  `json:"buf"`
	Immediate bool `json:"immediate"` // unsubscribe again before the blocked send is released
}

type subSpec struct {
	Name       string      `json:"name"`
	Buf        int         `json:"buf"`
	Mode       string      `json:"mode"` // fast | slow | stall
	Slow       int         `json:"slow,omitempty"`
	StallAfter int         `json:"stall_after,omitempty"`
	SubAt      int         `json:"sub_at,omitempty"` // canary count at which it subscribes; 0 = before the senders start
	Unsub      string      `json:"unsub"`            // end | gate | self | blocked
	UnsubAt    int         `json:"unsub_at,omitempty"`
	Early      int         `json:"early,omitempty"`
	SelfAfter  int         `json:"self_after,omitempty"`
	Double     bool        `json:"double,omitempty"` // a second goroutine calls Unsubscribe at the same time
	Scope      bool        `json:"scope,omitempty"`  // tracked by the SubscriptionScope
	Twin       bool        `json:"twin,omitempty"`   // the channel is subscribed twice
	WaitSender int         `json:"wait_sender"`      // -1, or: before unsubscribing wait until this gated sender has called Send
	Probes     []probeSpec `json:"probes,omitempty"`
}

type senderSpec struct {
	Count   int `json:"count"`
	StartAt int `json:"start_at,omitempty"` // canary count gate; 0 = at once
	Yields  int `json:"yields,omitempty"`
}

type script struct {
	Procs        int          `json:"gomaxprocs"`
	Subs         []subSpec    `json:"subs"`
	Senders      []senderSpec `json:"senders"`
	ScopeCloseAt int          `json:"scope_close_at"` // canary count; 0 = after the last send
	YieldSeed    uint64       `json:"yield_seed"`
}

// ---------------------------------------------------------------------------
// Recording

const (
	evSubCall = iota
	evSubRet
	evUnsubCall
	evUnsubRet
	evTracked
	evTrackNil
	evSendCall
	evSendRet
	evRecv
	evGhost
	evCloseCall
	evCloseRet
)

type ev struct {
	seq  uint64
	kind uint8
	sub  int32
	ch   int32
	n    int32
	val  uint64
}

// glog is written by one goroutine; the mutex only makes it readable while that
// goroutine is parked forever (stuck case).
type glog struct {
	mu  sync.Mutex
	evs []ev
}

type countGate struct {
	mu       sync.Mutex
	count    int
	released bool
	waiters  []gateWaiter
}

type gateWaiter struct {
	k  int
	ch chan struct{}
}

func (g *countGate) wait(k int) {
	g.mu.Lock()
	if g.released || g.count >= k {
		g.mu.Unlock()
		return
	}
	ch := make(chan struct{})
	g.waiters = append(g.waiters, gateWaiter{k, ch})
	g.mu.Unlock()
	<-ch
}

func (g *countGate) cur() int {
	g.mu.Lock()
	defer g.mu.Unlock()
	return g.count
}

func (g *countGate) advance() {
	g.mu.Lock()
	g.count++
	kept := g.waiters[:0]
	for _, w := range g.waiters {
		if g.count >= w.k {
			close(w.ch)
		} else {
			kept = append(kept, w)
		}
	}
	g.waiters = kept
	g.mu.Unlock()
}

func (g *countGate) release() {
	g.mu.Lock()
	g.released = true
	for _, w := range g.waiters {
		close(w.ch)
	}
	g.waiters = nil
	g.mu.Unlock()
}

type chanState struct {
	idx         int
	spec        *subSpec
	canary      bool
	ch          chan uint64
	outstanding int32 // subscriptions of this channel not yet returned from Unsubscribe
	unsubDone   chan struct{}
	ready       chan struct{} // closed once first is set
	first       *subscription
}

type subscription struct {
	idx      int32
	cs       *chanState
	sub      event.Subscription
	tracked  bool
	doneOnce sync.Once
}

func (s *subscription) markDone() {
	s.doneOnce.Do(func() {
		if atomic.AddInt32(&s.cs.outstanding, -1) == 0 {
			close(s.cs.unsubDone)
		}
	})
}

type harness struct {
	sc    *script
	feed  event.Feed
	scope event.SubscriptionScope
	seq   uint64

	mu      sync.Mutex
	logs    []*glog
	chans   []*chanState
	nsubs   int32
	tracked []*subscription

	gate    countGate
	allSent chan struct{}
	stop    chan struct{}
	called  []chan struct{} // per sender: closed right after its first send.call stamp

	wgSend0, wgSendG, wgCtl, wgRecv sync.WaitGroup
}

func (h *harness) stamp() uint64 { return atomic.AddUint64(&h.seq, 1) }

func (h *harness) newLog() *glog {
	l := &glog{}
	h.mu.Lock()
	h.logs = append(h.logs, l)
	h.mu.Unlock()
	return l
}

func (h *harness) add(l *glog, kind uint8, sub, ch int32, val uint64, n int32) {
	l.mu.Lock()
	l.evs = append(l.evs, ev{seq: h.stamp(), kind: kind, sub: sub, ch: ch, val: val, n: n})
	l.mu.Unlock()
}

func (h *harness) newChan(spec *subSpec, nsubs int32) *chanState {
	cs := &chanState{spec: spec, ch: make(chan uint64, spec.Buf), outstanding: nsubs,
		unsubDone: make(chan struct{}), ready: make(chan struct{})}
	h.mu.Lock()
	cs.idx = len(h.chans)
	h.chans = append(h.chans, cs)
	h.mu.Unlock()
	return cs
}

// yielder: scheduler noise between client operations (never inside one).
type yielder struct{ r *fw.Rand }

func (y *yielder) maybe() {
	switch y.r.Intn(8) {
	case 0:
		runtime.Gosched()
	case 1:
		for i := y.r.Intn(4); i >= 0; i-- {
			runtime.Gosched()
		}
	case 2:
		if y.r.Intn(8) == 0 {
			time.Sleep(time.Duration(y.r.Intn(50)) * time.Microsecond)
		}
	}
}

func (h *harness) yielder(label string, i int) *yielder {
	return &yielder{fw.NewRand(h.sc.YieldSeed, label, fmt.Sprint(i))}
}

func (h *harness) subscribe(cs *chanState, l *glog) *subscription {
	s := &subscription{idx: atomic.AddInt32(&h.nsubs, 1) - 1, cs: cs}
	h.add(l, evSubCall, s.idx, int32(cs.idx), 0, 0)
	raw := h.feed.Subscribe(cs.ch)
	h.add(l, evSubRet, s.idx, int32(cs.idx), 0, 0)
	s.sub = raw
	if cs.spec.Scope {
		if w := h.scope.Track(raw); w != nil {
			s.sub, s.tracked = w, true
			h.add(l, evTracked, s.idx, int32(cs.idx), 0, 0)
			h.mu.Lock()
			h.tracked = append(h.tracked, s)
			h.mu.Unlock()
		} else {
			// the scope is closed already: the subscription stays ours to cancel
			h.add(l, evTrackNil, s.idx, int32(cs.idx), 0, 0)
		}
	}
	return s
}

func (h *harness) unsubscribe(s *subscription, l *glog) {
	h.add(l, evUnsubCall, s.idx, int32(s.cs.idx), 0, 0)
	s.sub.Unsubscribe()
	h.add(l, evUnsubRet, s.idx, int32(s.cs.idx), 0, 0)
	s.markDone()
}

func (h *harness) receiver(cs *chanState) {
	defer h.wgRecv.Done()
	l := h.newLog()
	y := h.yielder("recv", cs.idx)
	spec := cs.spec
	got := 0
	take := func(v uint64, kind uint8) { h.add(l, kind, -1, int32(cs.idx), v, 0) }
loop:
	for {
		if spec.Mode == "stall" && got >= spec.StallAfter {
			<-cs.unsubDone
			break
		}
		select {
		case v := <-cs.ch:
			take(v, evRecv)
			got++
			if cs.canary {
				h.gate.advance()
			}
			if spec.Unsub == "self" && got == spec.SelfAfter {
				// unsubscribe from inside the receive loop
				<-cs.ready
				h.unsubscribe(cs.first, l)
			}
			if spec.Mode == "slow" {
				if spec.Slow <= 8 {
					for i := 0; i < spec.Slow; i++ {
						runtime.Gosched()
					}
				} else {
					time.Sleep(time.Duration(spec.Slow) * time.Microsecond)
				}
			} else {
				y.maybe()
			}
		case <-cs.unsubDone:
			break loop
		}
	}
	// Every subscription of the channel has returned from Unsubscribe. What is
	// buffered right now was delivered before; this goroutine is the only receiver.
	for k := len(cs.ch); k > 0; k-- {
		take(<-cs.ch, evRecv)
	}
	// Anything that still arrives was delivered after Unsubscribe returned.
	for {
		select {
		case v := <-cs.ch:
			take(v, evGhost)
		case <-h.stop:
			for {
				select {
				case v := <-cs.ch:
					take(v, evGhost)
				default:
					return
				}
			}
		}
	}
}

func (h *harness) sender(id int) {
	sp := &h.sc.Senders[id]
	l := h.newLog()
	y := h.yielder("send", id)
	if sp.StartAt > 0 {
		h.gate.wait(sp.StartAt)
	}
	for j := 0; j < sp.Count; j++ {
		v := uint64(id+1)<<32 | uint64(j+1)
		h.add(l, evSendCall, -1, -1, v, 0)
		if j == 0 {
			close(h.called[id])
		}
		n := h.feed.Send(v)
		h.add(l, evSendRet, -1, -1, v, int32(n))
		for i := 0; i < sp.Yields; i++ {
			runtime.Gosched()
		}
		y.maybe()
	}
	if sp.Count == 0 {
		close(h.called[id])
	}
}

// controller owns the subscriptions of one scripted channel.
func (h *harness) controller(cs *chanState, pre *subscription) {
	defer h.wgCtl.Done()
	l := h.newLog()
	y := h.yielder("ctl", cs.idx)
	spec := cs.spec
	base := 0
	first := pre
	var second *subscription
	if first == nil {
		h.gate.wait(spec.SubAt)
		y.maybe()
		base = h.gate.cur()
		first = h.subscribe(cs, l)
		cs.first = first
		close(cs.ready)
		if spec.Twin {
			y.maybe()
			second = h.subscribe(cs, l)
		}
	}
	var probes []*subscription
	cancel := func() {
		if spec.Double {
			var wg sync.WaitGroup
			wg.Add(1)
			l2 := h.newLog()
			go func() {
				defer wg.Done()
				h.unsubscribe(first, l2)
			}()
			h.unsubscribe(first, l)
			wg.Wait()
		} else {
			h.unsubscribe(first, l)
		}
	}
	switch spec.Unsub {
	case "gate":
		h.gate.wait(base + spec.UnsubAt)
		y.maybe()
		cancel()
	case "blocked":
		h.gate.wait(base + spec.StallAfter + spec.Buf + 1 - spec.Early)
		if spec.WaitSender >= 0 {
			<-h.called[spec.WaitSender]
		}
		y.maybe()
		for i := range spec.Probes {
			p := &spec.Probes[i]
			ps := &subSpec{Name: fmt.Sprintf("%s.probe%d", spec.Name, i), Buf: p.Buf, Mode: "fast", Unsub: "end", WaitSender: -1}
			pcs := h.newChan(ps, 1)
			h.wgRecv.Add(1)
			go h.receiver(pcs)
			s := h.subscribe(pcs, l)
			if p.Immediate {
				h.unsubscribe(s, l)
			} else {
				probes = append(probes, s)
			}
			y.maybe()
		}
		cancel()
	}
	<-h.allSent
	// whatever is still subscribed goes now; a repeated Unsubscribe is allowed
	if spec.Unsub == "end" || spec.Unsub == "self" {
		cancel()
	}
	if second != nil {
		h.unsubscribe(second, l)
	}
	for _, s := range probes {
		h.unsubscribe(s, l)
	}
}

func (h *harness) closer() {
	defer h.wgCtl.Done()
	l := h.newLog()
	if h.sc.ScopeCloseAt > 0 {
		h.gate.wait(h.sc.ScopeCloseAt)
	} else {
		<-h.allSent
	}
	h.add(l, evCloseCall, -1, -1, 0, 0)
	h.scope.Close()
	h.add(l, evCloseRet, -1, -1, 0, 0)
	h.mu.Lock()
	tr := append([]*subscription{}, h.tracked...)
	h.mu.Unlock()
	for _, s := range tr {
		s.markDone()
	}
}

// play runs the script against a fresh feed. It returns the recorded history,
// or dump != "" if the goroutines stopped making progress.
func play(sc *script, stall time.Duration) (hist *history, st *stuck) {
	h := &harness{sc: sc, allSent: make(chan struct{}), stop: make(chan struct{})}
	prev := runtime.GOMAXPROCS(sc.Procs)
	defer runtime.GOMAXPROCS(prev)
	main := h.newLog()

	h.called = make([]chan struct{}, len(sc.Senders))
	for i := range h.called {
		h.called[i] = make(chan struct{})
	}
	// channels of the script, in script order (channel 0 = canary)
	type startInfo struct {
		cs  *chanState
		pre *subscription
	}
	var starts []startInfo
	for i := range sc.Subs {
		spec := &sc.Subs[i]
		n := int32(1)
		if spec.Twin {
			n = 2
		}
		cs := h.newChan(spec, n)
		cs.canary = i == 0
		starts = append(starts, startInfo{cs: cs})
	}
	// subscriptions that exist before the first send
	for i := range starts {
		cs := starts[i].cs
		if cs.spec.SubAt == 0 && !cs.spec.Twin {
			s := h.subscribe(cs, main)
			cs.first = s
			close(cs.ready)
			starts[i].pre = s
		}
	}
	for i := range starts {
		h.wgRecv.Add(1)
		go h.receiver(starts[i].cs)
		h.wgCtl.Add(1)
		go h.controller(starts[i].cs, starts[i].pre)
	}
	h.wgCtl.Add(1)
	go h.closer()
	for i := range sc.Senders {
		wg := &h.wgSend0
		if sc.Senders[i].StartAt > 0 {
			wg = &h.wgSendG
		}
		wg.Add(1)
		go func(i int, wg *sync.WaitGroup) {
			defer wg.Done()
			h.sender(i)
		}(i, wg)
	}
	done := make(chan struct{})
	go func() {
		h.wgSend0.Wait()
		h.gate.release()
		h.wgSendG.Wait()
		close(h.allSent)
		h.wgCtl.Wait()
		close(h.stop)
		h.wgRecv.Wait()
		close(done)
	}()

	// progress watchdog: fires only if the stamp counter stands still
	last, lastChange := atomic.LoadUint64(&h.seq), time.Now()
	rearmed := 0
	tick := time.NewTicker(100 * time.Millisecond)
	defer tick.Stop()
wait:
	for {
		select {
		case <-done:
			break wait
		case <-tick.C:
			cur := atomic.LoadUint64(&h.seq)
			if cur != last {
				last, lastChange = cur, time.Now()
			} else if time.Since(lastChange) > stall {
				buf := make([]byte, 4<<20)
				buf = buf[:runtime.Stack(buf, true)]
				st := &stuck{dump: string(buf)}
				st.deadlock, st.where, st.workers, st.notParked = analyseDump(st.dump)
				if st.deadlock {
					// every goroutine of the case is parked: the state is frozen and
					// can be read (sends in flight have ret = never)
					return h.history(true), st
				}
				// something can still run (a loaded machine): keep waiting, give up
				// after a while
				if rearmed++; rearmed <= 90 {
					lastChange = time.Now()
					continue
				}
				return nil, st
			}
		}
	}
	return h.history(false), nil
}

// stuck describes a case whose stamp counter stood still.
type stuck struct {
	dump      string
	deadlock  bool
	where     string
	workers   int
	notParked []string
}

const never = math.MaxUint64

func (h *harness) history(frozen bool) *history {
	hist := &history{}
	h.mu.Lock()
	defer h.mu.Unlock()
	nsubs := atomic.LoadInt32(&h.nsubs)
	logs := make([][]ev, len(h.logs))
	for i, l := range h.logs {
		l.mu.Lock()
		logs[i] = append([]ev{}, l.evs...)
		l.mu.Unlock()
	}
	if frozen {
		// Values sitting in channel buffers were delivered but not taken out by
		// the (parked) receivers. Take what is there now; keep only values whose
		// send.call is part of the snapshot above, since taking values out may let
		// parked senders run again.
		known := map[uint64]bool{}
		for _, evs := range logs {
			for _, e := range evs {
				if e.kind == evSendCall {
					known[e.val] = true
				}
			}
		}
		var extra []ev
		for _, cs := range h.chans {
			for k := len(cs.ch); k > 0; k-- {
				select {
				case v := <-cs.ch:
					if known[v] {
						extra = append(extra, ev{seq: h.stamp(), kind: evRecv, sub: -1, ch: int32(cs.idx), val: v})
					}
				default:
				}
			}
		}
		logs = append(logs, extra)
	}
	hist.chans = make([]hChan, len(h.chans))
	for i, cs := range h.chans {
		hist.chans[i] = hChan{name: cs.spec.Name, buf: cs.spec.Buf}
	}
	hist.subs = make([]hSub, nsubs)
	for i := range hist.subs {
		hist.subs[i] = hSub{ch: -1, subCall: never, subRet: never, unsubCall: never, unsubRet: never}
	}
	tracked := map[int32]bool{}
	var closeCall, closeRet uint64 = never, never
	sends := map[uint64]*hSend{}
	var order []uint64
	for _, evs := range logs {
		for _, e := range evs {
			switch e.kind {
			case evSubCall:
				hist.subs[e.sub].ch = int(e.ch)
				hist.subs[e.sub].subCall = e.seq
			case evSubRet:
				hist.subs[e.sub].subRet = e.seq
			case evUnsubCall:
				if e.seq < hist.subs[e.sub].unsubCall {
					hist.subs[e.sub].unsubCall = e.seq
				}
			case evUnsubRet:
				if e.seq < hist.subs[e.sub].unsubRet {
					hist.subs[e.sub].unsubRet = e.seq
				}
			case evTracked:
				tracked[e.sub] = true
			case evTrackNil:
				hist.trackNil++
			case evCloseCall:
				closeCall = e.seq
			case evCloseRet:
				closeRet = e.seq
			case evSendCall:
				sends[e.val] = &hSend{val: e.val, call: e.seq, ret: never}
				order = append(order, e.val)
			case evRecv, evGhost:
				hist.chans[e.ch].recvs = append(hist.chans[e.ch].recvs, hRecv{val: e.val, seq: e.seq, ghost: e.kind == evGhost})
			}
		}
	}
	for _, evs := range logs {
		for _, e := range evs {
			if e.kind == evSendRet {
				sends[e.val].ret = e.seq
				sends[e.val].n = int(e.n)
			}
		}
	}
	// a subscription the scope tracked is unsubscribed by Close at the latest
	for k := range tracked {
		s := &hist.subs[k]
		if closeCall < s.unsubCall {
			s.unsubCall = closeCall
			hist.cancelledByClose++
		}
		if closeRet < s.unsubRet {
			s.unsubRet = closeRet
		}
	}
	// receptions of one channel come from one goroutine's log: already in order
	for c := range hist.chans {
		r := hist.chans[c].recvs
		sort.SliceStable(r, func(a, b int) bool { return r[a].seq < r[b].seq })
	}
	sort.Slice(order, func(a, b int) bool { return sends[order[a]].call < sends[order[b]].call })
	for _, v := range order {
		hist.sends = append(hist.sends, *sends[v])
	}
	return hist
}

// ---------------------------------------------------------------------------
// Goroutine dump analysis: a deadlock is a state in which every goroutine of the
// case is parked on a channel operation or a lock (nothing runnable, sleeping or
// in a timer can wake them), with at least one of them inside the event package.

var reGoroutine = regexp.MustCompile(`^goroutine \d+ \[([^\],]+)`)

var parkedStates = map[string]bool{
	"chan receive": true, "chan send": true, "select": true, "semacquire": true,
	"sync.Mutex.Lock": true, "sync.RWMutex.Lock": true, "sync.RWMutex.RLock": true,
	"sync.Cond.Wait": true, "sync.WaitGroup.Wait": true, "select (no cases)": true,
	"chan receive (nil chan)": true, "chan send (nil chan)": true,
}

func analyseDump(dump string) (deadlock bool, where string, workers int, notParked []string) {
	in := map[string]bool{}
	for _, blk := range strings.Split(dump, "\n\n") {
		if !strings.Contains(blk, "verif/internal/prop/c19.") {
			continue
		}
		m := reGoroutine.FindStringSubmatch(blk)
		if m == nil {
			continue
		}
		// the goroutine that runs the case (and takes this dump) is not a worker
		if strings.Contains(blk, "c19.play(") {
			continue
		}
		workers++
		if !parkedStates[m[1]] {
			notParked = append(notParked, m[1])
			continue
		}
		// innermost event-package function only, so that the signature names
		// where goroutines are stuck and not through which wrapper they came
		for _, ln := range strings.Split(blk, "\n") {
			if i := strings.Index(ln, "aqua/event."); i >= 0 {
				f := ln[i+len("aqua/event."):]
				if j := strings.LastIndex(f, "("); j > 0 {
					f = f[:j]
				}
				in[strings.NewReplacer("(*", "", ")", "").Replace(f)] = true
				break
			}
		}
	}
	var fs []string
	for f := range in {
		fs = append(fs, f)
	}
	sort.Strings(fs)
	where = strings.Join(fs, "+")
	return workers > 0 && len(notParked) == 0 && len(fs) > 0, where, workers, notParked
}
