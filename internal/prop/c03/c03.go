// Package c03: the canonical index describes exactly the chain that ends at the head.
//
// Monitor ("chaininv"): generated block trees carrying transactions (including the
// same transaction mined on two branches, branches that are shorter but heavier
// than the one they replace, exact ties, uncles) are fed to a real core.BlockChain
// through generated histories of InsertChain / SetHead (family A, leg "full") and
// InsertHeaderChain / SetHead (family B, leg "hdr"). After EVERY node call the
// node is at rest and the whole invariant is evaluated through exported accessors
// only: number->hash for every height up to the head and for every height above it
// up to the greatest height ever seen + 2, header/body/receipts/TD of every
// canonical block up to the block head against the harness ledger, and
// GetTxLookupEntry / GetTransaction / GetReceipt for EVERY transaction of the tree.
//
// Leg "hdrx" additionally uses InsertReceiptChain and Rollback, which are outside
// the property's quantifier; deviations there are recorded as observation classes
// ("outside_quantifier:...") and never as violations.
package c03

import (
	"fmt"
	"time"

	"gitlab.com/aquachain/aquachain/common"
	"gitlab.com/aquachain/aquachain/common/log"
	"gitlab.com/aquachain/aquachain/core"
	"gitlab.com/aquachain/aquachain/core/types"
	"verif/internal/fw"
)

func init() {
	fw.Register(&fw.Prop{
		ID:    "C03",
		Title: "The canonical index describes exactly the chain that ends at the head",
		Level: "exploration",
		Rule: "a case is one history of 8-34 operations (InsertChain of a whole / partial / already known branch segment in one or several calls, SetHead to absolute heights, fork points, head-k, 0 and above the head; " +
			"header-first legs: InsertHeaderChain instead of InsertChain) on a fresh node over a PRNG block tree of 10-120 blocks with 0-4 transactions per block, 1-5 side branches that re-mine the " +
			"transactions of the branch they leave, optionally one branch of fast blocks that is 1-3 blocks SHORTER but heavier than the main branch plus continuations that flip the order twice, exact ties and uncles; " +
			"three chain configs (all hard forks at 1..7; header versions 2->3->4; Byzantium at 12), archive and pruning cache modes. Every history starts with a forced template (shorter-heavier reorg then rewind; " +
			"duplicate-transaction reorg; rewind below a fork point then the other branch) followed by PRNG operations. The full invariant is evaluated after every node call. " +
			"A history is non-trivial when the head moved to a lower height at least once (reorg to a shorter branch or rewind) and at least one reorg happened; distinct = hash of (tree spec, tree label, op list).",
		Legs: func(tier string) []fw.Leg {
			env := []string{"ALERTS_WARN=0", "ALERTS_INFO=0"}
			// generous watchdogs only (firing = inconclusive): the sizes are counts
			to := 30 * time.Minute
			if tier == "thorough" {
				to = 3 * time.Hour
			}
			return []fw.Leg{
				{Name: "full", Variant: "plain", Batches: 16, Env: env, Timeout: to},
				{Name: "hdr", Variant: "plain", Batches: 8, Env: env, Timeout: to},
				{Name: "hdrx", Variant: "plain", Batches: 4, Env: env, Timeout: to},
			}
		},
		Run: run,
		Gate: func(tier string) map[string]int {
			return map[string]int{
				// family A
				"invariant_checks": 1000, "reorg": 100, "reorg_to_lower_height": 30, "rewind": 100, "rewind_after_reorg": 50,
				"reimport_after_rewind": 30, "dup_tx_moved_by_head_change": 100, "heights_above_head_probed": 5000,
				"heights_up_to_head_compared": 20000, "canonical_blocks_retrieved": 20000, "tx_lookups_compared": 50000,
				"lookup_of_canonical_confirmed": 20000, "lookup_absent_for_noncanonical_confirmed": 20000,
				"insert_of_known_blocks": 20, "rewind_noop": 5, "history_with_shorter_heavier_reorg": 10,
				"history_with_rewind_after_reorg": 10, "history_with_dup_tx_reorg": 10,
				// family B
				"hdr_invariant_checks": 500, "hdr_reorg": 50, "hdr_reorg_to_lower_height": 15, "hdr_rewind": 50, "hdr_rewind_after_reorg": 20,
				"hdr_heights_above_head_probed": 2000, "hdr_heights_up_to_head_compared": 10000, "hdr_history_with_shorter_heavier_reorg": 5,
				// family B with receipts / rollback (observations only)
				"hdrx_receipt_chain_inserted": 10, "hdrx_rollback": 5, "hdrx_history_with_dup_tx_reorg": 1,
			}
		},
		AnchorFiles: []string{"/core/blockchain.go", "/core/headerchain.go", "/core/database_util.go"},
		Assumptions: []string{
			"'at rest' = after a call of InsertChain / InsertHeaderChain / SetHead has returned and before the next one starts; the harness issues calls sequentially from one goroutine",
			"'the head' is read from the node (CurrentBlock in the full-import family, CurrentHeader in the header-first family); which block becomes head is not judged here",
			"the ancestor at each height, the total difficulty (sum of difficulties), the receipts and the position of every transaction come from the harness ledger recorded when the tree was generated, not from the node's database",
			"full-import and header-first operations are never mixed on one node (HeaderChain.WriteHeader documents that mixing is unsupported); chains stay <= 125 blocks so that no state is garbage-collected and SetHead never falls back to genesis for lack of state",
			"header-first family: a transaction of a canonical header whose body the node was never given is allowed to be unresolvable; a lookup that does resolve must point at the canonical block and position",
			"InsertReceiptChain and Rollback are not among the operations the property quantifies over: leg hdrx evaluates the same oracle but reports deviations as observation classes, never as violations",
			"a deviation that stays in the database is reported once, for the operation after which it was first seen",
		},
	})
}

// op is one step of a history. Everything is resolved against the node only at
// run time (first unknown block of the branch, head-relative rewind target), so
// the list itself is a pure function of the seed.
type op struct {
	K     string `json:"k"`               // insert | sethead | rinsert | rollback
	Br    int    `json:"br,omitempty"`    // branch index
	Upto  int    `json:"upto,omitempty"`  // insert the branch up to this height (0 = its tip)
	All   bool   `json:"all,omitempty"`   // start at genesis even if a prefix is known
	Split int    `json:"split,omitempty"` // blocks per call (0 = one call)
	N     uint64 `json:"n,omitempty"`     // sethead: absolute target
	Rel   int    `json:"rel,omitempty"`   // sethead: head-Rel (when > 0); rollback: number of blocks
}

type history struct {
	Family string   `json:"family"` // full | hdr | hdrx
	Tree   treeSpec `json:"tree"`
	Label  string   `json:"tree_label"` // PRNG label the tree is generated from
	Cache  string   `json:"cache"`      // archive | pruning
	Tmpl   string   `json:"template"`
	Ops    []op     `json:"ops"`
}

func run(c *fw.Ctx) {
	log.Root().SetHandler(log.DiscardHandler())
	var nTrees, perTree int
	switch c.Leg {
	case "full":
		nTrees, perTree = c.Pick(4, 120), 3
	case "hdr":
		nTrees, perTree = c.Pick(3, 80), 3
	case "hdrx":
		nTrees, perTree = c.Pick(3, 40), 2
	}
	for ti := 0; ti < nTrees; ti++ {
		label := fmt.Sprintf("tree-%d", ti)
		kind := ti % 4
		if c.Leg == "hdrx" {
			kind = ti % 2 // shorter-heavier trees and duplicate-transaction trees only
		}
		spec := genSpec(c.Rand(label, "spec"), kind, c.Thorough(), ti)
		var u *universe
		for hi := 0; hi < perTree; hi++ {
			r := c.Rand(label, "hist", fmt.Sprint(hi))
			// the op generator needs the branch layout: build the tree first (outside
			// the case: generation is the harness's own code; a failure there is a
			// broken harness, not a property violation)
			if u == nil {
				u = buildUniverse(c.Rand(label, "tree"), spec)
				if spec.SH && !u.SHHeavier {
					c.Count("harness_sh_branch_not_heavier_on_ledger")
				}
			}
			h := history{Family: c.Leg, Tree: spec, Label: label, Cache: []string{"archive", "pruning"}[(ti+hi)%2]}
			h.Tmpl, h.Ops = genOps(r, u, spec, kind, hi, c.Leg)
			id := fmt.Sprintf("%s-%d-%d", c.Leg, ti, hi)
			c.Case(id, h, func() { runHistory(c, u, h, id) })
		}
	}
}

// genSpec draws a tree spec. kind: 0 shorter-heavier, 1 duplicate transactions
// across forks, 2 small bushy tree, 3 anything.
func genSpec(r *fw.Rand, kind int, thorough bool, ti int) treeSpec {
	cfgs := []string{"test", "prebyz", "versions"}
	s := treeSpec{MaxTx: r.Range(1, 4), Reuse: true}
	switch kind {
	case 0:
		s.Cfg = cfgs[r.Intn(2)] // the difficulty rule of "versions" does not let a shorter branch win within 120 blocks
		// (depth, blocks shorter): measured margins for a strictly heavier branch
		type ds struct{ d, short int }
		opts := []ds{{26, 1}, {28, 1}, {36, 2}}
		if thorough {
			opts = append(opts, ds{48, 3}, ds{60, 3}, ds{40, 2})
		}
		o := opts[r.Intn(len(opts))]
		s.SH, s.SHDepth, s.SHShort, s.Extend = true, o.d, o.short, true
		s.Main = o.d + r.Range(1, 6)
		s.Forks, s.MaxForkLen = r.Range(0, 2), 4
		s.Uncles = r.Chance(1, 3)
		if thorough && r.Chance(1, 6) {
			s.Main = r.Range(90, 108)
		}
	case 1:
		s.Cfg = cfgs[r.Intn(3)]
		s.Main = r.Range(10, 24)
		s.Forks, s.MaxForkLen = r.Range(2, 4), 8
		s.MaxTx = r.Range(2, 4)
		s.Tie = r.Chance(1, 4)
		s.Uncles = r.Chance(1, 3)
	case 2:
		s.Cfg = cfgs[r.Intn(3)]
		s.Main = r.Range(8, 16)
		s.Forks, s.MaxForkLen = r.Range(3, 5), 6
		s.Tie = r.Chance(1, 2)
		s.Uncles = r.Chance(1, 2)
	default:
		s.Cfg = cfgs[r.Intn(3)]
		s.Main = r.Range(12, 40)
		if thorough && r.Chance(1, 4) {
			s.Main = r.Range(60, 110)
		}
		s.Forks, s.MaxForkLen = r.Range(1, 4), 10
		s.Tie = r.Chance(1, 4)
		s.Uncles = r.Chance(1, 3)
		s.Reuse = r.Chance(3, 4)
	}
	return s
}

// genOps builds the forced template for the tree kind followed by PRNG ops.
func genOps(r *fw.Rand, u *universe, s treeSpec, kind, hi int, leg string) (string, []op) {
	var ops []op
	tmpl := "random"
	ins := func(br int, upto int, split int) op { return op{K: "insert", Br: br, Upto: upto, Split: split} }
	splitOf := func() int {
		switch r.Intn(4) {
		case 0:
			return 1
		case 1:
			return r.Range(2, 7)
		}
		return 0
	}
	forkAts := []uint64{}
	for _, b := range u.Br[1:] {
		forkAts = append(forkAts, b.ForkAt)
	}
	randOp := func() op {
		switch x := r.Intn(100); {
		case x < 55:
			br := r.Intn(len(u.Br))
			o := ins(br, 0, splitOf())
			if r.Chance(1, 2) {
				lo := int(u.Br[br].ForkAt) + 1
				o.Upto = r.Range(lo, len(u.Br[br].Path))
			}
			o.All = r.Chance(1, 5)
			return o
		case x < 62 && leg == "hdrx":
			return op{K: "rollback", Rel: r.Range(1, 4)}
		case x < 75 && leg == "hdrx":
			return op{K: "rinsert", Br: r.Intn(len(u.Br)), Upto: 0, Split: splitOf()}
		default:
			o := op{K: "sethead"}
			switch y := r.Intn(10); {
			case y < 4:
				o.Rel = r.Range(1, 6)
			case y < 6 && len(forkAts) > 0:
				f := int(forkAts[r.Intn(len(forkAts))]) + r.Range(-2, 1)
				if f < 0 {
					f = 0
				}
				o.N = uint64(f)
			case y < 7:
				o.N = 0
			case y < 8:
				o.N = u.MaxH + uint64(r.Range(0, 3)) // at or above anything the node can have
			default:
				o.N = uint64(r.Range(0, int(u.MaxH)))
			}
			return o
		}
	}
	bi := u.branchByName
	rcpt := func(br int) {
		if leg == "hdrx" {
			ops = append(ops, op{K: "rinsert", Br: br, Split: splitOf()})
		}
	}
	switch {
	case kind == 0 && hi == 0 && bi("sh") >= 0:
		// main, then the shorter heavier branch, rewind a little, the branch again,
		// main continued (heavier again, higher), rewind below the fork point, the
		// continued shorter branch
		tmpl = "shorter_heavier_then_rewind"
		sh := u.Br[bi("sh")]
		ops = append(ops, ins(0, 0, splitOf()))
		rcpt(0)
		ops = append(ops, ins(bi("sh"), 0, splitOf()))
		rcpt(bi("sh"))
		ops = append(ops, op{K: "sethead", Rel: r.Range(1, 4)}, ins(bi("sh"), 0, 0))
		if bi("mainx") >= 0 {
			ops = append(ops, ins(bi("mainx"), 0, splitOf()))
			rcpt(bi("mainx"))
		}
		below := int(sh.ForkAt) - r.Range(0, 3)
		if below < 0 {
			below = 0
		}
		ops = append(ops, op{K: "sethead", N: uint64(below)})
		if bi("shx") >= 0 {
			ops = append(ops, ins(bi("shx"), 0, splitOf()))
		}
	case kind == 0 && hi == 1 && bi("sh") >= 0:
		// the shorter branch arrives piecewise while main is partly known; both get
		// continued so the head drops in height twice
		tmpl = "shorter_heavier_piecewise"
		sh := u.Br[bi("sh")]
		ops = append(ops, ins(0, int(sh.ForkAt)+r.Range(1, 5), 0), ins(bi("sh"), int(sh.ForkAt)+r.Range(1, 8), splitOf()), ins(0, 0, 0), ins(bi("sh"), 0, splitOf()))
		rcpt(bi("sh"))
		if bi("mainx") >= 0 {
			ops = append(ops, ins(bi("mainx"), 0, 0), ins(bi("shx"), 0, 1))
		}
		ops = append(ops, op{K: "sethead", Rel: r.Range(1, 5)}, ins(0, 0, 0))
	case kind == 1 || kind == 2:
		// part of main past a fork point, the fork that re-mines main's
		// transactions, the rest of main, rewind below the fork point, the fork again
		tmpl = "dup_tx_reorg_then_rewind_below_fork"
		f := 0
		if len(u.Br) > 1 {
			f = 1 + (hi % (len(u.Br) - 1))
		}
		fb := u.Br[f]
		ops = append(ops, ins(0, int(fb.ForkAt)+r.Range(1, 4), splitOf()))
		rcpt(0)
		ops = append(ops, ins(f, 0, splitOf()))
		rcpt(f)
		ops = append(ops, ins(0, 0, splitOf()))
		rcpt(0)
		below := int(fb.ForkAt) - r.Range(0, 2)
		if below < 0 {
			below = 0
		}
		ops = append(ops, op{K: "sethead", N: uint64(below)}, ins(f, 0, 0), ins(0, 0, 0), op{K: "sethead", Rel: 1}, op{K: "sethead", N: u.MaxH + 1})
	}
	n := r.Range(8, 20)
	for i := 0; i < n; i++ {
		ops = append(ops, randOp())
	}
	// always end on a known-segment re-insert and a final rewind + re-import so the
	// closing state went through every kind of call
	ops = append(ops, op{K: "insert", Br: 0, All: true}, op{K: "sethead", Rel: 2}, op{K: "insert", Br: r.Intn(len(u.Br))})
	return tmpl, ops
}

func runHistory(c *fw.Ctx, u *universe, h history, id string) {
	db, _ := u.W.NewDB()
	var cache *core.CacheConfig
	if h.Cache == "archive" {
		cache = &core.CacheConfig{Disabled: true}
	}
	bc, err := u.W.NewChain(db, cache)
	if err != nil {
		panic(err)
	}
	defer bc.Stop()
	headerFirst := h.Family != "full"
	pfx := map[string]string{"full": "", "hdr": "hdr_", "hdrx": "hdrx_"}[h.Family]
	k := newChecker(c, u, bc, db, headerFirst, h.Family != "hdrx", pfx)
	k.check("NewBlockChain", false)

	known := func(b *types.Block) bool {
		if headerFirst {
			return bc.HasHeader(b.Hash(), b.NumberU64())
		}
		return bc.HasBlockAndState(b.Hash(), b.NumberU64())
	}
	headNum := func() uint64 {
		if headerFirst {
			return bc.CurrentHeader().Number.Uint64()
		}
		return bc.CurrentBlock().NumberU64()
	}
	for oi, o := range h.Ops {
		if k.indexCorrupt {
			c.CountN(pfx+"ops_skipped_after_index_deviation", len(h.Ops)-oi)
			break
		}
		switch o.K {
		case "insert":
			path := u.Br[o.Br].Path
			hi := len(path)
			if o.Upto > 0 && o.Upto < hi {
				hi = o.Upto
			}
			lo := 0
			if !o.All {
				for lo < hi && known(path[lo]) {
					lo++
				}
			}
			if lo == hi {
				// everything known: hand over the last blocks again
				lo = hi - 2
				if lo < 0 {
					lo = 0
				}
				c.Count("insert_of_known_blocks")
			} else if o.All && known(path[0]) {
				c.Count("insert_of_known_blocks")
			}
			step := o.Split
			if step <= 0 {
				step = hi - lo
			}
			if min := (hi - lo + 7) / 8; step < min {
				step = min // at most 8 calls (and 8 full evaluations of the invariant) per op
			}
			for a := lo; a < hi && !k.indexCorrupt; a += step {
				b := a + step
				if b > hi {
					b = hi
				}
				seg := path[a:b]
				if uint64(b) > k.maxSeen {
					k.maxSeen = uint64(b)
				}
				var err error
				if headerFirst {
					hs := make([]*types.Header, len(seg))
					for i := range seg {
						hs[i] = seg[i].Header()
					}
					_, err = bc.InsertHeaderChain(hs, 1)
					if err != nil {
						c.Count(pfx + "insert_error")
					}
					k.check("InsertHeaderChain", false)
				} else {
					_, err = bc.InsertChain(types.Blocks(seg))
					if err != nil {
						c.Count("insert_error")
						c.Note("op %d InsertChain error: %v", oi, err)
					}
					k.check("InsertChain", false)
				}
				if err != nil {
					break
				}
			}
		case "sethead":
			n := o.N
			if o.Rel > 0 {
				hn := headNum()
				if uint64(o.Rel) > hn {
					n = 0
				} else {
					n = hn - uint64(o.Rel)
				}
			}
			if err := bc.SetHead(n); err != nil {
				c.Count(pfx + "sethead_error")
			}
			k.check("SetHead", true)
		case "rinsert":
			// bodies + receipts for the part of the branch that is canonical by
			// header and has no body yet (what the downloader asks for)
			path := u.Br[o.Br].Path
			var seg types.Blocks
			var rcs []types.Receipts
			for _, b := range path {
				if core.GetCanonicalHash(db, b.NumberU64()) != b.Hash() {
					if len(seg) > 0 {
						break
					}
					continue
				}
				if bc.HasBlock(b.Hash(), b.NumberU64()) {
					if len(seg) > 0 {
						break
					}
					continue
				}
				seg = append(seg, b)
				rcs = append(rcs, copyReceipts(u.T.ByHash[b.Hash()].Receipts))
			}
			if len(seg) == 0 {
				c.Count("hdrx_receipt_chain_nothing_to_insert")
				continue
			}
			step := o.Split
			if step <= 0 {
				step = len(seg)
			}
			for a := 0; a < len(seg); a += step {
				b := a + step
				if b > len(seg) {
					b = len(seg)
				}
				if _, err := bc.InsertReceiptChain(seg[a:b], rcs[a:b]); err != nil {
					c.Count("hdrx_receipt_chain_error")
					break
				}
				c.Count("hdrx_receipt_chain_inserted")
				k.check("InsertReceiptChain", false)
			}
		case "rollback":
			hn := headNum()
			var hashes []common.Hash
			for i := o.Rel - 1; i >= 0; i-- {
				if uint64(i) < hn {
					hashes = append(hashes, core.GetCanonicalHash(db, hn-uint64(i)))
				}
			}
			if len(hashes) == 0 {
				continue
			}
			bc.Rollback(hashes)
			c.Count("hdrx_rollback")
			k.check("Rollback", true)
		}
	}
	if k.sawLower {
		c.Count(pfx + "history_with_shorter_heavier_reorg")
	}
	if k.sawRewindAfterReorg {
		c.Count(pfx + "history_with_rewind_after_reorg")
	}
	if k.sawDupMove && k.sawReorg {
		c.Count(pfx + "history_with_dup_tx_reorg")
	}
	if (k.sawLower || k.sawRewind) && k.sawReorg {
		c.Nontrivial(fmt.Sprintf("%v|%s|%v", h.Tree, h.Label+"/"+c.Leg+"/"+fmt.Sprint(c.Batch), h.Ops))
	}
	if c.WantSample() && k.sawLower && k.sawRewindAfterReorg {
		c.Sample(map[string]interface{}{"case": id, "family": h.Family, "tree": h.Tree, "template": h.Tmpl, "blocks_in_tree": len(u.T.Order),
			"branches": len(u.Br), "transactions": len(u.TxOrder), "transactions_on_two_branches": u.DupTx, "ops": len(h.Ops), "first_ops": h.Ops[:min(8, len(h.Ops))],
			"deviations_first_seen": k.nDeviations})
	}
}
