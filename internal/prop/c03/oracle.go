package c03

import (
	"fmt"

	"gitlab.com/aquachain/aquachain/aquadb"
	"gitlab.com/aquachain/aquachain/common"
	"gitlab.com/aquachain/aquachain/core"
	"gitlab.com/aquachain/aquachain/core/types"
	"verif/internal/fw"
)

// checker is the chain-index invariant monitor ("chaininv"). After every node
// call it reads the head from the live chain, derives from the harness ledger
// (parent links, total difficulties, receipts and transaction positions recorded
// when the tree was generated) what the canonical index, the per-block data and
// every transaction lookup must look like for exactly that head, and compares
// through the exported accessors of the chain and its database.
//
// It never predicts WHICH block is the head (fork choice is another property);
// it decides whether the index describes exactly the chain that ends there.
type checker struct {
	c  *fw.Ctx
	u  *universe
	bc *core.BlockChain
	db aquadb.Database
	// headerFirst: the head of the index clause is the header head; the block
	// head (genesis, nothing is ever executed) bounds the retrievability clause.
	headerFirst bool
	// strict: a deviation is a violation. False for histories that use operations
	// outside the property's quantifier (InsertReceiptChain, Rollback): there a
	// deviation is recorded as an observation class only.
	strict bool
	prefix string // counter prefix of the family

	maxSeen   uint64 // greatest height ever handed to the node
	prevHead  common.Hash
	prevNum   uint64
	prevCanon map[common.Hash]txPos // canonical position of every transaction at the previous check
	reported  map[string]bool       // deviations already reported in this history (they persist in the database)
	rewound   map[common.Hash]bool  // blocks that were canonical and were removed by a rewind

	// history-level observations
	sawReorg, sawLower, sawRewind, sawRewindAfterReorg, sawDupMove, sawReimport bool
	nDeviations                                                                 int
	indexCorrupt                                                                bool
}

func newChecker(c *fw.Ctx, u *universe, bc *core.BlockChain, db aquadb.Database, headerFirst, strict bool, prefix string) *checker {
	return &checker{c: c, u: u, bc: bc, db: db, headerFirst: headerFirst, strict: strict, prefix: prefix,
		prevHead: u.T.Genesis.Hash(), prevCanon: map[common.Hash]txPos{}, reported: map[string]bool{}, rewound: map[common.Hash]bool{}}
}

func (k *checker) pfx() string { return k.prefix }

// index records that the number->hash table itself is wrong. The node's own
// logic reads that table (BlockChain.insert decides from it whether to move the
// header head, HeaderChain.SetHead starts from the header head), so everything a
// history does afterwards may be a consequence of this one defect: the runner
// stops the history after the check that saw it.
func (k *checker) index(op string) {
	if !k.indexCorrupt {
		k.indexCorrupt = true
		k.c.Count(k.pfx() + "history_stopped_after_index_deviation")
	}
}

// deviate reports one deviation once per history. item identifies the database
// fact (height / transaction + what was observed), so that a stale entry that
// simply stays in the database is attributed to the operation that left it
// there and not to every later operation.
func (k *checker) deviate(clause, op, cause, item, detail string) {
	key := clause + "|" + item
	if k.reported[key] {
		k.c.Count("persisting_deviation_not_rereported")
		return
	}
	k.reported[key] = true
	k.nDeviations++
	if k.strict {
		k.c.Violate(clause, op, cause, detail)
		return
	}
	k.c.Count("outside_quantifier:" + clause + "|" + op + "|" + cause)
	if k.c.WantSample() {
		k.c.Sample(map[string]interface{}{"observation_outside_quantifier": clause + "|" + op + "|" + cause, "detail": detail})
	}
}

func short(h common.Hash) string { return fmt.Sprintf("%x", h[:6]) }

// check runs the whole invariant. op is the node call that just returned
// ("InsertChain", "SetHead", "InsertHeaderChain", ...), isRewind says whether it
// was a rewinding call.
func (k *checker) check(op string, isRewind bool) {
	c, u, bc, db := k.c, k.u, k.bc, k.db
	c.Count(k.pfx() + "invariant_checks")

	// --- the head ---------------------------------------------------------
	var headHash common.Hash
	var headNum uint64
	blockHead := bc.CurrentBlock()
	if k.headerFirst {
		hh := bc.CurrentHeader()
		headHash, headNum = hh.Hash(), hh.Number.Uint64()
	} else {
		headHash, headNum = blockHead.Hash(), blockHead.NumberU64()
		if hh := bc.CurrentHeader(); hh.Hash() != headHash {
			c.Count("observation_header_head_differs_from_block_head")
		}
	}
	lhead := u.block(headHash)
	if lhead == nil || lhead.NumberU64() != headNum {
		k.deviate("head_is_not_a_given_block", op, "", "head|"+short(headHash), fmt.Sprintf("head %x (#%d) is not a block of the generated tree", headHash, headNum))
		return
	}
	anc := u.ancestors(lhead)
	blockHeadNum := headNum
	if k.headerFirst {
		blockHeadNum = blockHead.NumberU64()
		if blockHeadNum > headNum || anc[blockHeadNum] != blockHead.Hash() {
			// never happens in header-first histories (nothing is executed); the
			// retrievability clause below would be meaningless
			k.deviate("block_head_not_on_header_chain", op, "", "bh|"+short(blockHead.Hash()), fmt.Sprintf("block head %x (#%d) is not an ancestor of header head %x (#%d)", blockHead.Hash(), blockHeadNum, headHash, headNum))
			blockHeadNum = 0
		}
	}

	// --- how did the head move -------------------------------------------
	prev := u.block(k.prevHead)
	move := "no_head_change"
	switch {
	case headHash == k.prevHead:
	case u.T.IsAncestor(prev, lhead):
		move = "extension"
	case u.T.IsAncestor(lhead, prev):
		move = "head_moved_to_ancestor"
	default:
		move = "reorg"
		if headNum < k.prevNum {
			move = "reorg_to_lower_height"
		}
	}
	ctx := move
	if isRewind {
		ctx = "rewind"
		if headHash == k.prevHead {
			ctx = "rewind_noop"
		}
	}
	switch move {
	case "reorg", "reorg_to_lower_height":
		k.sawReorg = true
		c.Count(k.pfx() + "reorg")
		if move == "reorg_to_lower_height" {
			k.sawLower = true
			c.Count(k.pfx() + "reorg_to_lower_height")
		}
	case "head_moved_to_ancestor":
		if isRewind {
			k.sawRewind = true
			c.Count(k.pfx() + "rewind")
			if k.sawReorg {
				k.sawRewindAfterReorg = true
				c.Count(k.pfx() + "rewind_after_reorg")
			}
			for b := prev; b != nil && b.Hash() != headHash; b = u.parentOf(b) {
				k.rewound[b.Hash()] = true
			}
		}
	case "extension":
		if k.rewound[headHash] {
			k.sawReimport = true
			c.Count(k.pfx() + "reimport_after_rewind")
		}
	}
	if isRewind && headHash == k.prevHead {
		c.Count(k.pfx() + "rewind_noop")
	}

	// --- clause 1: heights up to the head map to the head's ancestors ------
	for n := uint64(0); n <= headNum; n++ {
		c.Count(k.pfx() + "heights_up_to_head_compared")
		got := core.GetCanonicalHash(db, n)
		if got != anc[n] {
			k.index(op)
			if got == (common.Hash{}) {
				k.deviate("number_up_to_head_unmapped", op, ctx, fmt.Sprintf("n|%d|unmapped", n), fmt.Sprintf("head #%d %x: height %d maps to nothing, head's ancestor there is %x", headNum, headHash, n, anc[n]))
			} else {
				k.deviate("number_maps_to_non_ancestor", op, ctx, fmt.Sprintf("n|%d|%s", n, short(got)), fmt.Sprintf("head #%d %x: height %d maps to %x, head's ancestor there is %x", headNum, headHash, n, got, anc[n]))
			}
			continue
		}
		if h := bc.GetHeaderByNumber(n); h == nil {
			if n <= blockHeadNum {
				k.deviate("canonical_block_data_missing", op, "header_by_number", fmt.Sprintf("hbn|%d", n), fmt.Sprintf("GetHeaderByNumber(%d) = nil, canonical hash %x, block head #%d", n, got, blockHeadNum))
			} else {
				c.Count("observation_header_missing_above_block_head")
			}
		} else if !u.sameHeader(h, anc[n]) {
			k.index(op)
			k.deviate("number_maps_to_non_ancestor", op, ctx+"_header_by_number", fmt.Sprintf("hbn|%d", n), fmt.Sprintf("GetHeaderByNumber(%d) has hash %x, head's ancestor there is %x", n, h.Hash(), anc[n]))
		}
		if n <= blockHeadNum {
			if b := bc.GetBlockByNumber(n); b == nil {
				k.deviate("canonical_block_data_missing", op, "block_by_number", fmt.Sprintf("bbn|%d", n), fmt.Sprintf("GetBlockByNumber(%d) = nil, canonical hash %x, block head #%d", n, got, blockHeadNum))
			} else if b.Hash() != anc[n] {
				k.index(op)
				k.deviate("number_maps_to_non_ancestor", op, ctx+"_block_by_number", fmt.Sprintf("bbn|%d|%s", n, short(b.Hash())), fmt.Sprintf("GetBlockByNumber(%d) has hash %x, head's ancestor there is %x", n, b.Hash(), anc[n]))
			}
		}
	}

	// --- clause 2: no greater height maps to anything ---------------------
	top := k.maxSeen
	if u.MaxH > top {
		top = u.MaxH
	}
	for n := headNum + 1; n <= top+2; n++ {
		c.Count(k.pfx() + "heights_above_head_probed")
		got := core.GetCanonicalHash(db, n)
		hb := bc.GetHeaderByNumber(n)
		bb := bc.GetBlockByNumber(n)
		if got != (common.Hash{}) || hb != nil || bb != nil {
			k.index(op)
			k.deviate("number_above_head_maps", op, ctx, fmt.Sprintf("above|%d|%s", n, short(got)),
				fmt.Sprintf("head is #%d %x (was #%d %x before this call) but height %d still maps: GetCanonicalHash=%x GetHeaderByNumber!=nil:%v GetBlockByNumber!=nil:%v",
					headNum, headHash, k.prevNum, k.prevHead, n, got, hb != nil, bb != nil))
		}
	}

	// --- clause 3: data of every canonical block up to the block head ------
	for n := uint64(0); n <= blockHeadNum; n++ {
		hash := anc[n]
		c.Count(k.pfx() + "canonical_blocks_retrieved")
		lb := u.block(hash)
		if h := bc.GetHeader(hash, n); h == nil {
			k.deviate("canonical_block_data_missing", op, "header", fmt.Sprintf("h|%s", short(hash)), fmt.Sprintf("GetHeader(%x, %d) = nil for a canonical block, block head #%d", hash, n, blockHeadNum))
		} else if !u.sameHeader(h, hash) {
			k.deviate("canonical_block_data_wrong", op, "header", fmt.Sprintf("h|%s", short(hash)), fmt.Sprintf("GetHeader(%x, %d) returns a header hashing to %x", hash, n, h.Hash()))
		}
		if body := bc.GetBody(hash); body == nil {
			k.deviate("canonical_block_data_missing", op, "body", fmt.Sprintf("b|%s", short(hash)), fmt.Sprintf("GetBody(%x) = nil for canonical block #%d, block head #%d", hash, n, blockHeadNum))
		} else {
			ok := len(body.Transactions) == len(lb.Transactions()) && len(body.Uncles) == len(lb.Uncles())
			for i := 0; ok && i < len(body.Transactions); i++ {
				ok = body.Transactions[i].Hash() == lb.Transactions()[i].Hash()
			}
			if !ok {
				k.deviate("canonical_block_data_wrong", op, "body", fmt.Sprintf("b|%s", short(hash)), fmt.Sprintf("GetBody(%x) (#%d) differs from the block that was given: %d txs / %d uncles, given %d / %d", hash, n, len(body.Transactions), len(body.Uncles), len(lb.Transactions()), len(lb.Uncles())))
			}
		}
		if rs := bc.GetReceiptsByHash(hash); rs == nil {
			k.deviate("canonical_block_data_missing", op, "receipts", fmt.Sprintf("r|%s", short(hash)), fmt.Sprintf("GetReceiptsByHash(%x) = nil for canonical block #%d, block head #%d", hash, n, blockHeadNum))
		} else if n > 0 {
			want := u.T.ByHash[hash].Receipts
			ok := len(rs) == len(want)
			for i := 0; ok && i < len(rs); i++ {
				// (a pre-Byzantium receipt carries the post-state root and no status)
				ok = rs[i].CumulativeGasUsed == want[i].CumulativeGasUsed && string(rs[i].PostState) == string(want[i].PostState) &&
					(len(want[i].PostState) > 0 || rs[i].Status == want[i].Status) &&
					rs[i].Bloom == want[i].Bloom && len(rs[i].Logs) == len(want[i].Logs) && rs[i].TxHash == lb.Transactions()[i].Hash()
			}
			if !ok {
				k.deviate("canonical_block_data_wrong", op, "receipts", fmt.Sprintf("r|%s", short(hash)), fmt.Sprintf("GetReceiptsByHash(%x) (#%d): %d receipts differing from the %d receipts the block's builder produced", hash, n, len(rs), len(want)))
			}
		}
		if td := bc.GetTd(hash, n); td == nil {
			k.deviate("canonical_block_data_missing", op, "td", fmt.Sprintf("t|%s", short(hash)), fmt.Sprintf("GetTd(%x, %d) = nil for a canonical block, block head #%d", hash, n, blockHeadNum))
		} else if td.Cmp(u.T.TD[hash]) != 0 {
			k.deviate("canonical_block_data_wrong", op, "td", fmt.Sprintf("t|%s", short(hash)), fmt.Sprintf("GetTd(%x, %d) = %v, sum of difficulties along the chain = %v", hash, n, td, u.T.TD[hash]))
		}
	}

	// --- clause 4: transaction lookups -------------------------------------
	canon := map[common.Hash]txPos{}
	for _, h := range u.TxOrder {
		c.Count(k.pfx() + "tx_lookups_compared")
		var pos *txPos
		for i := range u.TxAt[h] {
			p := &u.TxAt[h][i]
			if p.Num <= headNum && anc[p.Num] == p.Block {
				pos = p
				break
			}
		}
		// must: contained in a canonical block whose body the node holds as part
		// of its chain (<= block head). may: canonical by the header chain only.
		must := pos != nil && pos.Num <= blockHeadNum
		if pos != nil {
			canon[h] = *pos
		}
		was, wasCanon := k.prevCanon[h]
		hist := "added"
		if wasCanon && pos != nil {
			if was.Block == pos.Block {
				hist = "kept"
			} else {
				hist = "moved"
				if !k.sawDupMove {
					k.sawDupMove = true
				}
				c.Count(k.pfx() + "dup_tx_moved_by_head_change")
			}
		}
		why := "written_for_noncanonical_block"
		if wasCanon {
			why = "after_reorg"
			if isRewind {
				why = "after_rewind"
			}
		}
		eh, en, ei := core.GetTxLookupEntry(db, h)
		tx, th, tn, ti := core.GetTransaction(db, h)
		rc, rh, rn, ri := core.GetReceipt(db, h)
		type obs struct {
			name     string
			resolved bool
			bh       common.Hash
			bn, idx  uint64
			selfOK   bool
		}
		all := []obs{
			{"entry", eh != (common.Hash{}), eh, en, ei, true},
			{"transaction", tx != nil, th, tn, ti, tx == nil || tx.Hash() == h},
			{"receipt", rc != nil, rh, rn, ri, rc == nil || rc.TxHash == h},
		}
		// The database fact behind all three accessors is the lookup entry: a
		// deviation is keyed by (transaction, block the entry points at), so an
		// entry that is left behind is reported once - for the call after which it
		// was first seen, with one cause per accessor that resolves through it at
		// that moment - and not again when a later call merely changes what else
		// is stored under the block it points at.
		fact := fmt.Sprintf("%s|%s|%d", short(h), short(eh), ei)
		for _, o := range all {
			switch {
			case pos == nil && o.resolved:
				k.deviate("lookup_resolves_for_noncanonical_tx", op, o.name+"_"+why, "x|"+fact+"|"+o.name,
					fmt.Sprintf("head #%d %x: transaction %x is in no canonical block (mined at %v) but core.%s resolves it to block %x #%d index %d", headNum, headHash, h, posList(u.TxAt[h]), accessor(o.name), o.bh, o.bn, o.idx))
			case pos == nil:
				c.Count(k.pfx() + "lookup_absent_for_noncanonical_confirmed")
			case !o.resolved && must:
				k.deviate("lookup_missing_for_canonical_tx", op, o.name+"_"+hist, "m|"+fact+"|"+short(pos.Block)+"|"+o.name,
					fmt.Sprintf("head #%d %x: transaction %x is in canonical block %x #%d index %d but core.%s does not resolve it (lookup entry points at %x #%d index %d)", headNum, headHash, h, pos.Block, pos.Num, pos.Idx, accessor(o.name), eh, en, ei))
			case !o.resolved:
				c.Count("observation_lookup_absent_above_block_head")
			case o.bh != pos.Block || o.bn != pos.Num || o.idx != pos.Idx || !o.selfOK:
				k.deviate("lookup_points_to_wrong_position", op, o.name+"_"+hist, "w|"+fact+"|"+short(pos.Block)+"|"+o.name,
					fmt.Sprintf("head #%d %x: transaction %x is in canonical block %x #%d index %d but core.%s gives block %x #%d index %d (own hash ok: %v)", headNum, headHash, h, pos.Block, pos.Num, pos.Idx, accessor(o.name), o.bh, o.bn, o.idx, o.selfOK))
			default:
				c.Count(k.pfx() + "lookup_of_canonical_confirmed")
			}
		}
		// an entry left behind for a non-canonical transaction: whatever resolves
		// through it later is the same fact
		if pos == nil && eh != (common.Hash{}) {
			for _, n := range []string{"entry", "transaction", "receipt"} {
				k.reported["lookup_resolves_for_noncanonical_tx|x|"+fact+"|"+n] = true
			}
		}
	}
	k.prevCanon = canon
	k.prevHead, k.prevNum = headHash, headNum
}

func accessor(n string) string {
	switch n {
	case "entry":
		return "GetTxLookupEntry"
	case "transaction":
		return "GetTransaction"
	}
	return "GetReceipt"
}

func posList(ps []txPos) string {
	s := ""
	for i, p := range ps {
		if i > 0 {
			s += ", "
		}
		s += fmt.Sprintf("%x#%d[%d]", p.Block[:4], p.Num, p.Idx)
	}
	return s
}

// copyReceipts makes receipts the node may fill in (InsertReceiptChain derives
// fields in place) without touching the ledger's copy.
func copyReceipts(rs types.Receipts) types.Receipts {
	out := make(types.Receipts, len(rs))
	for i, r := range rs {
		cp := *r
		cp.Logs = make([]*types.Log, len(r.Logs))
		for j, l := range r.Logs {
			lc := *l
			cp.Logs[j] = &lc
		}
		out[i] = &cp
	}
	return out
}
