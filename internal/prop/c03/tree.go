package c03

import (
	"bytes"
	"fmt"
	"math/big"

	"gitlab.com/aquachain/aquachain/common"
	"gitlab.com/aquachain/aquachain/core/types"
	"gitlab.com/aquachain/aquachain/params"
	"gitlab.com/aquachain/aquachain/rlp"
	"verif/internal/fw"
	"verif/internal/gen"
)

// treeSpec describes a generated block tree. It is part of the logged case
// input: the tree is a pure function of (spec, PRNG labels of the case).
type treeSpec struct {
	Cfg        string `json:"cfg"`   // test | versions | prebyz
	Main       int    `json:"main"`  // blocks on the first branch
	MaxTx      int    `json:"maxtx"` // transactions per block: 0..MaxTx
	Uncles     bool   `json:"uncles,omitempty"`
	Forks      int    `json:"forks,omitempty"`      // side branches off the main branch
	MaxForkLen int    `json:"maxforklen,omitempty"` // maximum length of a side branch
	Reuse      bool   `json:"reuse,omitempty"`      // side branches re-mine transactions of the branch they leave
	// SH: one side branch of fast blocks that ends SHShort blocks BELOW the main
	// tip and (checked on the ledger) carries more total difficulty.
	SH      bool `json:"sh,omitempty"`
	SHDepth int  `json:"shdepth,omitempty"` // the branch leaves the main branch this many blocks below its tip
	SHShort int  `json:"shshort,omitempty"`
	// Extend: after SH, the main branch is continued until it is heavier than
	// the SH tip again ("mainx"), then the SH branch is continued with fast
	// blocks until it is heavier than that ("shx").
	Extend bool `json:"extend,omitempty"`
	Tie    bool `json:"tie,omitempty"` // two children of the main tip with equal total difficulty
}

func configOf(name string) *params.ChainConfig {
	switch name {
	case "versions":
		return gen.ConfigVersions()
	case "prebyz":
		return gen.ConfigPreByzantium()
	}
	return gen.ConfigTest()
}

type branch struct {
	Name   string
	Tip    *types.Block
	ForkAt uint64 // height of the last block shared with the branch it left
	Path   []*types.Block
}

type txPos struct {
	Block common.Hash
	Num   uint64
	Idx   uint64
}

// universe is the harness's ledger of one tree: every block, every branch, every
// transaction with all the places it was mined at.
type universe struct {
	W       *gen.World
	T       *gen.Tree
	Br      []*branch
	MaxH    uint64
	TxOrder []common.Hash
	TxAt    map[common.Hash][]txPos
	DupTx   int                    // transactions mined in more than one block
	HdrRLP  map[common.Hash][]byte // RLP of every header as generated
	// SHHeavier: the ledger confirms TD(sh tip) > TD(main tip) with a lower height.
	SHHeavier bool
}

func (u *universe) branchByName(n string) int {
	for i, b := range u.Br {
		if b.Name == n {
			return i
		}
	}
	return -1
}

// parentOf returns the ledger parent (nil above genesis).
func (u *universe) parentOf(b *types.Block) *types.Block { return u.T.Parent(b) }

func (u *universe) block(h common.Hash) *types.Block {
	if h == u.T.Genesis.Hash() {
		return u.T.Genesis
	}
	if b, ok := u.T.ByHash[h]; ok {
		return b.Block
	}
	return nil
}

// ancestors returns hash-by-height of the chain ending at tip, from the ledger's
// parent links only.
func (u *universe) ancestors(tip *types.Block) []common.Hash {
	out := make([]common.Hash, tip.NumberU64()+1)
	for b := tip; b != nil; b = u.parentOf(b) {
		out[b.NumberU64()] = b.Hash()
		if b.NumberU64() == 0 {
			break
		}
	}
	return out
}

// sameHeader compares a header returned by the node with the generated header
// of the block `want`, field by field through its RLP plus the version byte (the
// header hash is a function of exactly these; comparing them avoids one
// argon2id evaluation per retrieved header).
func (u *universe) sameHeader(h *types.Header, want common.Hash) bool {
	enc, err := rlp.EncodeToBytes(h)
	if err != nil {
		return false
	}
	w := u.block(want)
	return w != nil && bytes.Equal(enc, u.HdrRLP[want]) && h.Version == w.Version()
}

func buildUniverse(r *fw.Rand, s treeSpec) *universe {
	w := gen.NewWorld(r, configOf(s.Cfg), 6)
	t := gen.NewTree(w)
	u := &universe{W: w, T: t, TxAt: map[common.Hash][]txPos{}}

	plan := func(parent *types.Block, fast bool, reuse []*gen.TxMeta) gen.BlockPlan {
		p := gen.BlockPlan{Kinds: gen.RandomKinds(r, r.Intn(s.MaxTx+1)), Coinbase: w.Coinbases[r.Intn(len(w.Coinbases))], Reuse: reuse}
		if fast {
			p.TimeOffset = -200
		} else if !s.SH && r.Chance(1, 5) {
			// (trees with a shorter-heavier branch keep the main branch at the base
			// difficulty so the measured margins hold for every seed)
			p.TimeOffset = int64(-r.Range(1, 230))
		} else if r.Chance(1, 8) {
			p.TimeOffset = int64(r.Range(1, 500))
		}
		if r.Chance(1, 5) {
			p.Extra = r.Bytes(r.Range(1, 32))
		}
		if s.Uncles && r.Chance(1, 2) {
			if c := t.UncleCandidates(parent); len(c) > 0 {
				p.Uncles = c[:1]
			}
		}
		return p
	}
	var main []*gen.Built
	parent := t.Genesis
	for i := 0; i < s.Main; i++ {
		if s.Uncles && i > 0 && r.Chance(1, 5) {
			t.Add(r, t.Parent(parent), gen.BlockPlan{Coinbase: w.Coinbases[0], Extra: []byte{0x55, byte(i)}})
		}
		b := t.Add(r, parent, plan(parent, false, nil))
		main = append(main, b)
		parent = b.Block
	}
	mainAt := func(h int) *types.Block { // block of the main branch at height h
		if h <= 0 {
			return t.Genesis
		}
		return main[h-1].Block
	}
	reusePool := func(h int, max int) []*gen.TxMeta {
		if !s.Reuse {
			return nil
		}
		var out []*gen.TxMeta
		for i := h; i < len(main) && len(out) < max; i++ {
			out = append(out, main[i].Txs...)
		}
		return out
	}
	grow := func(name string, from *types.Block, forkAt uint64, n int, fast bool, pool []*gen.TxMeta) *branch {
		p := from
		for i := 0; i < n; i++ {
			var reuse []*gen.TxMeta
			if len(pool) > 0 {
				k := r.Range(0, len(pool))
				if k > 6 {
					k = 6
				}
				reuse, pool = pool[:k], pool[k:]
			}
			b := t.Add(r, p, plan(p, fast, reuse))
			p = b.Block
		}
		br := &branch{Name: name, Tip: p, ForkAt: forkAt}
		u.Br = append(u.Br, br)
		return br
	}
	u.Br = append(u.Br, &branch{Name: "main", Tip: mainAt(s.Main)})
	for f := 0; f < s.Forks; f++ {
		h := r.Intn(s.Main)
		n := r.Range(1, s.MaxForkLen)
		fast := r.Chance(1, 2)
		br := grow(fmt.Sprintf("fork%d", f), mainAt(h), uint64(h), n, fast, reusePool(h, 14))
		// sometimes a fork of the fork
		if n >= 2 && r.Chance(1, 3) {
			path := t.Path(br.Tip)
			at := path[len(path)-1-r.Range(1, n-1)]
			grow(fmt.Sprintf("fork%d.%d", f, 1), at, at.NumberU64(), r.Range(1, s.MaxForkLen), r.Bool(), nil)
		}
	}
	if s.SH && s.Main > s.SHDepth {
		h := s.Main - s.SHDepth
		sh := grow("sh", mainAt(h), uint64(h), s.SHDepth-s.SHShort, true, reusePool(h, 24))
		mainTip := mainAt(s.Main)
		u.SHHeavier = t.TD[sh.Tip.Hash()].Cmp(t.TD[mainTip.Hash()]) > 0 && sh.Tip.NumberU64() < mainTip.NumberU64()
		if s.Extend {
			// main continued until heavier than sh
			p := mainTip
			for i := 0; i < 8 && t.TD[p.Hash()].Cmp(t.TD[sh.Tip.Hash()]) <= 0; i++ {
				b := t.Add(r, p, plan(p, false, nil))
				p = b.Block
			}
			u.Br = append(u.Br, &branch{Name: "mainx", Tip: p, ForkAt: uint64(s.Main)})
			// sh continued until heavier than mainx
			q := sh.Tip
			for i := 0; i < 8 && t.TD[q.Hash()].Cmp(t.TD[p.Hash()]) <= 0; i++ {
				b := t.Add(r, q, plan(q, true, nil))
				q = b.Block
			}
			u.Br = append(u.Br, &branch{Name: "shx", Tip: q, ForkAt: uint64(h)})
		}
	}
	if s.Tie {
		tip := mainAt(s.Main)
		a := t.Add(r, tip, gen.BlockPlan{Coinbase: w.Coinbases[0], Extra: []byte{1}})
		b := t.Add(r, tip, gen.BlockPlan{Coinbase: w.Coinbases[0], Extra: []byte{2}})
		u.Br = append(u.Br, &branch{Name: "tieA", Tip: a.Block, ForkAt: uint64(s.Main)}, &branch{Name: "tieB", Tip: b.Block, ForkAt: uint64(s.Main)})
	}
	for _, br := range u.Br {
		br.Path = t.Path(br.Tip)
		if br.Tip.NumberU64() > u.MaxH {
			u.MaxH = br.Tip.NumberU64()
		}
	}
	for _, b := range t.Order {
		for i, tx := range b.Block.Transactions() {
			h := tx.Hash()
			if _, ok := u.TxAt[h]; !ok {
				u.TxOrder = append(u.TxOrder, h)
			}
			u.TxAt[h] = append(u.TxAt[h], txPos{Block: b.Block.Hash(), Num: b.Block.NumberU64(), Idx: uint64(i)})
		}
	}
	u.HdrRLP = map[common.Hash][]byte{}
	for _, b := range append([]*types.Block{t.Genesis}, t.Blocks()...) {
		enc, err := rlp.EncodeToBytes(b.Header())
		if err != nil {
			panic(err)
		}
		u.HdrRLP[b.Hash()] = enc
	}
	for _, ps := range u.TxAt {
		if len(ps) > 1 {
			u.DupTx++
		}
	}
	return u
}

func tdOf(u *universe, b *types.Block) *big.Int { return u.T.TD[b.Hash()] }
