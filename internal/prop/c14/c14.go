// Package c14: a proof-of-work seal is accepted exactly when it meets the target.
//
// Monitor: internal/ref/refpow evaluates the seal predicate independently (own
// RLP, x/crypto Keccak / argon2id, an ethash light evaluator written from the
// ethash specification, math/big comparator) beside the real consensus engine
// (aquahash.New, never a fake mode) on every generated (header, nonce,
// difficulty, version); every block the real sealer returns is re-checked by
// the real verifier and by the reference; the fork-schedule → version mapping
// and the version-selected header hash are compared at every fork edge of every
// built-in network and through GenerateChain / InsertChain / database read-back.
//
// Legs
//
//	argon     versions 2..4: VerifySeal ≡ reference predicate
//	ethash    version 1 (test-mode DAG sizes, plus one real main-network block at
//	          full size): VerifySeal ≡ reference predicate
//	boundary  version 1 with the final Keccak-256 of hashimoto substituted
//	          (crypto.Keccak256 is a package variable) so that hash == target,
//	          target±1 are reachable: comparator of verifier and sealer
//	seal      Engine.Seal at fork edges of every built-in schedule × thread counts
//	version   GetBlockVersion ≡ reference table; Header/Block hash by version
//	chain     version and hash of every block through the node's own builders,
//	          import and database read-back across the forks
//	uncle     Engine.VerifyUncles (real engine): an uncle's seal is judged with the
//	          version of the uncle's own height, across every fork (uncle.go)
//
// The ethash leg also compares the MINING dataset item by item with the
// reference and repeats that, plus version-1 seals, in grandchildren pinned to
// 3 and 5 CPUs (dag.go).
package c14

import (
	"bytes"
	"context"
	"encoding/binary"
	"encoding/hex"
	"fmt"
	"math/big"
	"os"
	"strings"
	"sync"
	"time"

	"gitlab.com/aquachain/aquachain/aquadb"
	"gitlab.com/aquachain/aquachain/common"
	"gitlab.com/aquachain/aquachain/common/log"
	"gitlab.com/aquachain/aquachain/consensus/aquahash"
	"gitlab.com/aquachain/aquachain/core"
	"gitlab.com/aquachain/aquachain/core/types"
	"gitlab.com/aquachain/aquachain/core/vm"
	"gitlab.com/aquachain/aquachain/crypto"
	"gitlab.com/aquachain/aquachain/params"
	"gitlab.com/aquachain/aquachain/rlp"
	"verif/internal/fw"
	"verif/internal/ref/refpow"
)

func init() {
	fw.Register(&fw.Prop{
		ID:    "C14",
		Title: "A proof-of-work seal is accepted exactly when it meets the target",
		Level: "exploration",
		Rule: "cases are PRNG headers (all 13 seal-free fields random, extra 0..100 bytes, heights below the ethash table end) × nonces (0, 1, 2^63, 2^64-1, byte-order-sensitive, random) × " +
			"difficulties {-1, 0, 1, 2, 3, 2^255, 2^256-1, 2^256, 2^256+1, random small/large/negative} for versions 1..4, plus reference-mined nonces at difficulty 8..400 with nonce±1, " +
			"three one-bit mix-digest changes and a one-bit change of a sealed field; boundary cases substitute the final hash with target-1/target/target+1 for every power-of-two difficulty 2^0..2^257 and random difficulties; " +
			"seal cases run Engine.Seal at fork-1/fork/fork+1 of HF5/HF8/HF9 of every built-in schedule with threads {1,2,4,16,0} and difficulty 1..2^14. " +
			"uncle cases wrap a reference-mined uncle at fork-1..fork-3 (and same-side controls) in a nephew at fork..uncle+6 over an in-memory chain and call VerifyUncles, with nonce neighbours, a mix flip and a nonce valid only under the nephew's algorithm; " +
			"dataset cases compare every item of the miner's test-mode dataset (4 epochs; again with 3 and 5 CPUs through taskset) with the reference. " +
			"A case is non-trivial when the reference predicate evaluated both an accepted and a rejected seal for it (or, for seal cases, when a seal was returned); distinct = header+nonce+difficulty content.",
		Legs: func(tier string) []fw.Leg {
			to := 20 * time.Minute
			if tier == "thorough" {
				to = 4 * time.Hour // generous: the batches are CPU-bound and the machine may be shared
			}
			return []fw.Leg{
				{Name: "argon", Variant: "plain", Batches: 16, Timeout: to},
				{Name: "ethash", Variant: "plain", Batches: 16, Timeout: to},
				{Name: "boundary", Variant: "plain", Batches: 4, Timeout: to},
				{Name: "seal", Variant: "plain", Batches: 16, Timeout: to},
				{Name: "version", Variant: "plain", Batches: 4, Timeout: to},
				{Name: "chain", Variant: "plain", Batches: 2, Timeout: to},
				{Name: "uncle", Variant: "plain", Batches: 4, Timeout: to},
			}
		},
		Run: run,
		Gate: func(tier string) map[string]int {
			return map[string]int{
				"ref_selftest_ok":  6,
				"verify_v2_accept": 500, "verify_v3_accept": 500, "verify_v4_accept": 500, "verify_v1_accept": 300,
				"verify_v2_reject_pow": 500, "verify_v3_reject_pow": 500, "verify_v4_reject_pow": 500, "verify_v1_reject_pow": 300,
				"reject_wrong_mix":           1000,
				"reject_nonpositive_diff":    1000,
				"difficulty_one_accept":      500,
				"mined_by_reference_accept":  500,
				"seal_hash_compared":         5000,
				"header_hash_compared":       2000,
				"miner_hash_compared":        2000,
				"ethash_fullsize_real_block": 1,
				"boundary_hash_eq_target":    300, "boundary_hash_target_plus1": 300, "boundary_hash_target_minus1": 300,
				"boundary_sealer_eq_target": 20,
				"seal_returned_v1":          8, "seal_returned_v2": 20, "seal_returned_v3": 20, "seal_returned_v4": 20,
				"seal_threads_1": 10, "seal_threads_2": 10, "seal_threads_4": 10, "seal_threads_16": 10, "seal_threads_0": 10,
				"seal_at_fork_edge":                  60,
				"seal_threads_changed_midway":        2,
				"version_compared":                   1000,
				"version_fork_edge":                  30,
				"chain_block_version_hash":           100,
				"chain_fork_crossed":                 6,
				"dataset_items_compared":             2048,
				"uncle_across_HF5":                   4,
				"uncle_across_HF8":                   4,
				"uncle_across_HF9":                   4,
				"uncle_same_side_control_accepted":   8,
				"uncle_nephew_version_only_rejected": 8,
				"uncle_invalid_rejected":             50,
				"uncle_substituted_hash_accepted":    3,
			}
		},
		AnchorFiles: []string{"/consensus/aquahash/", "/crypto/hash.go", "/params/hf.go"},
		Assumptions: []string{
			"reference = internal/ref/refpow: own RLP of the header fields, x/crypto legacy Keccak and x/crypto argon2.IDKey(time=1, lanes=1, empty salt, 32 bytes) with 1/16/32 KiB for versions 2/3/4; target = floor(2^256/difficulty); expected mix digest = 32 zero bytes for versions 2..4",
			"the argon2id primitive itself is x/crypto's on both sides (no second implementation is available offline); what is evaluated independently is version selection, parameter choice, input layout (seal-free hash ‖ little-endian nonce), mix check and comparator",
			"seal-free header hash: Keccak-256 of the RLP of the first 13 fields for versions 1, 2 and 4, argon2id-16KiB of it for version 3 — the implementation's pinned behaviour (the property does not fix this algorithm)",
			"version 1: the reference ethash is written from the public specification and self-tested against go-ethereum's hashimoto vector and a real Ethereum main-network block (3311058) at full size; the engine's ModeTest sizes (1 KiB cache, 32 KiB dataset) are taken as given for the generated cases",
			"boundary leg: crypto.Keccak256 (a package variable) is replaced, in a dedicated child process, by a memoising stub that answers only the final 96-byte hashimoto input; everything else is the real code",
			"uncle leg: uncle headers get the difficulty the node's own CalcDifficulty demands (workload construction, not oracle); schedules whose rule demands >= 46,039,386 there (mainnet, testnet, test) are covered only at HF5 and only with the substituted final hash (version-1 uncle, value forced to 0); a refusal by a rule other than the seal is inconclusive, not a verdict",
			"mining dataset: runtime.NumCPU() of the process decides how the generator splits its work; besides the host's count, 3 and 5 CPUs are exercised through /usr/bin/taskset when it exists (otherwise counted as skipped, not gated)",
			"heights are kept below 61,440,000 (end of the ethash epoch table), where VerifySeal refuses every header regardless of version; that refusal is counted as an observation, it is outside the property's quantifier",
		},
	})
}

// ---------------------------------------------------------------------------
// helpers

var two256 = new(big.Int).Lsh(big.NewInt(1), 256)

func hx(b []byte) string { return hex.EncodeToString(b) }

func bigs(s string) *big.Int {
	v, ok := new(big.Int).SetString(s, 10)
	if !ok {
		panic("bad int " + s)
	}
	return v
}

// hdrIn is the JSON form of a header (logged before the case runs).
type hdrIn struct {
	Parent, Uncle, Coinbase, Root, Tx, Receipt string
	Bloom                                      string
	Number                                     string
	GasLimit, GasUsed                          uint64
	Time                                       string
	Extra                                      string
}

func inOf(h *refpow.Header) hdrIn {
	bl := hx(h.Bloom[:])
	if h.Bloom == ([256]byte{}) {
		bl = "zero"
	}
	return hdrIn{hx(h.ParentHash[:]), hx(h.UncleHash[:]), hx(h.Coinbase[:]), hx(h.Root[:]), hx(h.TxHash[:]), hx(h.ReceiptHash[:]),
		bl, h.Number.String(), h.GasLimit, h.GasUsed, h.Time.String(), hx(h.Extra)}
}

func cp(v *big.Int) *big.Int {
	if v == nil {
		return nil
	}
	return new(big.Int).Set(v)
}

func cloneRef(h *refpow.Header) *refpow.Header {
	c := *h
	c.Difficulty, c.Number, c.Time = cp(h.Difficulty), cp(h.Number), cp(h.Time)
	c.Extra = append([]byte(nil), h.Extra...)
	return &c
}

func toReal(h *refpow.Header, version int) *types.Header {
	return &types.Header{
		ParentHash: common.Hash(h.ParentHash), UncleHash: common.Hash(h.UncleHash), Coinbase: common.Address(h.Coinbase),
		Root: common.Hash(h.Root), TxHash: common.Hash(h.TxHash), ReceiptHash: common.Hash(h.ReceiptHash), Bloom: types.Bloom(h.Bloom),
		Difficulty: cp(h.Difficulty), Number: cp(h.Number), GasLimit: h.GasLimit, GasUsed: h.GasUsed, Time: cp(h.Time),
		Extra: append([]byte(nil), h.Extra...), MixDigest: common.Hash(h.MixDigest), Nonce: types.BlockNonce(h.Nonce),
		Version: params.HeaderVersion(version),
	}
}

func fromReal(h *types.Header) *refpow.Header {
	return &refpow.Header{
		ParentHash: h.ParentHash, UncleHash: h.UncleHash, Coinbase: h.Coinbase, Root: h.Root, TxHash: h.TxHash,
		ReceiptHash: h.ReceiptHash, Bloom: h.Bloom, Difficulty: cp(h.Difficulty), Number: cp(h.Number), GasLimit: h.GasLimit,
		GasUsed: h.GasUsed, Time: cp(h.Time), Extra: append([]byte(nil), h.Extra...), MixDigest: h.MixDigest, Nonce: h.Nonce,
	}
}

func setNonce(h *refpow.Header, n uint64) { binary.BigEndian.PutUint64(h.Nonce[:], n) }
func getNonce(h *refpow.Header) uint64    { return binary.BigEndian.Uint64(h.Nonce[:]) }

const heightLimit = 2048 * 30000 // end of the ethash epoch table

func genHeight(r *fw.Rand) *big.Int {
	switch r.Intn(8) {
	case 0:
		return big.NewInt(int64(r.Intn(3)))
	case 1:
		return big.NewInt(int64(r.Range(3, 700)))
	case 2:
		return big.NewInt(int64(22800 + r.Range(-2, 2)))
	case 3:
		return big.NewInt(int64(30000*r.Range(1, 2047) + r.Range(-1, 1)))
	case 4:
		return big.NewInt(heightLimit - 1)
	default:
		return big.NewInt(int64(r.Intn(heightLimit)))
	}
}

func genHeader(r *fw.Rand) *refpow.Header {
	h := &refpow.Header{}
	fill := func(b []byte) {
		switch r.Intn(6) {
		case 0: // zero
		case 1:
			for i := range b {
				b[i] = 0xff
			}
		default:
			copy(b, r.Bytes(len(b)))
		}
	}
	fill(h.ParentHash[:])
	fill(h.UncleHash[:])
	fill(h.Coinbase[:])
	fill(h.Root[:])
	fill(h.TxHash[:])
	fill(h.ReceiptHash[:])
	switch r.Intn(4) {
	case 0:
	case 1:
		for i := 0; i < 6; i++ {
			h.Bloom[r.Intn(256)] |= 1 << uint(r.Intn(8))
		}
	default:
		fill(h.Bloom[:])
	}
	h.Number = genHeight(r)
	pick64 := func() uint64 {
		switch r.Intn(6) {
		case 0:
			return 0
		case 1:
			return uint64(r.Intn(256))
		case 2:
			return ^uint64(0)
		case 3:
			return 1 << 63
		default:
			return r.Uint64() >> uint(r.Intn(64))
		}
	}
	h.GasLimit, h.GasUsed = pick64(), pick64()
	switch r.Intn(5) {
	case 0:
		h.Time = new(big.Int)
	case 1:
		h.Time = new(big.Int).SetBytes(r.Bytes(r.Range(9, 32)))
	default:
		h.Time = big.NewInt(int64(1500000000 + r.Intn(400000000)))
	}
	switch r.Intn(6) {
	case 0:
		h.Extra = nil
	case 1:
		h.Extra = []byte{byte(r.Intn(0x80))} // single byte below 0x80: its own RLP encoding
	case 2:
		h.Extra = []byte{byte(0x80 + r.Intn(0x80))}
	case 3:
		h.Extra = r.Bytes(r.Range(54, 58)) // crosses the 55/56 length-prefix boundary
	case 4:
		h.Extra = r.Bytes(r.Range(33, 100))
	default:
		h.Extra = r.Bytes(r.Range(2, 32))
	}
	h.Difficulty = big.NewInt(1)
	return h
}

func genNonce(r *fw.Rand) uint64 {
	switch r.Intn(8) {
	case 0:
		return 0
	case 1:
		return 1
	case 2:
		return ^uint64(0)
	case 3:
		return 1 << 63
	case 4:
		return 0x0100000000000000 // byte-order sensitive
	case 5:
		return 0x0102030405060708
	default:
		return r.Uint64()
	}
}

var fixedDiffs = []*big.Int{
	big.NewInt(-1), big.NewInt(0), big.NewInt(1), big.NewInt(2), big.NewInt(3),
	new(big.Int).Lsh(big.NewInt(1), 255), new(big.Int).Sub(two256, big.NewInt(1)), two256, new(big.Int).Add(two256, big.NewInt(1)),
}

func genDiffs(r *fw.Rand) []*big.Int {
	ds := make([]*big.Int, 0, 14)
	for _, d := range fixedDiffs {
		ds = append(ds, new(big.Int).Set(d))
	}
	ds = append(ds,
		big.NewInt(int64(r.Range(4, 64))),
		big.NewInt(int64(r.Range(2, 8))),
		new(big.Int).Lsh(big.NewInt(1), uint(r.Range(2, 254))),
		new(big.Int).SetBytes(r.Bytes(r.Range(1, 33))),
		new(big.Int).Neg(new(big.Int).SetBytes(r.Bytes(r.Range(1, 33)))),
	)
	return ds
}

func strs(ds []*big.Int) []string {
	out := make([]string, len(ds))
	for i, d := range ds {
		out[i] = d.String()
	}
	return out
}

// checker compares the real engine with the reference on one sealed header.
type checker struct {
	c      *fw.Ctx
	eng    *aquahash.Aquahash
	sawAcc bool
	sawRej bool
}

func errClass(err error) string {
	if err == nil {
		return "accepted"
	}
	s := err.Error()
	if len(s) > 60 {
		s = s[:60]
	}
	return s
}

// verify runs VerifySeal and the reference on h (version v) and reports any
// disagreement. eth is the reference ethash evaluator for version 1.
func (k *checker) verify(h *refpow.Header, v int, eth *refpow.Ethash, tag string) (got, want bool) {
	c := k.c
	hdr := toReal(h, v)
	err := k.eng.VerifySeal(nil, hdr)
	want, pow, wantMix := refpow.Accept(h, v, eth)
	got = err == nil
	vs := fmt.Sprintf("v%d", v)
	switch {
	case want:
		k.sawAcc = true
		c.Count("verify_" + vs + "_accept")
		if h.Difficulty.Cmp(big.NewInt(1)) == 0 {
			c.Count("difficulty_one_accept")
		}
	case h.Difficulty.Sign() <= 0:
		c.Count("reject_nonpositive_diff")
	case !bytes.Equal(wantMix, h.MixDigest[:]):
		k.sawRej = true
		c.Count("reject_wrong_mix")
	default:
		k.sawRej = true
		c.Count("verify_" + vs + "_reject_pow")
	}
	if got == want {
		return
	}
	detail := fmt.Sprintf("%s: version %d number %v difficulty %v nonce %x mix %x: VerifySeal=%v, reference accept=%v (pow %x, expected mix %x, target %s)",
		tag, v, h.Number, h.Difficulty, h.Nonce, h.MixDigest, err, want, pow, wantMix, targetStr(h.Difficulty))
	if got {
		cause := "hash_above_target"
		if h.Difficulty.Sign() <= 0 {
			cause = "non_positive_difficulty"
		} else if !bytes.Equal(wantMix, h.MixDigest[:]) {
			cause = "wrong_mix_digest"
		}
		c.Violate("invalid_seal_accepted", "VerifySeal/"+vs, cause, detail)
	} else {
		c.Violate("valid_seal_rejected", "VerifySeal/"+vs, errClass(err), detail)
	}
	return
}

func targetStr(d *big.Int) string {
	if d == nil || d.Sign() <= 0 {
		return "n/a"
	}
	return fmt.Sprintf("%x", refpow.Target(d))
}

// hashes compares the three observable hashes of a header with the reference.
func (k *checker) hashes(h *refpow.Header, v int, full bool) {
	c := k.c
	if !h.Hashable() {
		return
	}
	hdr := toReal(h, v)
	vs := fmt.Sprintf("v%d", v)
	got := hdr.HashNoNonce()
	want := h.SealHash(v)
	c.Count("seal_hash_compared")
	if !bytes.Equal(got[:], want) {
		c.Violate("seal_free_hash_differs", "Header.HashNoNonce/"+vs, "", fmt.Sprintf("number %v difficulty %v: HashNoNonce %x, reference %x", h.Number, h.Difficulty, got, want))
	}
	if !full {
		return
	}
	gh := hdr.Hash()
	wh := h.HeaderHash(v)
	c.Count("header_hash_compared")
	if !bytes.Equal(gh[:], wh) {
		c.Violate("header_hash_not_by_version", "Header.Hash/"+vs, "", fmt.Sprintf("number %v: Header.Hash %x, reference %x", h.Number, gh, wh))
	}
	bh := types.NewBlockWithHeader(hdr).Hash()
	if !bytes.Equal(bh[:], wh) {
		c.Violate("header_hash_not_by_version", "Block.Hash/"+vs, "", fmt.Sprintf("number %v: Block.Hash %x, reference %x", h.Number, bh, wh))
	}
	if v >= 2 {
		mh := types.NewBlockWithHeader(hdr).MinerHash()
		wm := refpow.ArgonPow(v, want, getNonce(h))
		c.Count("miner_hash_compared")
		if !bytes.Equal(mh[:], wm) {
			c.Violate("pow_hash_differs", "Block.MinerHash/"+vs, "", fmt.Sprintf("number %v nonce %x: MinerHash %x, reference %x", h.Number, h.Nonce, mh, wm))
		}
	}
}

// mutateField changes one sealed field by one bit / one unit.
func mutateField(r *fw.Rand, h *refpow.Header) string {
	flip := func(b []byte) { b[r.Intn(len(b))] ^= 1 << uint(r.Intn(8)) }
	switch r.Intn(12) {
	case 0:
		flip(h.ParentHash[:])
		return "parent"
	case 1:
		flip(h.UncleHash[:])
		return "uncle"
	case 2:
		flip(h.Coinbase[:])
		return "coinbase"
	case 3:
		flip(h.Root[:])
		return "root"
	case 4:
		flip(h.TxHash[:])
		return "tx"
	case 5:
		flip(h.ReceiptHash[:])
		return "receipt"
	case 6:
		flip(h.Bloom[:])
		return "bloom"
	case 7:
		h.Number = new(big.Int).Add(h.Number, big.NewInt(1))
		if h.Number.Cmp(big.NewInt(heightLimit)) >= 0 {
			h.Number.Sub(h.Number, big.NewInt(2))
		}
		return "number"
	case 8:
		h.GasLimit ^= 1 << uint(r.Intn(64))
		return "gaslimit"
	case 9:
		h.GasUsed ^= 1 << uint(r.Intn(64))
		return "gasused"
	case 10:
		h.Time = new(big.Int).Add(h.Time, big.NewInt(1))
		return "time"
	default:
		if len(h.Extra) == 0 {
			h.Extra = []byte{0}
		} else {
			h.Extra = append([]byte(nil), h.Extra...)
			flip(h.Extra)
		}
		return "extra"
	}
}

// ---------------------------------------------------------------------------

func run(c *fw.Ctx) {
	log.Root().SetHandler(log.DiscardHandler())
	// VerifySeal prints every wrong mix digest to stdout
	if dn, err := os.OpenFile(os.DevNull, os.O_WRONLY, 0); err == nil {
		old := os.Stdout
		os.Stdout = dn
		defer func() { os.Stdout = old; dn.Close() }()
	}
	if !selfTest(c) {
		return
	}
	switch c.Leg {
	case "argon":
		runArgon(c)
	case "ethash":
		runEthash(c)
	case "boundary":
		runBoundary(c)
	case "seal":
		runSeal(c)
	case "version":
		runVersion(c)
	case "chain":
		runChain(c)
	case "uncle":
		runUncle(c)
	default:
		if strings.HasPrefix(c.Leg, cpuLegPrefix) {
			runPinned(c) // grandchild of the ethash leg, started through taskset
		}
	}
}

// selfTest pins the reference to public vectors before it is used as an oracle.
func selfTest(c *fw.Ctx) bool {
	e := refpow.NewEthash(1024, 32*1024, make([]byte, 32))
	sh, _ := hex.DecodeString("c9149cc0386e689d789a1c2f3d5d169a61a6218ed30e74414dc736e442ef3d1f")
	mix, res := e.Hashimoto(sh, 0)
	ok := hx(mix) == "e4073cffaef931d37117cefd9afd27ea0f1cad6a981dd2605c4a1ac97c519800" &&
		hx(res) == "d3539235ee2e6f8db665c0a72169f55b7f6c605712330b778ec3944f0eb5a557"
	// keccak / argon2id known answers: Keccak-256("") and the RLP of the empty uncle list
	ok = ok && hx(refpow.Keccak256(nil)) == "c5d2460186f7233c927e7db2dcc703c0e500b653ca82273b7bfad8045d85a470"
	ok = ok && hx(refpow.Keccak256([]byte{0xc0})) == "1dcc4de8dec75d7aab85b567b6ccd41ad312451b948a7413f0a142fd40d49347"
	ok = ok && refpow.Meets(bytes.Repeat([]byte{0xff}, 32), big.NewInt(1)) && !refpow.Meets(bytes.Repeat([]byte{0xff}, 32), big.NewInt(2))
	if !ok {
		c.Inconclusive("reference_selftest_failed")
		return false
	}
	c.Count("ref_selftest_ok")
	return true
}

func newTestEngine(c *fw.Ctx) *aquahash.Aquahash {
	return aquahash.New(&aquahash.Config{CachesInMem: 2, DatasetsInMem: 1, DatasetsOnDisk: 2, DatasetDir: c.Dir, PowMode: aquahash.ModeTest})
}

// ---------------------------------------------------------------------------
// leg argon: versions 2..4

type verifyIn struct {
	Version int      `json:"version"`
	Header  hdrIn    `json:"header"`
	Nonces  []string `json:"nonces"`
	Diffs   []string `json:"difficulties"`
	Mine    string   `json:"mine_difficulty,omitempty"`
	MineAt  string   `json:"mine_start_nonce,omitempty"`
}

func runArgon(c *fw.Ctx) {
	n := c.Pick(300, 10000)
	engines := []*aquahash.Aquahash{
		aquahash.New(&aquahash.Config{StartVersion: 2}),
		newTestEngine(c),
		aquahash.New(&aquahash.Config{CachesInMem: 1, PowMode: aquahash.ModeNormal, StartVersion: 2}),
	}
	for i := 0; i < n; i++ {
		r := c.Rand("argon", fmt.Sprint(i))
		v := 2 + i%3
		h := genHeader(r)
		nonces := []uint64{genNonce(r), r.Uint64()}
		diffs := genDiffs(r)
		mine := i%4 == 0
		var mineD *big.Int
		var mineAt uint64
		in := verifyIn{Version: v, Header: inOf(h), Diffs: strs(diffs)}
		for _, x := range nonces {
			in.Nonces = append(in.Nonces, fmt.Sprintf("%016x", x))
		}
		if mine {
			mineD, mineAt = big.NewInt(int64(r.Range(8, 400))), r.Uint64()
			in.Mine, in.MineAt = mineD.String(), fmt.Sprintf("%016x", mineAt)
		}
		id := fmt.Sprintf("argon-%d", i)
		c.Case(id, in, func() {
			k := &checker{c: c, eng: engines[(i/3)%len(engines)]}
			for di, d := range diffs {
				h.Difficulty = d
				for ni, x := range nonces {
					setNonce(h, x)
					h.MixDigest = [32]byte{}
					k.verify(h, v, nil, "grid")
					if ni == 0 {
						k.hashes(h, v, di == 2)
					}
				}
			}
			// wrong mix digest on a header that would otherwise be accepted (difficulty 1)
			h.Difficulty = big.NewInt(1)
			setNonce(h, nonces[0])
			h.MixDigest = [32]byte{}
			h.MixDigest[r.Intn(32)] ^= 1 << uint(r.Intn(8))
			if got, _ := k.verify(h, v, nil, "mixflip_d1"); !got {
				c.Count("mixflip_rejected")
			}
			h.MixDigest = [32]byte{}
			if mine {
				h.Difficulty = mineD
				sh := h.SealHash(v)
				found := false
				x := mineAt
				for tries := 0; tries < 200000; tries, x = tries+1, x+1 {
					if refpow.Meets(refpow.ArgonPow(v, sh, x), mineD) {
						found = true
						break
					}
				}
				if found {
					setNonce(h, x)
					if got, want := k.verify(h, v, nil, "mined"); got && want {
						c.Count("mined_by_reference_accept")
					}
					k.hashes(h, v, true)
					for _, dn := range []uint64{x - 1, x + 1} {
						setNonce(h, dn)
						k.verify(h, v, nil, "mined_nonce_neighbour")
					}
					setNonce(h, x)
					for _, bit := range []int{0, 255, r.Intn(256)} {
						h.MixDigest = [32]byte{}
						h.MixDigest[bit/8] ^= 1 << uint(bit%8)
						k.verify(h, v, nil, "mined_mixflip")
					}
					h.MixDigest = [32]byte{}
					h2 := cloneRef(h)
					f := mutateField(r, h2)
					k.verify(h2, v, nil, "mined_field_"+f)
					c.Count("sealed_field_mutations")
				}
			}
			if k.sawAcc && k.sawRej {
				c.Nontrivial(fmt.Sprintf("%d %v %v", v, in.Header, in.Nonces))
			}
			if i < 3 && c.WantSample() {
				sh := h.SealHash(v)
				c.Sample(map[string]interface{}{"case": id, "version": v, "number": h.Number.String(), "nonce": in.Nonces[0],
					"seal_hash": hx(sh), "pow_difficulty1": hx(refpow.ArgonPow(v, sh, getNonce(h))), "difficulties": len(diffs), "mined_at_difficulty": in.Mine})
			}
		})
	}
}

// ---------------------------------------------------------------------------
// leg ethash: version 1

func runEthash(c *fw.Ctx) {
	n := c.Pick(25, 400)
	eng := newTestEngine(c)
	refs := map[uint64]*refpow.Ethash{}
	refFor := func(number *big.Int) *refpow.Ethash {
		ep := number.Uint64() / refpow.EthEpochLength
		if e, ok := refs[ep]; ok {
			return e
		}
		if len(refs) > 64 {
			refs = map[uint64]*refpow.Ethash{}
		}
		e := refpow.NewEthash(1024, 32*1024, refpow.EthSeed(ep))
		refs[ep] = e
		return e
	}
	switch c.Batch {
	case 0:
		fullSizeCase(c)
	case 1:
		datasetCases(c, "own")
		pinnedGrandchild(c, 3)
	case 2:
		pinnedGrandchild(c, 5)
	case 3:
		if c.Thorough() {
			realDatasetCase(c)
		}
	}
	for i := 0; i < n; i++ {
		r := c.Rand("ethash", fmt.Sprint(i))
		h := genHeader(r)
		nonces := []uint64{genNonce(r), r.Uint64()}
		diffs := genDiffs(r)
		mineD, mineAt := big.NewInt(int64(r.Range(4, 48))), r.Uint64()
		in := verifyIn{Version: 1, Header: inOf(h), Diffs: strs(diffs), Mine: mineD.String(), MineAt: fmt.Sprintf("%016x", mineAt)}
		for _, x := range nonces {
			in.Nonces = append(in.Nonces, fmt.Sprintf("%016x", x))
		}
		id := fmt.Sprintf("ethash-%d", i)
		c.Case(id, in, func() {
			k := &checker{c: c, eng: eng}
			eth := refFor(h.Number)
			for di, d := range diffs {
				h.Difficulty = d
				for ni, x := range nonces {
					setNonce(h, x)
					if h.Hashable() && d.Sign() > 0 {
						mix, _ := eth.Hashimoto(h.SealHash(1), x)
						copy(h.MixDigest[:], mix)
					} else {
						h.MixDigest = [32]byte{}
					}
					k.verify(h, 1, eth, "grid")
					if ni == 0 {
						k.hashes(h, 1, di == 2)
					}
				}
			}
			// reference-mined nonce
			h.Difficulty = mineD
			sh := h.SealHash(1)
			x := mineAt
			found := false
			var mix []byte
			for tries := 0; tries < 5000; tries, x = tries+1, x+1 {
				m, res := eth.Hashimoto(sh, x)
				if refpow.Meets(res, mineD) {
					found, mix = true, m
					break
				}
			}
			if found {
				setNonce(h, x)
				copy(h.MixDigest[:], mix)
				if got, want := k.verify(h, 1, eth, "mined"); got && want {
					c.Count("mined_by_reference_accept")
				}
				// monotone in difficulty: the same seal at a lower difficulty changes the
				// seal-free hash, so monotonicity is only meaningful through the reference
				for _, dn := range []uint64{x - 1, x + 1} {
					setNonce(h, dn) // mix digest of x kept: almost surely wrong for the neighbour
					k.verify(h, 1, eth, "mined_nonce_neighbour")
				}
				setNonce(h, x)
				for _, bit := range []int{0, 255, r.Intn(256)} {
					copy(h.MixDigest[:], mix)
					h.MixDigest[bit/8] ^= 1 << uint(bit%8)
					k.verify(h, 1, eth, "mined_mixflip")
				}
				copy(h.MixDigest[:], mix)
				h2 := cloneRef(h)
				f := mutateField(r, h2)
				k.verify(h2, 1, refFor(h2.Number), "mined_field_"+f)
				c.Count("sealed_field_mutations")
			}
			if k.sawAcc && k.sawRej {
				c.Nontrivial(fmt.Sprintf("1 %v %v", in.Header, in.Nonces))
			}
			if i == 0 && c.WantSample() {
				c.Sample(map[string]interface{}{"case": id, "version": 1, "number": h.Number.String(), "epoch": h.Number.Uint64() / 30000,
					"mined_nonce": fmt.Sprintf("%016x", x), "mined_difficulty": mineD.String(), "mix": hx(mix)})
			}
		})
	}
}

// fullSizeCase: a real Ethereum main-network block (epoch 110) through the real
// engine in normal mode (full-size verification cache) and the reference.
func fullSizeCase(c *fw.Ctx) {
	c.Case("ethash-fullsize-3311058", map[string]string{"block": "ethereum main network 3311058"}, func() {
		h := refpow.MainnetHeader()
		eth := refpow.NewEthashEpoch(h.Number.Uint64() / refpow.EthEpochLength)
		if ok, _, _ := refpow.Accept(h, 1, eth); !ok {
			c.Inconclusive("reference_rejects_real_mainnet_block")
			return
		}
		eng := aquahash.New(&aquahash.Config{CachesInMem: 1, PowMode: aquahash.ModeNormal, StartVersion: 1})
		k := &checker{c: c, eng: eng}
		if got, want := k.verify(h, 1, eth, "fullsize"); got && want {
			c.Count("ethash_fullsize_real_block")
		}
		k.hashes(h, 1, true)
		h2 := cloneRef(h)
		setNonce(h2, getNonce(h)+1)
		k.verify(h2, 1, eth, "fullsize_nonce_plus1")
		h3 := cloneRef(h)
		h3.MixDigest[31] ^= 1
		k.verify(h3, 1, eth, "fullsize_mixflip")
		h4 := cloneRef(h)
		h4.GasUsed = 1
		k.verify(h4, 1, eth, "fullsize_field")
		c.Sample(map[string]interface{}{"case": "ethash-fullsize-3311058", "cache_bytes": refpow.EthCacheSize(110), "dataset_bytes": refpow.EthFullSize(110),
			"header_hash": hx(h.HeaderHash(1))})
	})
}

// ---------------------------------------------------------------------------
// leg boundary: hash == target reachable by substituting the final Keccak-256

type stub struct {
	mu    sync.Mutex
	memo  map[string][]byte
	queue [][]byte // outputs handed to inputs not seen before, in order; the last repeats
	calls int      // final-hash evaluations of inputs not seen before
}

func (s *stub) install() (restore func()) {
	orig := crypto.Keccak256
	crypto.Keccak256 = func(data ...[]byte) []byte {
		var in []byte
		for _, d := range data {
			in = append(in, d...)
		}
		if len(in) != 96 {
			return orig(data...)
		}
		s.mu.Lock()
		defer s.mu.Unlock()
		if out, ok := s.memo[string(in)]; ok {
			return append([]byte(nil), out...)
		}
		out := s.queue[0]
		if len(s.queue) > 1 {
			s.queue = s.queue[1:]
		}
		s.calls++
		s.memo[string(in)] = out
		return append([]byte(nil), out...)
	}
	return func() { crypto.Keccak256 = orig }
}

func be32(v *big.Int) []byte {
	b := v.Bytes()
	out := make([]byte, 32)
	copy(out[32-len(b):], b)
	return out
}

type boundaryIn struct {
	Header     hdrIn  `json:"header"`
	Nonce      string `json:"nonce"`
	Difficulty string `json:"difficulty"`
	Hash       string `json:"substituted_hash"`
	Rel        string `json:"relation"`
	MixOK      bool   `json:"mix_ok"`
}

func runBoundary(c *fw.Ctx) {
	eng := newTestEngine(c)
	refs := map[uint64]*refpow.Ethash{}
	refFor := func(number *big.Int) *refpow.Ethash {
		ep := number.Uint64() / refpow.EthEpochLength
		if e, ok := refs[ep]; ok {
			return e
		}
		e := refpow.NewEthash(1024, 32*1024, refpow.EthSeed(ep))
		refs[ep] = e
		return e
	}
	// difficulties
	var diffs []*big.Int
	if c.Batch == 0 {
		for k := 0; k <= 257; k++ {
			diffs = append(diffs, new(big.Int).Lsh(big.NewInt(1), uint(k)))
		}
		for _, s := range []int64{3, 5, 6, 7, 10, 100, 131072, 46039386, 99999999, 100001792} {
			diffs = append(diffs, big.NewInt(s))
		}
		diffs = append(diffs, new(big.Int).Sub(two256, big.NewInt(1)), new(big.Int).Add(two256, big.NewInt(1)), new(big.Int).Add(two256, two256))
	}
	nr := c.Pick(150, 4000)
	rd := c.Rand("boundary-diffs")
	for i := 0; i < nr; i++ {
		d := new(big.Int).SetBytes(rd.Bytes(32))
		d.Rsh(d, uint(rd.Intn(256)))
		if d.Sign() == 0 {
			d.SetInt64(1)
		}
		diffs = append(diffs, d)
	}
	one := big.NewInt(1)
	for i, d := range diffs {
		r := c.Rand("boundary", fmt.Sprint(i))
		h := genHeader(r)
		h.Difficulty = d
		nonce := genNonce(r)
		setNonce(h, nonce)
		t := refpow.Target(d)
		type probe struct {
			rel string
			v   *big.Int
		}
		probes := []probe{{"eq_target", t}, {"target_plus1", new(big.Int).Add(t, one)}, {"target_minus1", new(big.Int).Sub(t, one)},
			{"zero", new(big.Int)}, {"max", new(big.Int).Sub(two256, one)}}
		for pi, p := range probes {
			if p.v.Sign() < 0 || p.v.Cmp(two256) >= 0 {
				continue // not a 32-byte value
			}
			mixOK := !(pi == 0 && i%7 == 3) // now and then a wrong mix with hash == target
			in := boundaryIn{Header: inOf(h), Nonce: fmt.Sprintf("%016x", nonce), Difficulty: d.String(), Hash: hx(be32(p.v)), Rel: p.rel, MixOK: mixOK}
			id := fmt.Sprintf("boundary-%d-%s", i, p.rel)
			c.Case(id, in, func() {
				eth := refFor(h.Number)
				mix, _ := eth.Hashimoto(h.SealHash(1), nonce)
				hh := cloneRef(h)
				copy(hh.MixDigest[:], mix)
				if !mixOK {
					hh.MixDigest[5] ^= 0x10
				}
				st := &stub{memo: map[string][]byte{}, queue: [][]byte{be32(p.v)}}
				restore := st.install()
				err := eng.VerifySeal(nil, toReal(hh, 1))
				restore()
				want := mixOK && refpow.Meets(be32(p.v), d)
				got := err == nil
				if st.calls != 1 {
					c.Inconclusive("substituted_hash_not_consulted_once")
					return
				}
				if mixOK {
					c.Count("boundary_hash_" + p.rel)
				} else {
					c.Count("boundary_wrong_mix_eq_target")
				}
				if got != want {
					if got {
						cause := "hash_" + p.rel
						if !mixOK {
							cause = "wrong_mix_digest"
						}
						c.Violate("invalid_seal_accepted", "VerifySeal/comparator", cause, fmt.Sprintf("difficulty %v target %x hash %x mix_ok %v: accepted", d, t, p.v, mixOK))
					} else {
						c.Violate("valid_seal_rejected", "VerifySeal/comparator", "hash_"+p.rel, fmt.Sprintf("difficulty %v target %x hash %x: %v", d, t, p.v, err))
					}
				}
				if pi == 0 {
					c.Nontrivial("b " + d.String())
				}
				if i == 1 && pi == 0 {
					c.Sample(map[string]interface{}{"case": id, "difficulty": d.String(), "target": fmt.Sprintf("%x", t), "hash": in.Hash, "accepted": got})
				}
			})
		}
	}
	// sealer comparator: the miner must stop at the first hash <= target, and a
	// hash equal to the target is one
	ns := c.Pick(16, 400)
	chain := cfgChain{params.TestChainConfig}
	eng.SetThreads(1)
	for i := 0; i < ns; i++ {
		r := c.Rand("boundary-seal", fmt.Sprint(i))
		h := genHeader(r)
		h.Number = big.NewInt(int64(r.Range(1, 4))) // version 1 under the test schedule
		d := new(big.Int).SetBytes(r.Bytes(r.Range(1, 31)))
		if d.Cmp(big.NewInt(2)) < 0 {
			d.SetInt64(2)
		}
		h.Difficulty = d
		t := refpow.Target(d)
		above := r.Range(0, 5)
		exact := i%2 == 0
		id := fmt.Sprintf("boundary-seal-%d", i)
		in := map[string]interface{}{"header": inOf(h), "difficulty": d.String(), "hashes_above_target_first": above, "then_equal_to_target": exact}
		c.Case(id, in, func() {
			st := &stub{memo: map[string][]byte{}}
			for j := 0; j < above; j++ {
				st.queue = append(st.queue, be32(new(big.Int).Add(t, one)))
			}
			if exact {
				st.queue = append(st.queue, be32(t))
			}
			st.queue = append(st.queue, make([]byte, 32)) // then zero forever: the search always ends
			restore := st.install()
			defer restore()
			blk, err := sealWithWatchdog(c, eng, chain, types.NewBlockWithHeader(toReal(h, 1)), 60*time.Second)
			if blk == nil || err != nil {
				if err != errWatchdog {
					c.Violate("miner_returned_no_seal", "Seal/comparator", "", fmt.Sprintf("difficulty %v: block %v err %v", d, blk, err))
				}
				return
			}
			st.mu.Lock()
			calls := st.calls
			st.mu.Unlock()
			if exact {
				c.Count("boundary_sealer_eq_target")
			} else {
				c.Count("boundary_sealer_below_target")
			}
			if calls != above+1 {
				cause := "continued_past_first_satisfying_hash"
				if calls < above+1 {
					cause = "stopped_at_hash_above_target"
				} else if exact {
					cause = "hash_eq_target_not_taken"
				}
				c.Violate("miner_comparator_differs", "Seal/comparator", cause, fmt.Sprintf("difficulty %v target %x: %d hashes above target then %s; miner evaluated %d hashes", d, t, above, map[bool]string{true: "target", false: "0"}[exact], calls))
			}
			// the returned block under the same (memoised) hash function
			rh := blk.Header()
			verr := eng.VerifySeal(nil, rh)
			ref := fromReal(rh)
			eth := refFor(ref.Number)
			mix, _ := eth.Hashimoto(ref.SealHash(1), getNonce(ref))
			s512 := refpow.Keccak512(refpow.SealInput(ref.SealHash(1), getNonce(ref)))
			st.mu.Lock()
			out, seen := st.memo[string(append(append([]byte{}, s512...), mix...))]
			st.mu.Unlock()
			want := seen && bytes.Equal(mix, ref.MixDigest[:]) && refpow.Meets(out, d)
			if !want {
				c.Violate("mined_seal_fails_reference", "Seal/comparator", map[bool]string{true: "", false: "hash_input_unknown_to_reference"}[seen], fmt.Sprintf("difficulty %v nonce %x mix %x (reference mix %x) hash %x", d, ref.Nonce, ref.MixDigest, mix, out))
			}
			if verr != nil {
				c.Violate("mined_seal_rejected", "Seal/comparator", errClass(verr), fmt.Sprintf("difficulty %v nonce %x: %v", d, ref.Nonce, verr))
			}
			c.Nontrivial("bs " + d.String())
		})
	}
}

// ---------------------------------------------------------------------------
// leg seal

type cfgChain struct{ cfg *params.ChainConfig }

func (c cfgChain) Config() *params.ChainConfig                           { return c.cfg }
func (c cfgChain) GetContext() context.Context                           { return context.Background() }
func (c cfgChain) CurrentHeader() *types.Header                          { return nil }
func (c cfgChain) GetHeader(common.Hash, uint64) *types.Header           { return nil }
func (c cfgChain) GetHeaderByNumber(uint64) *types.Header                { return nil }
func (c cfgChain) GetHeaderByHash(common.Hash) *types.Header             { return nil }
func (c cfgChain) GetBlock(hash common.Hash, number uint64) *types.Block { return nil }

var errWatchdog = fmt.Errorf("watchdog")

func sealWithWatchdog(c *fw.Ctx, eng *aquahash.Aquahash, chain cfgChain, b *types.Block, limit time.Duration) (*types.Block, error) {
	type res struct {
		b   *types.Block
		err error
		p   interface{}
	}
	stop := make(chan struct{})
	done := make(chan res, 1)
	go func() {
		defer func() {
			if p := recover(); p != nil {
				done <- res{p: p}
			}
		}()
		blk, err := eng.Seal(chain, b, stop)
		done <- res{b: blk, err: err}
	}()
	select {
	case r := <-done:
		if r.p != nil {
			panic(r.p)
		}
		return r.b, r.err
	case <-time.After(limit):
		close(stop)
		c.Inconclusive("seal_watchdog")
		return nil, errWatchdog
	}
}

type net struct {
	name string
	cfg  *params.ChainConfig
}

func schedOf(cfg *params.ChainConfig) refpow.Schedule {
	// the schedule is data (a map of fork number → height); read it directly
	return refpow.Schedule{HF5: cfg.HF[5], HF8: cfg.HF[8], HF9: cfg.HF[9]}
}

func withHF(base *params.ChainConfig, hf params.ForkMap) *params.ChainConfig {
	dup := *base
	dup.HF = hf
	return &dup
}

func nets() []net {
	// mainnet with HF8 switched on by the command-line flag (subcommands/aaafuncs.go)
	m8 := params.ForkMap{}
	for k, v := range params.AquachainHF {
		m8[k] = v
	}
	m8[8] = big.NewInt(500000)
	return []net{
		{"mainnet", params.MainnetChainConfig}, {"testnet", params.TestnetChainConfig}, {"testnet2", params.Testnet2ChainConfig},
		{"testnet3", params.Testnet3ChainConfig}, {"dev", params.AllAquahashProtocolChanges}, {"test", params.TestChainConfig},
		{"mainnet+hf8flag", withHF(params.MainnetChainConfig, m8)},
		{"custom-10-20-30", withHF(params.Testnet2ChainConfig, params.ForkMap{5: big.NewInt(10), 8: big.NewInt(20), 9: big.NewInt(30)})},
	}
}

type edge struct {
	net    net
	height int64
	fork   string
}

func forkEdges() []edge {
	var out []edge
	for _, n := range nets() {
		s := schedOf(n.cfg)
		for _, f := range []struct {
			name string
			h    *big.Int
		}{{"HF5", s.HF5}, {"HF8", s.HF8}, {"HF9", s.HF9}} {
			if f.h == nil {
				continue
			}
			for _, dlt := range []int64{-1, 0, 1} {
				if hh := f.h.Int64() + dlt; hh >= 0 {
					out = append(out, edge{n, hh, f.name})
				}
			}
		}
	}
	return out
}

type sealIn struct {
	Net        string `json:"net"`
	Fork       string `json:"fork"`
	Header     hdrIn  `json:"header"`
	Difficulty string `json:"difficulty"`
	Threads    int    `json:"threads"`
	InVersion  string `json:"input_version"`
	Midway     int    `json:"set_threads_midway,omitempty"`
}

func runSeal(c *fw.Ctx) {
	n := c.Pick(10, 150)
	eng := newTestEngine(c)
	edges := forkEdges()
	threads := []int{1, 2, 4, 16, 0}
	dlist := []int64{1, 2, 3, 17, 256, 1000, 4096, 16384}
	refs := map[uint64]*refpow.Ethash{}
	refFor := func(number *big.Int) *refpow.Ethash {
		ep := number.Uint64() / refpow.EthEpochLength
		if e, ok := refs[ep]; ok {
			return e
		}
		e := refpow.NewEthash(1024, 32*1024, refpow.EthSeed(ep))
		refs[ep] = e
		return e
	}
	for i := 0; i < n; i++ {
		g := c.Batch*n + i
		r := c.Rand("seal", fmt.Sprint(i))
		e := edges[g%len(edges)]
		h := genHeader(r)
		atEdge := true
		if i%5 == 4 { // a height away from the edges
			atEdge = false
			h.Number = big.NewInt(int64(r.Intn(200000)))
		} else {
			h.Number = big.NewInt(e.height)
		}
		th := threads[(g/len(edges)+g)%len(threads)]
		d := big.NewInt(dlist[(g/3)%len(dlist)])
		midway := 0
		if i == 1 {
			d, th, midway = big.NewInt(40000), 1, 3
		}
		h.Difficulty = d
		sched := schedOf(e.net.cfg)
		wantV := refpow.Version(sched, h.Number)
		// the version field of the block handed to the sealer: as the node's worker
		// sets it (from the height), or - off-nominal - unset / that of another fork
		inVersion := "by_height"
		switch i % 10 {
		case 6:
			inVersion = "unset"
		case 8:
			inVersion = "other"
		}
		in := sealIn{Net: e.net.name, Fork: e.fork, Header: inOf(h), Difficulty: d.String(), Threads: th, InVersion: inVersion, Midway: midway}
		id := fmt.Sprintf("seal-%d", i)
		c.Case(id, in, func() {
			var hdr *types.Header
			switch inVersion {
			case "unset":
				hdr = toReal(h, 0)
			case "other":
				hdr = toReal(h, wantV%4+1)
			default:
				// the way the node's worker builds the header handed to the sealer
				hdr = toReal(h, int(e.net.cfg.GetBlockVersion(h.Number)))
			}
			nominal := inVersion == "by_height"
			eng.SetThreads(th)
			if midway > 0 {
				var wg sync.WaitGroup
				wg.Add(1)
				defer wg.Wait()
				go func() {
					defer wg.Done()
					time.Sleep(20 * time.Millisecond)
					eng.SetThreads(midway)
				}()
			}
			blk, err := sealWithWatchdog(c, eng, cfgChain{e.net.cfg}, types.NewBlockWithHeader(hdr), 5*time.Minute)
			if err == errWatchdog {
				return
			}
			suffix := ""
			vs := fmt.Sprintf("v%d", wantV)
			// off-nominal input: every failure of the returned seal is one finding
			var offNominal []string
			violate := func(clause, op, cause, detail string) {
				if nominal {
					c.Violate(clause, op, cause, detail)
				} else {
					offNominal = append(offNominal, clause+": "+detail)
				}
			}
			if blk == nil || err != nil {
				c.Violate("miner_returned_no_seal", "Seal/"+vs+suffix, errClass(err), fmt.Sprintf("net %s number %v difficulty %v threads %d: block %v err %v", e.net.name, h.Number, d, th, blk, err))
				return
			}
			c.Count("seal_returned_" + vs)
			c.Count(fmt.Sprintf("seal_threads_%d", th))
			if atEdge {
				c.Count("seal_at_fork_edge")
			}
			if midway > 0 {
				c.Count("seal_threads_changed_midway")
			}
			if !nominal {
				c.Count("seal_input_version_" + inVersion + "_" + vs)
			}
			rh := blk.Header()
			if int(rh.Version) != wantV {
				violate("version_not_by_height", "Seal/"+vs+suffix, "", fmt.Sprintf("net %s number %v: sealed header version %d, schedule says %d", e.net.name, h.Number, rh.Version, wantV))
			}
			// 1. the node's own check on the block as returned
			if verr := eng.VerifySeal(cfgChain{e.net.cfg}, rh); verr != nil {
				violate("mined_seal_rejected", "Seal/"+vs+suffix, errClass(verr), fmt.Sprintf("net %s number %v difficulty %v threads %d nonce %x: VerifySeal of the returned header: %v", e.net.name, h.Number, d, th, rh.Nonce, verr))
			}
			// 2. the node's own check with the version a receiving node derives from the height
			rh2 := blk.Header()
			rh2.Version = e.net.cfg.GetBlockVersion(rh2.Number)
			if verr := eng.VerifySeal(cfgChain{e.net.cfg}, rh2); verr != nil {
				violate("mined_seal_rejected", "Seal/"+vs+suffix+"/version_by_height", errClass(verr), fmt.Sprintf("net %s number %v difficulty %v nonce %x: %v", e.net.name, h.Number, d, rh.Nonce, verr))
			}
			// 3. the reference, on the content of the returned header and the schedule's version
			ref := fromReal(rh)
			var eth *refpow.Ethash
			if wantV == 1 {
				eth = refFor(ref.Number)
			}
			if ok, pow, mix := refpow.Accept(ref, wantV, eth); !ok {
				violate("mined_seal_fails_reference", "Seal/"+vs+suffix, "", fmt.Sprintf("net %s number %v difficulty %v nonce %x mix %x: reference pow %x expected mix %x target %s", e.net.name, h.Number, d, rh.Nonce, rh.MixDigest, pow, mix, targetStr(d)))
			}
			// 4. the sealed block is the block that was handed in
			want := cloneRef(h)
			want.Nonce, want.MixDigest = ref.Nonce, ref.MixDigest
			if !bytes.Equal(want.HeaderHash(wantV), ref.HeaderHash(wantV)) {
				violate("sealed_block_content_changed", "Seal/"+vs+suffix, "", fmt.Sprintf("net %s number %v: header content differs from the input beyond nonce and mix digest", e.net.name, h.Number))
			}
			bh := blk.Hash()
			if !bytes.Equal(bh[:], ref.HeaderHash(wantV)) {
				violate("header_hash_not_by_version", "Seal/"+vs+suffix, "", fmt.Sprintf("net %s number %v: sealed block hash %x, reference %x", e.net.name, h.Number, bh, ref.HeaderHash(wantV)))
			}
			if len(offNominal) > 0 {
				c.Violate("mined_seal_rejected", "Seal", "input_header_version_not_by_height", fmt.Sprintf("block handed to Seal had header version %d (%s) at a version-%d height; the returned seal fails: %v", hdr.Version, inVersion, wantV, offNominal))
			}
			c.Nontrivial(fmt.Sprintf("s %s %v %v %d %x", e.net.name, h.Number, d, th, rh.Nonce))
			if i < 2 && c.WantSample() {
				c.Sample(map[string]interface{}{"case": id, "net": e.net.name, "number": h.Number.String(), "version": wantV, "difficulty": d.String(), "threads": th,
					"nonce": hx(rh.Nonce[:]), "mix": hx(rh.MixDigest[:])})
			}
		})
	}
}

// ---------------------------------------------------------------------------
// leg version

func runVersion(c *fw.Ctx) {
	type vin struct {
		Net    string `json:"net"`
		HF     string `json:"schedule"`
		Height string `json:"height"`
	}
	check := func(id string, n net, h *big.Int, edge bool) {
		c.Case(id, vin{n.name, n.cfg.HF.String(), h.String()}, func() {
			want := refpow.Version(schedOf(n.cfg), h)
			before := new(big.Int).Set(h)
			got := int(n.cfg.GetBlockVersion(h))
			again := int(n.cfg.GetBlockVersion(new(big.Int).Set(before)))
			c.Count("version_compared")
			if edge {
				c.Count("version_fork_edge")
			}
			c.Count(fmt.Sprintf("version_is_%d", want))
			if got != want || again != want {
				c.Violate("version_not_by_height", "GetBlockVersion", fmt.Sprintf("want_v%d_got_v%d", want, got), fmt.Sprintf("net %s schedule [%s] height %v: GetBlockVersion %d (repeat %d), reference %d", n.name, n.cfg.HF.String(), h, got, again, want))
			}
			if h.Cmp(before) != 0 {
				c.Violate("version_not_by_height", "GetBlockVersion", "height_argument_modified", fmt.Sprintf("height %v became %v", before, h))
			}
			c.Nontrivial("v " + n.name + n.cfg.HF.String() + h.String())
		})
	}
	if c.Batch == 0 {
		for i, e := range forkEdges() {
			check(fmt.Sprintf("version-edge-%d", i), e.net, big.NewInt(e.height), true)
		}
		for ni, n := range nets() {
			for hi, h := range []*big.Int{big.NewInt(0), big.NewInt(1), big.NewInt(2), bigs("4294967296"), bigs("9223372036854775807"), bigs("9223372036854775808"),
				bigs("18446744073709551615"), bigs("18446744073709551616"), bigs("18446744073709551621"), bigs("340282366920938463463374607431768211456")} {
				check(fmt.Sprintf("version-fixed-%d-%d", ni, hi), n, h, false)
			}
		}
	}
	if c.Batch == 0 {
		// observation only (outside the quantifier): heights at and beyond the end
		// of the ethash epoch table are refused whatever the version
		c.Case("observe-height-beyond-epoch-table", map[string]string{"height": fmt.Sprint(heightLimit)}, func() {
			eng := aquahash.New(&aquahash.Config{StartVersion: 2})
			h := genHeader(c.Rand("beyond"))
			h.Number = big.NewInt(heightLimit)
			h.Difficulty = big.NewInt(1)
			for v := 2; v <= 4; v++ {
				if err := eng.VerifySeal(nil, toReal(h, v)); err != nil {
					c.Count("observed_height_beyond_epoch_table_refused")
				} else {
					c.Count("observed_height_beyond_epoch_table_accepted")
				}
			}
		})
	}
	// random schedules and heights
	n := c.Pick(400, 30000)
	for i := 0; i < n; i++ {
		r := c.Rand("version", fmt.Sprint(i))
		hf := params.ForkMap{}
		base := int64(0)
		var hs []int64
		for _, k := range []int{5, 8, 9} {
			switch r.Intn(5) {
			case 0: // absent
			case 1:
				hf[k] = big.NewInt(base) // same height as the previous fork
				hs = append(hs, base)
			default:
				base += int64(r.Intn(1000))
				hf[k] = big.NewInt(base)
				hs = append(hs, base)
			}
		}
		if r.Chance(1, 10) { // unordered schedule
			for _, k := range []int{5, 8, 9} {
				if hf[k] != nil {
					hf[k] = big.NewInt(int64(r.Intn(1000)))
					hs = append(hs, hf[k].Int64())
				}
			}
		}
		for _, k := range []int{1, 2, 3, 4, 6, 7} { // forks that must not matter
			if r.Chance(1, 3) {
				hf[k] = big.NewInt(int64(r.Intn(1000)))
			}
		}
		var h *big.Int
		if len(hs) > 0 && r.Chance(3, 4) {
			h = big.NewInt(hs[r.Intn(len(hs))] + int64(r.Range(-1, 1)))
			if h.Sign() < 0 {
				h.SetInt64(0)
			}
		} else {
			h = big.NewInt(int64(r.Intn(3500)))
		}
		nn := net{"random", withHF(params.Testnet2ChainConfig, hf)}
		if r.Chance(1, 20) {
			nn = net{"random-nil-map", withHF(params.Testnet2ChainConfig, nil)}
		}
		check(fmt.Sprintf("version-rand-%d", i), nn, h, false)
	}
	// header and block hashes are computed with the version
	m := c.Pick(80, 5000)
	eng := aquahash.New(&aquahash.Config{StartVersion: 2})
	for i := 0; i < m; i++ {
		r := c.Rand("hashver", fmt.Sprint(i))
		h := genHeader(r)
		h.Difficulty = new(big.Int).SetBytes(r.Bytes(r.Range(0, 9)))
		setNonce(h, genNonce(r))
		copy(h.MixDigest[:], r.Bytes(32))
		id := fmt.Sprintf("hashver-%d", i)
		c.Case(id, map[string]interface{}{"header": inOf(h), "difficulty": h.Difficulty.String(), "nonce": hx(h.Nonce[:]), "mix": hx(h.MixDigest[:])}, func() {
			k := &checker{c: c, eng: eng}
			for v := 1; v <= 4; v++ {
				k.hashes(h, v, true)
				hdr := toReal(h, 0)
				sv := hdr.SetVersion(byte(v))
				if want := h.HeaderHash(v); !bytes.Equal(sv[:], want) || int(hdr.Version) != v {
					c.Violate("header_hash_not_by_version", fmt.Sprintf("Header.SetVersion/v%d", v), "", fmt.Sprintf("SetVersion returned %x (version %d), reference %x", sv, hdr.Version, want))
				}
				b := types.NewBlockWithHeader(toReal(h, 0))
				bv := b.SetVersion(params.HeaderVersion(v))
				if want := h.HeaderHash(v); !bytes.Equal(bv[:], want) || b.Hash() != bv {
					c.Violate("header_hash_not_by_version", fmt.Sprintf("Block.SetVersion/v%d", v), "", fmt.Sprintf("SetVersion returned %x, Hash %x, reference %x", bv, b.Hash(), want))
				}
			}
			c.Nontrivial("hv " + fmt.Sprint(inOf(h)))
		})
	}
}

// ---------------------------------------------------------------------------
// leg chain

func runChain(c *fw.Ctx) {
	type plan struct {
		net net
		n   int
	}
	plans := []plan{
		{net{"test", params.TestChainConfig}, 12},
		{net{"testnet2", params.Testnet2ChainConfig}, 26},
		{net{"custom-3-6-9", withHF(params.Testnet2ChainConfig, params.ForkMap{5: big.NewInt(3), 6: big.NewInt(3), 7: big.NewInt(3), 8: big.NewInt(6), 9: big.NewInt(9)})}, 14},
		{net{"custom-2-2-5", withHF(params.Testnet2ChainConfig, params.ForkMap{5: big.NewInt(2), 6: big.NewInt(2), 7: big.NewInt(2), 8: big.NewInt(2), 9: big.NewInt(5)})}, 9},
	}
	if c.Thorough() {
		plans = append(plans, plan{net{"testnet", params.TestnetChainConfig}, 655})
	}
	reps := c.Pick(2, 8)
	for rep := 0; rep < reps; rep++ {
		for pi, p := range plans {
			if p.n > 100 && rep > 0 {
				continue
			}
			r := c.Rand("chain", fmt.Sprint(rep), fmt.Sprint(pi))
			extra := r.Bytes(r.Range(0, 32))
			id := fmt.Sprintf("chain-%s-%d", p.net.name, rep)
			c.Case(id, map[string]interface{}{"net": p.net.name, "schedule": p.net.cfg.HF.String(), "blocks": p.n, "extra": hx(extra)}, func() {
				chainCase(c, p.net, p.n, extra)
			})
		}
	}
}

func chainCase(c *fw.Ctx, n net, count int, extra []byte) {
	ctx := context.Background()
	cfg := n.cfg
	sched := schedOf(cfg)
	gspec := &core.Genesis{Config: cfg, Difficulty: big.NewInt(131072), GasLimit: 4712388, ExtraData: extra}
	db := aquadb.NewMemDatabase()
	genesis := gspec.MustCommit(db)
	checkBlock := func(where string, b *types.Block) bool {
		hd := b.Header()
		wantV := refpow.Version(sched, hd.Number)
		ref := fromReal(hd)
		want := ref.HeaderHash(wantV)
		got := b.Hash()
		c.Count("chain_block_version_hash")
		ok := true
		if int(b.Version()) != wantV {
			c.Violate("version_not_by_height", where, "", fmt.Sprintf("net %s block %v: version %d, schedule says %d", n.name, hd.Number, b.Version(), wantV))
			ok = false
		}
		if !bytes.Equal(got[:], want) {
			c.Violate("header_hash_not_by_version", where, "", fmt.Sprintf("net %s block %v (version field %d): hash %x, reference with version %d: %x", n.name, hd.Number, b.Version(), got, wantV, want))
			ok = false
		}
		return ok
	}
	checkBlock("Genesis.Commit", genesis)
	blocks, _ := core.GenerateChain(ctx, cfg, genesis, aquahash.NewFaker(), db, count, func(i int, g *core.BlockGen) {
		g.SetExtra(extra)
	})
	prev := genesis
	crossed := 0
	for _, b := range blocks {
		checkBlock("GenerateChain", b)
		ph := prev.Hash()
		if b.ParentHash() != ph {
			c.Violate("header_hash_not_by_version", "GenerateChain", "parent_link", fmt.Sprintf("net %s block %v: parent hash %x, parent's hash %x", n.name, b.Number(), b.ParentHash(), ph))
		}
		if refpow.Version(sched, b.Number()) != refpow.Version(sched, prev.Number()) {
			crossed++
		}
		prev = b
	}
	c.CountN("chain_fork_crossed", crossed)
	// import into a second node from the wire encoding (no version travels)
	db2 := aquadb.NewMemDatabase()
	gspec.MustCommit(db2)
	bc, err := core.NewBlockChain(ctx, db2, nil, cfg, aquahash.NewFaker(), vm.Config{})
	if err != nil {
		c.Inconclusive("newblockchain_failed")
		return
	}
	var wire types.Blocks
	for _, b := range blocks {
		enc, err := rlp.EncodeToBytes(b)
		if err != nil {
			c.Inconclusive("block_encode_failed")
			return
		}
		var d types.Block
		if err := rlp.DecodeBytes(enc, &d); err != nil {
			c.Inconclusive("block_decode_failed")
			return
		}
		wire = append(wire, &d)
	}
	if idx, err := bc.InsertChain(wire); err != nil {
		c.Violate("chain_import_failed", "InsertChain", "", fmt.Sprintf("net %s: block index %d: %v", n.name, idx, err))
		bc.Stop()
		return
	}
	if cur := bc.CurrentBlock(); cur.NumberU64() != uint64(count) {
		c.Violate("chain_import_failed", "InsertChain", "head_short", fmt.Sprintf("net %s: head %d after importing %d blocks", n.name, cur.NumberU64(), count))
	}
	bc.Stop()
	// a fresh node over the same database: versions come from the read path
	bc2, err := core.NewBlockChain(ctx, db2, nil, cfg, aquahash.NewFaker(), vm.Config{})
	if err != nil {
		c.Inconclusive("newblockchain_failed")
		return
	}
	defer bc2.Stop()
	for i := 0; i <= count; i++ {
		b := bc2.GetBlockByNumber(uint64(i))
		if b == nil {
			c.Violate("chain_import_failed", "GetBlockByNumber", "missing", fmt.Sprintf("net %s: no block %d after reopen", n.name, i))
			continue
		}
		checkBlock("GetBlockByNumber", b)
		if i > 0 && b.Hash() != blocks[i-1].Hash() {
			c.Violate("header_hash_not_by_version", "GetBlockByNumber", "differs_from_builder", fmt.Sprintf("net %s block %d: %x vs built %x", n.name, i, b.Hash(), blocks[i-1].Hash()))
		}
		hd := bc2.GetHeaderByNumber(uint64(i))
		if hd == nil {
			c.Violate("chain_import_failed", "GetHeaderByNumber", "missing", fmt.Sprintf("net %s: no header %d after reopen", n.name, i))
			continue
		}
		checkBlock("GetHeaderByNumber", types.NewBlockWithHeader(hd))
	}
	c.Nontrivial(fmt.Sprintf("c %s %d %x", n.name, count, extra))
	if c.WantSample() {
		c.Sample(map[string]interface{}{"net": n.name, "schedule": cfg.HF.String(), "blocks": count, "fork_crossings": crossed, "head_hash": hx(blocks[count-1].Hash().Bytes())})
	}
}
