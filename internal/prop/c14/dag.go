package c14

// The version-1 MINER hashes over the full dataset while the verifier derives
// items from the cache on the fly: "every seal the miner returns passes the
// check" therefore needs the mining dataset to be exactly the specified one.
//
//   - dataset cases: the dataset the sealer uses (exported ethashdag API) is
//     compared item by item with the reference calc_dataset_item;
//   - the dataset generator splits the work by runtime.NumCPU(), which a process
//     samples once at start: the same comparison plus a small version-1 seal
//     sub-leg are repeated in grandchildren started through taskset with 3 and
//     5 CPUs (counts that do not divide the 512 items of the test-mode dataset).

import (
	"bytes"
	"encoding/binary"
	"encoding/json"
	"fmt"
	"math/big"
	"os"
	"os/exec"
	"path/filepath"
	"runtime"
	"strconv"
	"strings"
	"time"

	"gitlab.com/aquachain/aquachain/consensus/aquahash/ethashdag"
	"gitlab.com/aquachain/aquachain/core/types"
	"gitlab.com/aquachain/aquachain/params"
	"verif/internal/fw"
	"verif/internal/ref/refpow"
)

func itemOf(ds []uint32, i uint32) []byte {
	b := make([]byte, 64)
	for k := 0; k < 16; k++ {
		binary.LittleEndian.PutUint32(b[4*k:], ds[16*i+uint32(k)])
	}
	return b
}

// compareDataset checks items idx (nil = all) of a miner dataset against the reference.
func compareDataset(c *fw.Ctx, where string, ds []uint32, ref *refpow.Ethash, idx []uint32) {
	n := uint32(len(ds) / 16)
	if n != ref.Items() {
		c.Violate("mining_dataset_differs", where, "item_count", fmt.Sprintf("miner dataset has %d items, specification %d (NumCPU %d)", n, ref.Items(), runtime.NumCPU()))
		return
	}
	if idx == nil {
		idx = make([]uint32, n)
		for i := range idx {
			idx[i] = uint32(i)
		}
	}
	bad, first := 0, uint32(0)
	var firstGot, firstWant []byte
	for _, i := range idx {
		got, want := itemOf(ds, i), ref.DatasetItem(i)
		if !bytes.Equal(got, want) {
			if bad == 0 {
				first, firstGot, firstWant = i, got, want
			}
			bad++
		}
	}
	c.CountN("dataset_items_compared", len(idx))
	if bad > 0 {
		cause := "item_differs"
		if bytes.Equal(firstGot, make([]byte, 64)) {
			cause = "item_left_zero"
		}
		c.Violate("mining_dataset_differs", where, cause, fmt.Sprintf("%d of %d compared items differ (NumCPU %d); first: item %d of %d is %x, specification %x", bad, len(idx), runtime.NumCPU(), first, n, firstGot, firstWant))
	}
}

// datasetCases: test-mode datasets of several epochs, every item.
func datasetCases(c *fw.Ctx, label string) {
	epochs := []uint64{0, 1, 2, uint64(3 + c.Rand("dag-epoch", label).Intn(2040))}
	for _, ep := range epochs {
		id := fmt.Sprintf("dataset-%s-epoch-%d", label, ep)
		c.Case(id, map[string]interface{}{"epoch": ep, "mode": "test", "numcpu": runtime.NumCPU()}, func() {
			dir := filepath.Join(c.Dir, fmt.Sprintf("dag-%s-%d", label, ep))
			os.MkdirAll(dir, 0o755)
			dag := ethashdag.New(&ethashdag.Config{CachesInMem: 1, DatasetsInMem: 1, DatasetsOnDisk: 1, DatasetDir: dir, PowMode: ethashdag.ModeTest})
			d := dag.Dataset(ep*refpow.EthEpochLength + 1)
			ds := d.GetDataset()
			ref := refpow.NewEthash(1024, 32*1024, refpow.EthSeed(ep))
			compareDataset(c, "Dataset/test-mode", ds, ref, nil)
			runtime.KeepAlive(d)
			c.Nontrivial(fmt.Sprintf("dag %s %d %d", label, ep, runtime.NumCPU()))
		})
	}
}

// realDatasetCase (thorough): the real epoch-0 mining dataset (1 GiB, memory
// mapped file in the scratch directory): the last 64 items and a sample.
func realDatasetCase(c *fw.Ctx) {
	c.Case("dataset-real-epoch-0", map[string]interface{}{"epoch": 0, "mode": "normal", "numcpu": runtime.NumCPU()}, func() {
		dir := filepath.Join(c.Dir, "dag-real")
		os.MkdirAll(dir, 0o755)
		defer os.RemoveAll(dir)
		dag := ethashdag.New(&ethashdag.Config{CachesInMem: 1, DatasetsInMem: 1, DatasetsOnDisk: 1, DatasetDir: dir, PowMode: ethashdag.ModeNormal})
		d := dag.Dataset(1)
		ds := d.GetDataset()
		ref := refpow.NewEthashEpoch(0)
		n := ref.Items()
		var idx []uint32
		for i := uint32(0); i < 64; i++ {
			idx = append(idx, i, n-1-i)
		}
		r := c.Rand("dag-real")
		threads := uint32(runtime.NumCPU())
		for t := uint32(1); t <= threads; t++ { // around every per-goroutine segment boundary
			b := uint32(uint64(n) * uint64(t) / uint64(threads))
			for _, dlt := range []int64{-2, -1, 0, 1} {
				if j := int64(b) + dlt; j >= 0 && j < int64(n) {
					idx = append(idx, uint32(j))
				}
			}
		}
		for i := 0; i < 1500; i++ {
			idx = append(idx, uint32(r.Uint64()%uint64(n)))
		}
		compareDataset(c, "Dataset/real-epoch-0", ds, ref, idx)
		c.Count("dataset_real_epoch0_checked")
		runtime.KeepAlive(d)
	})
}

// allowedCPUs parses Cpus_allowed_list of this process.
func allowedCPUs() []int {
	b, err := os.ReadFile("/proc/self/status")
	if err != nil {
		return nil
	}
	var out []int
	for _, ln := range strings.Split(string(b), "\n") {
		if !strings.HasPrefix(ln, "Cpus_allowed_list:") {
			continue
		}
		for _, part := range strings.Split(strings.TrimSpace(strings.TrimPrefix(ln, "Cpus_allowed_list:")), ",") {
			lohi := strings.SplitN(part, "-", 2)
			lo, err1 := strconv.Atoi(strings.TrimSpace(lohi[0]))
			hi := lo
			var err2 error
			if len(lohi) == 2 {
				hi, err2 = strconv.Atoi(strings.TrimSpace(lohi[1]))
			}
			if err1 != nil || err2 != nil {
				return nil
			}
			for i := lo; i <= hi; i++ {
				out = append(out, i)
			}
		}
	}
	return out
}

const cpuLegPrefix = "cpus"

// pinnedGrandchild re-runs this binary as a child of leg "cpus<k>" under
// taskset with k CPUs and folds its result into this batch.
func pinnedGrandchild(c *fw.Ctx, k int) {
	id := fmt.Sprintf("pinned-%d-cpus", k)
	c.Case(id, map[string]interface{}{"cpus": k}, func() {
		ts, err := exec.LookPath("taskset")
		cpus := allowedCPUs()
		if err != nil || len(cpus) < k {
			c.Count("pinned_grandchild_skipped")
			return
		}
		var list []string
		for _, x := range cpus[:k] {
			list = append(list, strconv.Itoa(x))
		}
		self, err := os.Executable()
		if err != nil {
			c.Count("pinned_grandchild_skipped")
			return
		}
		leg := fmt.Sprintf("%s%d", cpuLegPrefix, k)
		dir := filepath.Join(c.Dir, "grandchild-"+leg)
		os.MkdirAll(dir, 0o755)
		cmd := exec.Command(ts, "-c", strings.Join(list, ","), self, "child", c.Prop, leg, "0", "1", c.Tier, fmt.Sprint(c.Seed), dir)
		outf, _ := os.Create(filepath.Join(dir, "out.txt"))
		cmd.Stdout, cmd.Stderr = outf, outf
		done := make(chan error, 1)
		if err := cmd.Start(); err != nil {
			c.Count("pinned_grandchild_skipped")
			return
		}
		go func() { done <- cmd.Wait() }()
		select {
		case <-done:
		case <-time.After(60 * time.Minute):
			cmd.Process.Kill()
			<-done
			c.Inconclusive("pinned_grandchild_watchdog")
			return
		}
		outf.Close()
		b, err := os.ReadFile(filepath.Join(dir, leg+"-000.result.json"))
		var cr fw.ChildResult
		if err != nil || json.Unmarshal(b, &cr) != nil || !cr.Done {
			tail, _ := os.ReadFile(filepath.Join(dir, "out.txt"))
			if len(tail) > 3000 {
				tail = tail[len(tail)-3000:]
			}
			c.Violate("process_died", "pinned_grandchild", fmt.Sprintf("cpus_%d", k), fmt.Sprintf("grandchild under taskset with %d CPUs left no result\n%s", k, tail))
			return
		}
		for name, v := range cr.Counters {
			if strings.HasPrefix(name, "ref_selftest") {
				continue
			}
			c.CountN(fmt.Sprintf("cpus%d_%s", k, name), v)
			if name == "dataset_items_compared" {
				c.CountN("dataset_items_compared_pinned", v)
			}
		}
		c.CountN("pinned_grandchild_inconclusive", cr.Inconclusive)
		for i := range cr.Violations {
			v := &cr.Violations[i]
			c.ViolateInput(v.Clause, v.Op+fmt.Sprintf("@%dcpus", k), v.Cause, v.Detail, map[string]interface{}{"cpus": k, "grandchild_case": v.Case, "input": v.Input})
		}
		c.Count("pinned_grandchild_ran")
		c.Nontrivial(id)
	})
}

// runPinned is what the grandchild executes: dataset comparison and a small
// version-1 seal sub-leg with the CPU count it was started with.
func runPinned(c *fw.Ctx) {
	c.CountN("numcpu_seen", runtime.NumCPU())
	datasetCases(c, c.Leg)
	eng := newTestEngine(c)
	chain := cfgChain{params.TestChainConfig}
	refs := map[uint64]*refpow.Ethash{}
	n := c.Pick(24, 120)
	for i := 0; i < n; i++ {
		r := c.Rand("pinned-seal", fmt.Sprint(i))
		h := genHeader(r)
		h.Number = big.NewInt(int64(r.Range(1, 4))) // version 1 under the test schedule
		h.Difficulty = big.NewInt(int64(r.Range(2, 40)))
		th := []int{1, 2, 3}[i%3]
		c.Case(fmt.Sprintf("pinned-seal-%d", i), map[string]interface{}{"header": inOf(h), "difficulty": h.Difficulty.String(), "threads": th, "numcpu": runtime.NumCPU()}, func() {
			eng.SetThreads(th)
			blk, err := sealWithWatchdog(c, eng, chain, types.NewBlockWithHeader(toReal(h, 1)), 10*time.Minute)
			if err == errWatchdog {
				return
			}
			if blk == nil || err != nil {
				c.Violate("miner_returned_no_seal", "Seal/v1", errClass(err), fmt.Sprintf("difficulty %v: block %v err %v", h.Difficulty, blk, err))
				return
			}
			c.Count("seal_returned_v1")
			rh := blk.Header()
			if verr := eng.VerifySeal(chain, rh); verr != nil {
				c.Violate("mined_seal_rejected", "Seal/v1", errClass(verr), fmt.Sprintf("NumCPU %d difficulty %v nonce %x mix %x: VerifySeal of the returned header: %v", runtime.NumCPU(), h.Difficulty, rh.Nonce, rh.MixDigest, verr))
			}
			ref := fromReal(rh)
			ep := ref.Number.Uint64() / refpow.EthEpochLength
			if refs[ep] == nil {
				refs[ep] = refpow.NewEthash(1024, 32*1024, refpow.EthSeed(ep))
			}
			if ok, pow, mix := refpow.Accept(ref, 1, refs[ep]); !ok {
				c.Violate("mined_seal_fails_reference", "Seal/v1", "", fmt.Sprintf("NumCPU %d difficulty %v nonce %x mix %x: reference pow %x expected mix %x", runtime.NumCPU(), h.Difficulty, rh.Nonce, rh.MixDigest, pow, mix))
			}
		})
	}
}
