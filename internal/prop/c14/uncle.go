package c14

// Leg uncle: the seal of an uncle is judged with the algorithm of the UNCLE's
// own height. Engine.VerifyUncles (real engine, never a fake mode) runs over a
// small in-memory chain reader; the uncle is mined by the reference at the
// difficulty the node's own difficulty rule demands, and wrapped in a nephew on
// the other side of a version-changing fork (plus same-side controls).
//
// Built-in schedules whose difficulty rule makes real mining infeasible
// (mainnet, testnet, test: >= 46,039,386 around the forks) are covered for the
// HF5 edge with the substituted final Keccak-256 of the boundary leg (the
// version-1 uncle's proof-of-work value is forced to zero); testnet2 (HF8, HF9)
// and custom schedules (HF5, HF8, HF9, several forks inside one uncle window)
// are mined for real.

import (
	"bytes"
	"context"
	"fmt"
	"math/big"

	"gitlab.com/aquachain/aquachain/common"
	"gitlab.com/aquachain/aquachain/consensus/aquahash"
	"gitlab.com/aquachain/aquachain/core/types"
	"gitlab.com/aquachain/aquachain/params"
	"verif/internal/fw"
	"verif/internal/ref/refpow"
)

// memChain is a minimal in-memory consensus.ChainReader.
type memChain struct {
	cfg    *params.ChainConfig
	byHash map[common.Hash]*types.Block
	byNum  map[uint64]*types.Block
	head   *types.Block
}

func newMemChain(cfg *params.ChainConfig) *memChain {
	return &memChain{cfg: cfg, byHash: map[common.Hash]*types.Block{}, byNum: map[uint64]*types.Block{}}
}

func (m *memChain) add(b *types.Block) {
	m.byHash[b.Hash()] = b
	m.byNum[b.NumberU64()] = b
	m.head = b
}
func (m *memChain) Config() *params.ChainConfig  { return m.cfg }
func (m *memChain) GetContext() context.Context  { return context.Background() }
func (m *memChain) CurrentHeader() *types.Header { return m.head.Header() }
func (m *memChain) GetHeaderByNumber(n uint64) *types.Header {
	if b := m.byNum[n]; b != nil {
		return b.Header()
	}
	return nil
}
func (m *memChain) GetHeaderByHash(h common.Hash) *types.Header {
	if b := m.byHash[h]; b != nil {
		return b.Header()
	}
	return nil
}
func (m *memChain) GetHeader(h common.Hash, n uint64) *types.Header {
	if b := m.byHash[h]; b != nil && b.NumberU64() == n {
		return b.Header()
	}
	return nil
}
func (m *memChain) GetBlock(h common.Hash, n uint64) *types.Block {
	if b := m.byHash[h]; b != nil && b.NumberU64() == n {
		return b
	}
	return nil
}

type uncleIn struct {
	Net        string `json:"net"`
	Schedule   string `json:"schedule"`
	Fork       string `json:"fork"`
	Uncle      int64  `json:"uncle_height"`
	Nephew     int64  `json:"nephew_height"`
	ParentDiff int64  `json:"canonical_difficulty"`
	Seed       string `json:"seed"`
	Stubbed    bool   `json:"substituted_final_hash,omitempty"`
}

var sealErrors = map[string]bool{"invalid proof-of-work": true, "invalid mix digest": true, "non-positive difficulty": true, "nonce out of range": true}

type uncleNet struct {
	net   net
	forks []struct {
		name string
		h    int64
	}
	stub bool // difficulty rule makes mining infeasible: version-1 uncles with the substituted final hash only
}

func uncleNets() []uncleNet {
	mk := func(n net, stub bool) uncleNet {
		u := uncleNet{net: n, stub: stub}
		s := schedOf(n.cfg)
		for _, f := range []struct {
			name string
			h    *big.Int
		}{{"HF5", s.HF5}, {"HF8", s.HF8}, {"HF9", s.HF9}} {
			if f.h != nil && f.h.Sign() > 0 {
				u.forks = append(u.forks, struct {
					name string
					h    int64
				}{f.name, f.h.Int64()})
			}
		}
		return u
	}
	t2 := params.Testnet2ChainConfig
	return []uncleNet{
		mk(net{"testnet2", t2}, false),
		mk(net{"custom-10-20-30", withHF(t2, params.ForkMap{5: big.NewInt(10), 8: big.NewInt(20), 9: big.NewInt(30)})}, false),
		mk(net{"custom-10-12-14", withHF(t2, params.ForkMap{5: big.NewInt(10), 8: big.NewInt(12), 9: big.NewInt(14)})}, false),
		mk(net{"custom-7-9-9", withHF(t2, params.ForkMap{5: big.NewInt(7), 8: big.NewInt(9), 9: big.NewInt(9)})}, false),
		mk(net{"mainnet", params.MainnetChainConfig}, true),
		mk(net{"testnet", params.TestnetChainConfig}, true),
		mk(net{"test", params.TestChainConfig}, true),
	}
}

type unclePlan struct {
	un   uncleNet
	fork string
	u, n int64
}

// unclePlans lists (uncle height, nephew height) pairs around every fork: the
// uncle below the fork and the nephew at/after it, and same-side controls.
func unclePlans() []unclePlan {
	var out []unclePlan
	for _, un := range uncleNets() {
		for _, f := range un.forks {
			add := func(u, n int64) {
				if u >= 1 && n > u && n <= u+6 {
					out = append(out, unclePlan{un, f.name, u, n})
				}
			}
			if un.stub {
				if f.name != "HF5" {
					continue // argon2id uncles at >= 46M difficulty cannot be produced
				}
				add(f.h-1, f.h)
				add(f.h-2, f.h+1)
				add(f.h-2, f.h-1) // control
				continue
			}
			add(f.h-1, f.h)
			add(f.h-1, f.h+1)
			add(f.h-1, f.h+5)
			add(f.h-2, f.h)
			add(f.h-3, f.h+3)
			add(f.h-2, f.h-1) // control: both below
			add(f.h+1, f.h+2) // control: both at/after
			add(f.h+1, f.h+4)
		}
	}
	return out
}

func runUncle(c *fw.Ctx) {
	plans := unclePlans()
	reps := c.Pick(1, 12)
	eng := newTestEngine(c)
	refs := map[uint64]*refpow.Ethash{}
	refFor := func(number *big.Int) *refpow.Ethash {
		ep := number.Uint64() / refpow.EthEpochLength
		if e, ok := refs[ep]; ok {
			return e
		}
		e := refpow.NewEthash(1024, 32*1024, refpow.EthSeed(ep))
		refs[ep] = e
		return e
	}
	for rep := 0; rep < reps; rep++ {
		for pi, p := range plans {
			if (pi+rep)%c.NBatch != c.Batch {
				continue
			}
			r := c.Rand("uncle", fmt.Sprint(rep), fmt.Sprint(pi))
			pd := int64(r.Range(150, 600))
			seed := r.Uint64()
			in := uncleIn{Net: p.un.net.name, Schedule: p.un.net.cfg.HF.String(), Fork: p.fork, Uncle: p.u, Nephew: p.n, ParentDiff: pd, Seed: fmt.Sprintf("%016x", seed), Stubbed: p.un.stub}
			id := fmt.Sprintf("uncle-%s-%s-u%d-n%d-%d", p.un.net.name, p.fork, p.u, p.n, rep)
			c.Case(id, in, func() {
				uncleCase(c, eng, refFor, p, pd, fw.NewRand(seed, "uncle-case"))
			})
		}
	}
}

func uncleCase(c *fw.Ctx, eng *aquahash.Aquahash, refFor func(*big.Int) *refpow.Ethash, p unclePlan, pd int64, r *fw.Rand) {
	cfg := p.un.net.cfg
	sched := schedOf(cfg)
	chain := newMemChain(cfg)
	const gasLimit = 4200000
	mk := func(parent *types.Block, n int64) *types.Header {
		h := &types.Header{
			Number: big.NewInt(n), Time: big.NewInt(1000 + 240*n), Difficulty: big.NewInt(pd), GasLimit: gasLimit,
			Coinbase: common.Address{1}, UncleHash: types.EmptyUncleHash, TxHash: types.EmptyRootHash, ReceiptHash: types.EmptyRootHash,
			Extra: []byte("main"),
		}
		if parent != nil {
			h.ParentHash = parent.Hash()
		}
		h.Version = cfg.GetBlockVersion(h.Number) // as every path of the node stamps it
		return h
	}
	// canonical chain: the 9 blocks below the nephew
	lo := p.n - 9
	if lo < 0 {
		lo = 0
	}
	var parent *types.Block
	for n := lo; n < p.n; n++ {
		parent = types.NewBlockWithHeader(mk(parent, n))
		chain.add(parent)
	}
	up := chain.byNum[uint64(p.u-1)]
	if up == nil {
		c.Inconclusive("uncle_parent_outside_window")
		return
	}
	var ugp *types.Header
	if g := chain.byNum[uint64(p.u-2)]; g != nil {
		ugp = g.Header()
	}
	// the uncle: a sibling of canonical block u
	uh := mk(up, p.u)
	uh.Coinbase = common.Address{2}
	uh.Extra = r.Bytes(r.Range(1, 32))
	uh.Time = new(big.Int).Add(up.Time(), big.NewInt(int64(r.Range(1, 400))))
	uh.GasLimit = gasLimit + uint64(r.Intn(2000)) - 1000
	uh.GasUsed = uint64(r.Intn(gasLimit / 2))
	copy(uh.Root[:], r.Bytes(32))
	uh.Difficulty = aquahash.CalcDifficulty(cfg, uh.Time.Uint64(), up.Header(), ugp)
	vU := refpow.Version(sched, big.NewInt(p.u))
	vN := refpow.Version(sched, big.NewInt(p.n))
	if !p.un.stub && uh.Difficulty.Cmp(big.NewInt(20000)) > 0 {
		c.Count("uncle_skipped_difficulty_reset_at_fork_block")
		return
	}
	ref := fromReal(uh)
	var eth *refpow.Ethash
	if vU == 1 {
		eth = refFor(ref.Number)
	}
	nephew := func(u *refpow.Header) *types.Block {
		h := mk(chain.byNum[uint64(p.n-1)], p.n)
		return types.NewBlock(h, nil, []*types.Header{toReal(u, 0)}, nil) // the uncle travels without a version
	}
	cross := vU != vN
	tag := fmt.Sprintf("v%d-in-v%d", vU, vN)
	judge := func(u *refpow.Header, what string, powOverride []byte) (got, want bool) {
		err := eng.VerifyUncles(chain, nephew(u))
		var pow, mix []byte
		if powOverride != nil { // substituted final hash: mix by the reference, value given
			m, _ := eth.Hashimoto(u.SealHash(1), getNonce(u))
			mix, pow = m, powOverride
			want = bytes.Equal(m, u.MixDigest[:]) && refpow.Meets(powOverride, u.Difficulty)
		} else {
			want, pow, mix = refpow.Accept(u, vU, eth)
		}
		got = err == nil
		if got == want {
			return
		}
		detail := fmt.Sprintf("%s: net %s uncle #%d (version %d by its height) in block #%d (version %d), difficulty %v nonce %x mix %x: VerifyUncles=%v, reference accept=%v (pow %x, expected mix %x, target %s)",
			what, p.un.net.name, p.u, vU, p.n, vN, u.Difficulty, u.Nonce, u.MixDigest, err, want, pow, mix, targetStr(u.Difficulty))
		if got {
			cause := "seal_invalid_for_uncle_height_version"
			if what == "nephew_version_only" {
				cause = "seal_valid_only_under_nephew_version"
			}
			c.Violate("invalid_uncle_accepted", "VerifyUncles/"+tag, cause, detail)
		} else if sealErrors[errClass(err)] {
			c.Violate("valid_uncle_rejected", "VerifyUncles/"+tag, errClass(err), detail)
		} else {
			// refused by a rule that is not the seal: the construction, not the property
			c.Inconclusive("uncle_refused_by_non_seal_rule")
			c.Note("non-seal refusal: %s", detail)
		}
		return
	}
	countAcross := func() {
		if cross {
			// every version-changing fork that lies between the two heights
			for _, f := range []struct {
				name string
				v    int
			}{{"HF5", 2}, {"HF8", 3}, {"HF9", 4}} {
				if vU < f.v && f.v <= vN {
					c.Count("uncle_across_" + f.name)
				}
			}
			c.Count("uncle_across_fork_accepted")
		} else {
			c.Count("uncle_same_side_control_accepted")
		}
	}

	if p.un.stub {
		// version-1 uncle, proof-of-work value forced to zero
		if vU != 1 {
			c.Inconclusive("stub_plan_not_version_1")
			return
		}
		x := r.Uint64()
		setNonce(ref, x)
		mix, _ := eth.Hashimoto(ref.SealHash(1), x)
		copy(ref.MixDigest[:], mix)
		st := &stub{memo: map[string][]byte{}, queue: [][]byte{make([]byte, 32)}}
		restore := st.install()
		defer restore()
		if got, want := judge(ref, "valid_substituted", make([]byte, 32)); got && want {
			countAcross()
			c.Count("uncle_substituted_hash_accepted")
		}
		bad := cloneRef(ref)
		bad.MixDigest[r.Intn(32)] ^= 1 << uint(r.Intn(8))
		if got, _ := judge(bad, "mixflip", make([]byte, 32)); !got {
			c.Count("uncle_invalid_rejected")
		}
		c.Nontrivial(fmt.Sprintf("us %s %d %d %x", p.un.net.name, p.u, p.n, x))
		return
	}

	// (a) a nonce mined by the reference under the version of the uncle's height
	sh := ref.SealHash(vU)
	x := r.Uint64()
	found := false
	for tries := 0; tries < 400000; tries, x = tries+1, x+1 {
		var pow, mix []byte
		if vU == 1 {
			mix, pow = eth.Hashimoto(sh, x)
		} else {
			mix, pow = make([]byte, 32), refpow.ArgonPow(vU, sh, x)
		}
		if refpow.Meets(pow, ref.Difficulty) {
			setNonce(ref, x)
			copy(ref.MixDigest[:], mix)
			found = true
			break
		}
	}
	if !found {
		c.Inconclusive("reference_mining_gave_up")
		return
	}
	if got, want := judge(ref, "valid", nil); got && want {
		countAcross()
	}
	// (b) neighbours and a wrong mix digest
	for _, dn := range []uint64{x + 1, r.Uint64()} {
		o := cloneRef(ref)
		setNonce(o, dn)
		if got, _ := judge(o, "other_nonce", nil); !got {
			c.Count("uncle_invalid_rejected")
		}
	}
	o := cloneRef(ref)
	o.MixDigest[r.Intn(32)] ^= 1 << uint(r.Intn(8))
	if got, _ := judge(o, "mixflip", nil); !got {
		c.Count("uncle_invalid_rejected")
	}
	// (c) a seal that only satisfies the NEPHEW's algorithm
	if cross {
		var ethN *refpow.Ethash
		if vN == 1 {
			ethN = refFor(ref.Number)
		}
		o := cloneRef(ref)
		y := r.Uint64()
		ok := false
		for tries := 0; tries < 400000; tries, y = tries+1, y+1 {
			setNonce(o, y)
			if vN == 1 {
				m, _ := ethN.Hashimoto(o.SealHash(1), y)
				copy(o.MixDigest[:], m)
			} else {
				o.MixDigest = [32]byte{}
			}
			if a, _, _ := refpow.Accept(o, vN, ethN); !a {
				continue
			}
			if a, _, _ := refpow.Accept(o, vU, eth); !a {
				ok = true
				break
			}
		}
		if ok {
			if got, _ := judge(o, "nephew_version_only", nil); !got {
				c.Count("uncle_nephew_version_only_rejected")
			}
		}
	}
	c.Nontrivial(fmt.Sprintf("u %s %d %d %x", p.un.net.name, p.u, p.n, x))
	if c.WantSample() && cross {
		c.Sample(map[string]interface{}{"net": p.un.net.name, "fork": p.fork, "uncle": p.u, "nephew": p.n, "uncle_version": vU, "nephew_version": vN,
			"difficulty": ref.Difficulty.String(), "nonce": hx(ref.Nonce[:])})
	}
}
