// Package c10: the Merkle-Patricia trie commits to exactly its content.
//
// Monitor: a plain Go map is the model. A generated history of
// update/delete/get/hash/commit/reopen/cache-limit/disk-commit/iterate/prove
// operations runs against the real trie; at every hash point the real root must
// equal reftrie.Root(model) (yellow-paper definition, independent code), every
// lookup and iteration must return exactly the live content, reopened tries must
// reproduce it, proofs must verify to the model value, and no altered proof may
// verify to a different value.
package c10

import (
	"bytes"
	"encoding/hex"
	"fmt"
	"sort"

	"gitlab.com/aquachain/aquachain/aquadb"
	"gitlab.com/aquachain/aquachain/common"
	"gitlab.com/aquachain/aquachain/core/types"
	"gitlab.com/aquachain/aquachain/trie"
	"verif/internal/fw"
	"verif/internal/ref/refhash"
	"verif/internal/ref/refrlp"
	"verif/internal/ref/reftrie"
)

func init() {
	fw.Register(&fw.Prop{
		ID:    "C10",
		Title: "The Merkle-Patricia trie commits to exactly its content",
		Level: "exploration",
		Rule: "cases are PRNG histories (40-120 ops) of update/delete/get/hash/commit/reopen/disk-commit/cache-limit/iterate/prove over key universes of <=24 keys " +
			"(32-byte hashed keys, variable-length keys with shared prefixes and keys that are prefixes of others, SecureTrie, DeriveSha lists); " +
			"a case is non-trivial when it deleted a present key, crossed a commit+reopen and its final content has >=2 keys; distinct = hash of the op list. " +
			"Proof cases additionally mutate every byte of every proof blob three ways and drop/duplicate/reorder blobs.",
		Legs: func(tier string) []fw.Leg {
			return []fw.Leg{
				{Name: "hist", Variant: "plain", Batches: 16},
				{Name: "proof", Variant: "plain", Batches: 16},
				{Name: "derive", Variant: "plain", Batches: 4},
			}
		},
		Run: run,
		Gate: func(tier string) map[string]int {
			return map[string]int{
				"delete_present": 100, "branch_collapse_after_delete": 100, "embedded_node_present": 100,
				"unload_then_reload": 100, "reopen_from_memdb": 100, "reopen_from_disk": 100,
				"prefix_key_live": 100, "root_compared": 1000, "proof_verified": 500, "proof_absent_verified": 100,
				"proof_mutations": 10000, "derive_sha_compared": 100, "secure_trie_history": 20,
			}
		},
		AnchorFiles: []string{"/trie/"},
		Assumptions: []string{
			"reference root = yellow-paper appendix D recursion over the sorted content with x/crypto legacy Keccak-256 (internal/ref/reftrie), self-tested against the vectors of trie/trie_test.go",
			"a verifier receives a proof as a list of blobs and indexes them by the hash it computes itself; blobs are never trusted under a claimed hash",
		},
	})
}

type op struct {
	K string `json:"k"`           // op kind
	A string `json:"a,omitempty"` // hex key
	V string `json:"v,omitempty"` // hex value
	N int    `json:"n,omitempty"`
}

type history struct {
	Kind string `json:"kind"`
	Ops  []op   `json:"ops"`
}

func hx(b []byte) string { return hex.EncodeToString(b) }
func unhx(s string) []byte {
	b, _ := hex.DecodeString(s)
	return b
}

// universe builds a small key set of the given kind.
func universe(r *fw.Rand, kind string) [][]byte {
	n := r.Range(3, 24)
	var keys [][]byte
	seen := map[string]bool{}
	add := func(k []byte) {
		if !seen[string(k)] {
			seen[string(k)] = true
			keys = append(keys, k)
		}
	}
	switch kind {
	case "hashed":
		// 32-byte keys; some share long prefixes so extensions are deep
		base := r.Bytes(32)
		for len(keys) < n {
			k := r.Bytes(32)
			switch r.Intn(4) {
			case 0:
				p := r.Range(1, 31)
				copy(k, base[:p])
			case 1:
				copy(k, base[:31])
			}
			add(k)
		}
	case "secure":
		for len(keys) < n {
			add(r.Bytes(r.Range(0, 40)))
		}
	default: // "varlen": small alphabet, lengths 0..4, prefixes of each other
		alpha := []byte{0x00, 0x01, 0x10, 0x11, 0xf0, 0xff}
		for tries := 0; len(keys) < n && tries < 400; tries++ {
			l := r.Range(0, 4)
			k := make([]byte, l)
			for i := range k {
				k[i] = alpha[r.Intn(len(alpha))]
			}
			add(k)
			if r.Chance(1, 2) && l > 0 {
				add(append([]byte{}, k[:r.Range(0, l-1)]...))
			}
		}
	}
	return keys
}

func genValue(r *fw.Rand) []byte {
	switch r.Intn(6) {
	case 0:
		return r.Bytes(r.Range(1, 3))
	case 1:
		return r.Bytes(r.Range(4, 31))
	case 2:
		return r.Bytes(32)
	case 3:
		return r.Bytes(r.Range(33, 200))
	case 4:
		return nil // empty value = delete
	default:
		return r.Bytes(r.Range(1, 40))
	}
}

func genHistory(r *fw.Rand, kind string, nops int) (history, [][]byte) {
	keys := universe(r, kind)
	h := history{Kind: kind}
	for i := 0; i < nops; i++ {
		k := keys[r.Intn(len(keys))]
		switch x := r.Intn(100); {
		case x < 40:
			h.Ops = append(h.Ops, op{K: "update", A: hx(k), V: hx(genValue(r))})
		case x < 58:
			h.Ops = append(h.Ops, op{K: "delete", A: hx(k)})
		case x < 64:
			h.Ops = append(h.Ops, op{K: "get", A: hx(k)})
		case x < 72:
			h.Ops = append(h.Ops, op{K: "hash"})
		case x < 80:
			h.Ops = append(h.Ops, op{K: "commit"})
		case x < 86:
			h.Ops = append(h.Ops, op{K: "reopen"})
		case x < 90:
			h.Ops = append(h.Ops, op{K: "diskcommit"})
		case x < 94:
			h.Ops = append(h.Ops, op{K: "cachelimit", N: r.Range(1, 3)})
		case x < 97:
			h.Ops = append(h.Ops, op{K: "iterate"})
		default:
			h.Ops = append(h.Ops, op{K: "checkall"})
		}
	}
	h.Ops = append(h.Ops, op{K: "commit"}, op{K: "checkall"}, op{K: "iterate"}, op{K: "diskcommit"}, op{K: "checkall"}, op{K: "iterate"})
	return h, keys
}

// realTrie abstracts Trie and SecureTrie.
type realTrie interface {
	TryGet(key []byte) ([]byte, error)
	TryUpdate(key, value []byte) error
	TryDelete(key []byte) error
	Hash() common.Hash
	Commit(onleaf trie.LeafCallback) (common.Hash, error)
	NodeIterator(start []byte) trie.NodeIterator
	Prove(key []byte, fromLevel uint, proofDb aquadb.Putter) error
}

type runner struct {
	c       *fw.Ctx
	secure  bool
	disk    *aquadb.MemDatabase
	tdb     *trie.Database
	tr      realTrie
	plain   *trie.Trie // non-nil when !secure
	model   map[string][]byte
	limit   uint16
	commits int // commits since the last cache-limit change
	step    int
	// flags for non-triviality
	deletedPresent, reopened bool
}

// mkey maps a user key to the key the model is indexed by (the raw key, or its
// Keccak-256 for a SecureTrie).
func (r *runner) mkey(k []byte) string {
	if r.secure {
		return string(refhash.Keccak256(k))
	}
	return string(k)
}

func (r *runner) open(root common.Hash) error {
	if r.secure {
		t, err := trie.NewSecure(root, r.tdb, r.limit)
		if err != nil {
			return err
		}
		r.tr = t
		return nil
	}
	t, err := trie.New(root, r.tdb)
	if err != nil {
		return err
	}
	if r.limit > 0 {
		t.SetCacheLimit(r.limit)
	}
	r.tr, r.plain = t, t
	return nil
}

func (r *runner) checkRoot(where string) common.Hash {
	got := r.tr.Hash()
	want := reftrie.Root(r.model)
	r.c.Count("root_compared")
	if !bytes.Equal(got[:], want) {
		r.c.Violate("root_not_function_of_content", where, "", fmt.Sprintf("real root %x, reference root %x, content %d keys", got, want, len(r.model)))
	}
	return got
}

func (r *runner) checkAll(keys [][]byte, where string) {
	for _, k := range keys {
		got, err := r.tr.TryGet(k)
		want := r.model[r.mkey(k)]
		if err != nil {
			r.c.Violate("lookup_error", where, "", fmt.Sprintf("TryGet(%x): %v", k, err))
			continue
		}
		if !bytes.Equal(got, want) {
			r.c.Violate("lookup_wrong_value", where, "", fmt.Sprintf("TryGet(%x) = %x, model %x", k, got, want))
		}
	}
}

func (r *runner) iterate(where string) {
	it := trie.NewIterator(r.tr.NodeIterator(nil))
	var gotK, gotV [][]byte
	for it.Next() {
		gotK = append(gotK, append([]byte{}, it.Key...))
		gotV = append(gotV, append([]byte{}, it.Value...))
	}
	if it.Err != nil {
		r.c.Violate("iteration_error", where, "", it.Err.Error())
		return
	}
	// order: a key that is a prefix of others sits in the 17th slot of a branch
	// and is visited after its extensions; the property promises the content,
	// not lexicographic order, so compare as sorted sets
	idx := make([]int, len(gotK))
	for i := range idx {
		idx[i] = i
	}
	sort.Slice(idx, func(a, b int) bool { return bytes.Compare(gotK[idx[a]], gotK[idx[b]]) < 0 })
	sk, sv := make([][]byte, len(gotK)), make([][]byte, len(gotK))
	for i, j := range idx {
		sk[i], sv[i] = gotK[j], gotV[j]
	}
	gotK, gotV = sk, sv
	var want []string
	for k, v := range r.model {
		if len(v) > 0 {
			want = append(want, k)
		}
	}
	sort.Strings(want)
	r.c.Count("iteration_compared")
	if len(want) != len(gotK) {
		r.c.Violate("iteration_wrong_content", where, "count", fmt.Sprintf("iterator returned %d entries, model has %d", len(gotK), len(want)))
		return
	}
	for i := range want {
		if want[i] != string(gotK[i]) || !bytes.Equal(r.model[want[i]], gotV[i]) {
			r.c.Violate("iteration_wrong_content", where, "entry", fmt.Sprintf("entry %d: iterator (%x=%x), model (%x=%x)", i, gotK[i], gotV[i], want[i], r.model[want[i]]))
			return
		}
	}
}

func hasLivePrefixKey(m map[string][]byte) bool {
	var ks []string
	for k, v := range m {
		if len(v) > 0 {
			ks = append(ks, k)
		}
	}
	sort.Strings(ks)
	for i := 0; i+1 < len(ks); i++ {
		if len(ks[i]) < len(ks[i+1]) && ks[i+1][:len(ks[i])] == ks[i] {
			return true
		}
	}
	return false
}

func (r *runner) exec(h history, keys [][]byte) {
	c := r.c
	for i, o := range h.Ops {
		where := o.K
		r.step = i
		switch o.K {
		case "update":
			k, v := unhx(o.A), unhx(o.V)
			before := reftrie.ShapeOf(r.model)
			if err := r.tr.TryUpdate(k, v); err != nil {
				c.Violate("update_error", where, "", err.Error())
			}
			mk := r.mkey(k)
			if len(v) == 0 {
				if len(r.model[mk]) > 0 {
					r.deletedPresent = true
					c.Count("delete_present")
				}
				delete(r.model, mk)
				if after := reftrie.ShapeOf(r.model); after.Branches < before.Branches {
					c.Count("branch_collapse_after_delete")
				}
			} else {
				r.model[mk] = v
			}
		case "delete":
			k := unhx(o.A)
			before := reftrie.ShapeOf(r.model)
			if err := r.tr.TryDelete(k); err != nil {
				c.Violate("delete_error", where, "", err.Error())
			}
			mk := r.mkey(k)
			if len(r.model[mk]) > 0 {
				r.deletedPresent = true
				c.Count("delete_present")
			}
			delete(r.model, mk)
			if after := reftrie.ShapeOf(r.model); after.Branches < before.Branches {
				c.Count("branch_collapse_after_delete")
			}
		case "get":
			r.checkAll([][]byte{unhx(o.A)}, where)
		case "hash":
			r.checkRoot(where)
		case "commit":
			root, err := r.tr.Commit(nil)
			if err != nil {
				c.Violate("commit_error", where, "", err.Error())
				return
			}
			want := reftrie.Root(r.model)
			c.Count("root_compared")
			if !bytes.Equal(root[:], want) {
				c.Violate("root_not_function_of_content", where, "", fmt.Sprintf("commit root %x, reference %x", root, want))
			}
			r.commits++
			if r.limit > 0 && r.commits >= int(r.limit)+1 {
				// nodes older than the limit are now hash references; any later
				// lookup must resolve them from the database again
				c.Count("unload_then_reload")
			}
		case "reopen":
			root, err := r.tr.Commit(nil)
			if err != nil {
				c.Violate("commit_error", where, "", err.Error())
				return
			}
			if err := r.open(root); err != nil {
				c.Violate("reopen_failed", where, "memdb", err.Error())
				return
			}
			r.reopened = true
			c.Count("reopen_from_memdb")
			r.checkRoot(where)
			r.checkAll(keys, where)
		case "diskcommit":
			root, err := r.tr.Commit(nil)
			if err != nil {
				c.Violate("commit_error", where, "", err.Error())
				return
			}
			if err := r.tdb.Commit(root, false); err != nil {
				c.Violate("disk_commit_error", where, "", err.Error())
				return
			}
			// a fresh node database over the same disk: nothing cached
			r.tdb = trie.NewDatabase(r.disk)
			if err := r.open(root); err != nil {
				c.Violate("reopen_failed", where, "disk", err.Error())
				return
			}
			r.reopened = true
			c.Count("reopen_from_disk")
			r.checkRoot(where)
			r.checkAll(keys, where)
			r.iterate(where)
		case "cachelimit":
			r.limit = uint16(o.N)
			r.commits = 0
			if r.plain != nil {
				r.plain.SetCacheLimit(r.limit)
			}
		case "iterate":
			r.iterate(where)
		case "checkall":
			r.checkRoot(where)
			r.checkAll(keys, where)
		}
		if i%8 == 0 {
			sh := reftrie.ShapeOf(r.model)
			if sh.Embedded > 0 {
				c.Count("embedded_node_present")
			}
			if sh.BranchValues > 0 || hasLivePrefixKey(r.model) {
				c.Count("prefix_key_live")
			}
		}
	}
}

func newRunner(c *fw.Ctx, secure bool) *runner {
	disk := aquadb.NewMemDatabase()
	r := &runner{c: c, secure: secure, disk: disk, tdb: trie.NewDatabase(disk), model: map[string][]byte{}}
	if err := r.open(common.Hash{}); err != nil {
		panic(err)
	}
	return r
}

func liveCount(m map[string][]byte) int {
	n := 0
	for _, v := range m {
		if len(v) > 0 {
			n++
		}
	}
	return n
}

func run(c *fw.Ctx) {
	switch c.Leg {
	case "hist":
		runHist(c)
	case "proof":
		runProof(c)
	case "derive":
		runDerive(c)
	}
}

func runHist(c *fw.Ctx) {
	n := c.Pick(190, 9400) // per batch; x16 batches
	kinds := []string{"varlen", "hashed", "varlen", "secure"}
	for i := 0; i < n; i++ {
		r := c.Rand("hist", fmt.Sprint(i))
		kind := kinds[i%len(kinds)]
		h, keys := genHistory(r, kind, r.Range(40, 120))
		id := fmt.Sprintf("hist-%d", i)
		c.Case(id, h, func() {
			rn := newRunner(c, kind == "secure")
			if kind == "secure" {
				c.Count("secure_trie_history")
			}
			rn.exec(h, keys)
			if rn.deletedPresent && rn.reopened && liveCount(rn.model) >= 2 {
				c.Nontrivial(fmt.Sprint(h))
			}
			if i < 2 {
				c.Sample(map[string]interface{}{"case": id, "kind": kind, "first_ops": h.Ops[:12], "n_ops": len(h.Ops), "final_keys": liveCount(rn.model)})
			}
		})
	}
}

// --- proofs ---------------------------------------------------------------

type blobList struct{ blobs [][]byte }

func (b *blobList) Put(key, value []byte) error {
	b.blobs = append(b.blobs, append([]byte{}, value...))
	return nil
}

// verifierDB is what a verifier builds from received blobs: each indexed by
// the hash the verifier computes itself.
type verifierDB map[string][]byte

func (v verifierDB) Get(key []byte) ([]byte, error) {
	if b, ok := v[string(key)]; ok {
		return b, nil
	}
	return nil, fmt.Errorf("not found")
}
func (v verifierDB) Has(key []byte) (bool, error) { _, ok := v[string(key)]; return ok, nil }

func mkVerifier(blobs [][]byte) verifierDB {
	v := verifierDB{}
	for _, b := range blobs {
		v[string(refhash.Keccak256(b))] = b
	}
	return v
}

func runProof(c *fw.Ctx) {
	n := c.Pick(20, 1250)
	kinds := []string{"varlen", "hashed", "secure"}
	for i := 0; i < n; i++ {
		r := c.Rand("proof", fmt.Sprint(i))
		kind := kinds[i%len(kinds)]
		h, keys := genHistory(r, kind, r.Range(30, 80))
		id := fmt.Sprintf("proof-%d", i)
		c.Case(id, h, func() {
			rn := newRunner(c, kind == "secure")
			rn.exec(h, keys)
			root := rn.checkRoot("final")
			// keys never inserted as well
			probe := append([][]byte{}, keys...)
			for j := 0; j < 4; j++ {
				probe = append(probe, r.Bytes(r.Range(0, 33)))
			}
			mut := 0
			if liveCount(rn.model) == 0 {
				// an empty trie has no node at all: Prove emits nothing and there is
				// nothing to verify against (absence is known from the root alone);
				// excluded from the proof oracle, counted so the evidence shows it
				c.Count("proof_skipped_empty_trie")
				return
			}
			for _, k := range probe {
				vk := k // key as the verifier uses it
				if rn.secure {
					vk = refhash.Keccak256(k)
				}
				want := rn.model[string(vk)]
				var bl blobList
				// SecureTrie.Prove takes the key as stored (already hashed), as its
				// callers in the node do
				if err := rn.tr.Prove(vk, 0, &bl); err != nil {
					c.Violate("prove_error", "Prove", "", fmt.Sprintf("key %x: %v", k, err))
					continue
				}
				val, err, _ := trie.VerifyProof(root, vk, mkVerifier(bl.blobs))
				if err != nil || !bytes.Equal(val, want) {
					c.Violate("valid_proof_rejected_or_wrong", "VerifyProof", presence(want), fmt.Sprintf("key %x: got (%x, %v), model value %x, %d blobs", vk, val, err, want, len(bl.blobs)))
					continue
				}
				if len(want) > 0 {
					c.Count("proof_verified")
				} else {
					c.Count("proof_absent_verified")
				}
				check := func(kindm string, blobs [][]byte) {
					mut++
					v, e, _ := trie.VerifyProof(root, vk, mkVerifier(blobs))
					if e == nil && !bytes.Equal(v, want) {
						c.Violate("altered_proof_verifies_to_other_value", "VerifyProof", kindm, fmt.Sprintf("key %x: altered proof (%s) verified to %x, true value %x", vk, kindm, v, want))
					}
				}
				for bi, b := range bl.blobs {
					for pos := range b {
						for _, m := range []func(byte) byte{func(x byte) byte { return x ^ 0x01 }, func(x byte) byte { return x ^ 0x80 }, func(x byte) byte { return x + 1 }} {
							nb := append([]byte{}, b...)
							nb[pos] = m(nb[pos])
							blobs := append([][]byte{}, bl.blobs...)
							blobs[bi] = nb
							check("byte", blobs)
						}
					}
					// drop / duplicate / truncate
					check("drop", append(append([][]byte{}, bl.blobs[:bi]...), bl.blobs[bi+1:]...))
					check("dup", append(append([][]byte{}, bl.blobs...), b))
					if len(b) > 1 {
						blobs := append([][]byte{}, bl.blobs...)
						blobs[bi] = b[:len(b)-1]
						check("truncate", blobs)
					}
				}
				if len(bl.blobs) > 1 {
					rev := make([][]byte, len(bl.blobs))
					for x := range bl.blobs {
						rev[len(rev)-1-x] = bl.blobs[x]
					}
					check("reorder", rev)
				}
				// proof for another key presented for this key
				other := probe[r.Intn(len(probe))]
				if rn.secure {
					other = refhash.Keccak256(other)
				}
				var bl2 blobList
				if rn.tr.Prove(other, 0, &bl2) == nil {
					check("other_key_proof", bl2.blobs)
				}
			}
			c.CountN("proof_mutations", mut)
			if liveCount(rn.model) >= 2 {
				c.Nontrivial(fmt.Sprint(h))
			}
			if i == 0 {
				c.Sample(map[string]interface{}{"case": id, "kind": kind, "keys_probed": len(probe), "mutated_proofs": mut, "root": hx(root[:])})
			}
		})
	}
}

func presence(v []byte) string {
	if len(v) > 0 {
		return "present"
	}
	return "absent"
}

// --- DeriveSha --------------------------------------------------------------

type rawList [][]byte

func (l rawList) Len() int           { return len(l) }
func (l rawList) GetRlp(i int) []byte { return l[i] }

func runDerive(c *fw.Ctx) {
	n := c.Pick(60, 3000)
	for i := 0; i < n; i++ {
		r := c.Rand("derive", fmt.Sprint(i))
		var cnt int
		switch r.Intn(5) {
		case 0:
			cnt = r.Range(0, 3)
		case 1:
			cnt = r.Range(120, 140) // crosses the 0x7f/0x80 index-encoding boundary
		case 2:
			cnt = r.Range(250, 270) // crosses the two-byte index boundary
		default:
			cnt = r.Range(1, 60)
		}
		l := make(rawList, cnt)
		for j := range l {
			l[j] = r.Bytes(r.Range(1, 120))
		}
		id := fmt.Sprintf("derive-%d", i)
		c.Case(id, map[string]interface{}{"len": cnt, "seed_case": i}, func() {
			m := map[string][]byte{}
			for j := range l {
				k := refrlp.Encode(refrlp.U(uint64(j)))
				m[string(k)] = l[j]
			}
			got := types.DeriveSha(l)
			want := reftrie.Root(m)
			c.Count("derive_sha_compared")
			if !bytes.Equal(got[:], want) {
				c.Violate("root_not_function_of_content", "DeriveSha", "", fmt.Sprintf("DeriveSha %x reference %x for %d items", got, want, cnt))
			}
			if cnt >= 2 {
				c.Nontrivial(fmt.Sprintf("derive %d %x", cnt, want))
			}
		})
	}
}
