package c09

import (
	"encoding/hex"
	"encoding/json"
	"fmt"
	"math/big"

	"verif/internal/fw"
)

// op is one generated state operation. A/S are indices into the case's address
// and slot universes.
type op struct {
	K string `json:"k"`
	A int    `json:"a"`
	S int    `json:"s,omitempty"`
	V string `json:"v,omitempty"` // hex: amount / code / 32-byte value / log data
	U uint64 `json:"u,omitempty"` // nonce / refund
	N int    `json:"n,omitempty"` // revert target (index in the live snapshot stack), topic count, tx index, copy side
	D bool   `json:"d,omitempty"` // delete-empty flag of finalise / iroot / commit
	M string `json:"m,omitempty"` // how the case continues after commit: same | fresh | copy | reset
}

// MarshalJSON writes the operation compactly (kind:address:slot:value:u:n:flag:mode).
func (o op) MarshalJSON() ([]byte, error) {
	d := 0
	if o.D {
		d = 1
	}
	return json.Marshal(fmt.Sprintf("%s:%d:%d:%s:%d:%d:%d:%s", o.K, o.A, o.S, o.V, o.U, o.N, d, o.M))
}

func (o *op) big() *big.Int {
	if o.V == "" {
		return new(big.Int)
	}
	return new(big.Int).SetBytes(unhx(o.V))
}

type caseInput struct {
	Addrs  []string `json:"addrs"`
	Slots  []string `json:"slots"`
	Mode   string   `json:"mode"`   // how often reads are compared: dense | medium | sparse
	Policy string   `json:"policy"` // delete-empty flag: false | true | mixed
	Tmpl   string   `json:"tmpl"`
	Ops    []op     `json:"ops"`
}

func hx(b []byte) string { return hex.EncodeToString(b) }
func unhx(s string) []byte {
	b, _ := hex.DecodeString(s)
	return b
}

// template schedule by case index (every class required by the gate is forced)
var templates = []string{"none", "revert_suicide_recreated", "block", "nested", "touch_revert_write", "copy", "suicide_recreate", "block", "revert_suicide_recreated2", "none",
	"shared_code", "nested", "block", "copy", "touch_revert_write_late", "revert_suicide_recreated", "revert_to_cleared_slot", "reopen_twin", "copy", "revert_to_cleared_slot"}

type gen struct {
	r  *fw.Rand
	cs *caseInput
	g  *model // generation-time model: only used to pick applicable parameters
}

func (g *gen) emit(o op) {
	g.cs.Ops = append(g.cs.Ops, o)
	g.g.apply(&g.cs.Ops[len(g.cs.Ops)-1], g.cs, nil)
}

func (g *gen) flag() bool {
	switch g.cs.Policy {
	case "true":
		return true
	case "mixed":
		return g.r.Bool()
	}
	return false
}

func (g *gen) amount() string {
	r := g.r
	switch r.Intn(6) {
	case 0:
		return hx([]byte{byte(r.Range(1, 255))})
	case 1:
		return hx(r.Bytes(r.Range(2, 8)))
	case 2:
		b := r.Bytes(9)
		b[0] |= 1
		return hx(b)
	case 3:
		b := r.Bytes(r.Range(16, 24))
		b[0] |= 0x80
		return hx(b)
	case 4:
		return hx([]byte{0x80})
	default:
		return hx([]byte{byte(r.Range(1, 127))})
	}
}

func (g *gen) nonce() uint64 {
	r := g.r
	switch r.Intn(7) {
	case 0:
		return 0
	case 1:
		return 1
	case 2:
		return uint64(r.Range(2, 127))
	case 3:
		return 128
	case 4:
		return 1 << 32
	case 5:
		return ^uint64(0)
	default:
		return uint64(r.Range(255, 70000))
	}
}

var codePool = [][]byte{
	{},
	{0x00},
	{0x60, 0x00, 0x60, 0x00, 0xf3},
	[]byte("\x60\x01\x60\x02\x01\x60\x00\x55\x00-thirty-three-bytes-of-code-----"),
}

func (g *gen) code() string {
	r := g.r
	if r.Chance(1, 5) {
		return hx(r.Bytes(r.Range(1, 120)))
	}
	return hx(codePool[r.Intn(len(codePool))])
}

func (g *gen) val32() string {
	r := g.r
	v := make([]byte, 32)
	switch r.Intn(8) {
	case 0, 1:
		// zero: clears the slot
	case 2:
		v[31] = byte(r.Range(1, 0x7f))
	case 3:
		v[31] = 0x80
	case 4:
		copy(v[16:], r.Bytes(16))
		v[16] |= 1
	case 5:
		copy(v, r.Bytes(32))
		v[0] |= 0x80
	case 6:
		v[0] = 0x01 // trailing zeros only
	default:
		copy(v[32-r.Range(1, 31):], r.Bytes(31))
	}
	return hx(v)
}

func (g *gen) addr() int { return g.r.Intn(len(g.cs.Addrs)) }
func (g *gen) slot() int { return g.r.Intn(len(g.cs.Slots)) }

// existing returns an address that exists in the generation-time model (or any).
func (g *gen) existing(nonEmpty bool) int {
	var c []int
	for a := range g.cs.Addrs {
		if x := g.g.w.acc[a]; x != nil && !x.suicided && (!nonEmpty || !x.empty()) {
			c = append(c, a)
		}
	}
	if len(c) == 0 {
		return g.addr()
	}
	return c[g.r.Intn(len(c))]
}

// write emits a random content-changing operation on address a.
func (g *gen) write(a int) {
	r := g.r
	switch r.Intn(6) {
	case 0:
		g.emit(op{K: "setbal", A: a, V: g.amount()})
	case 1:
		g.emit(op{K: "addbal", A: a, V: g.amount()})
	case 2:
		g.emit(op{K: "setnonce", A: a, U: g.nonce()})
	case 3:
		g.emit(op{K: "setcode", A: a, V: g.code()})
	default:
		g.emit(op{K: "setstate", A: a, S: g.slot(), V: g.val32()})
	}
}

func (g *gen) subbal(a int) {
	x := g.g.w.acc[a]
	if x == nil || x.bal.Sign() == 0 {
		g.emit(op{K: "subzero", A: a})
		return
	}
	// a part (or all) of the balance
	v := new(big.Int).Set(x.bal)
	switch g.r.Intn(3) {
	case 0:
	case 1:
		v.Rsh(v, uint(g.r.Range(1, 8)))
	default:
		v.SetInt64(1)
	}
	if v.Sign() == 0 || v.Cmp(x.bal) > 0 {
		v.Set(x.bal)
	}
	g.emit(op{K: "subbal", A: a, V: hx(v.Bytes())})
}

func (g *gen) reopenMode() string {
	return []string{"same", "fresh", "copy", "reset", "fresh", "same"}[g.r.Intn(6)]
}

func (g *gen) randomOp() {
	r := g.r
	a := g.addr()
	switch x := r.Intn(100); {
	case x < 8:
		g.emit(op{K: "setbal", A: a, V: g.amount()})
	case x < 15:
		g.emit(op{K: "addbal", A: a, V: g.amount()})
	case x < 21:
		g.subbal(a)
	case x < 28:
		g.emit(op{K: "touch", A: a})
	case x < 30:
		g.emit(op{K: "subzero", A: a})
	case x < 35:
		g.emit(op{K: "setnonce", A: a, U: g.nonce()})
	case x < 40:
		g.emit(op{K: "setcode", A: a, V: g.code()})
	case x < 52:
		g.emit(op{K: "setstate", A: a, S: g.slot(), V: g.val32()})
	case x < 58:
		g.emit(op{K: "suicide", A: a})
	case x < 63:
		g.emit(op{K: "create", A: a})
	case x < 66:
		g.emit(op{K: "log", A: a, N: r.Intn(5), V: hx(r.Bytes(r.Intn(40)))})
	case x < 69:
		g.emit(op{K: "refund", U: uint64(r.Range(1, 30000))})
	case x < 70:
		g.emit(op{K: "preimage", V: hx(r.Bytes(r.Range(1, 40)))})
	case x < 72:
		g.emit(op{K: "prepare", N: r.Intn(4)})
	case x < 81:
		g.emit(op{K: "snap"})
	case x < 89:
		if n := len(g.g.snaps); n > 0 {
			g.emit(op{K: "revert", N: r.Intn(n)})
		} else {
			g.emit(op{K: "snap"})
		}
	case x < 91:
		g.emit(op{K: "finalise", D: g.flag()})
	case x < 94:
		g.emit(op{K: "iroot", D: g.flag()})
	case x < 96:
		g.emit(op{K: "commit", D: g.flag(), M: g.reopenMode()})
	case x < 98:
		g.emit(op{K: "copy", N: r.Intn(2)})
	default:
		g.emit(op{K: "check"})
	}
}

// prelude builds the initial committed state: a contract with storage, an
// externally owned account, an empty-but-existing account, a code-only account,
// a funded precompile-range address; one address stays absent.
func (g *gen) prelude() {
	r := g.r
	// address roles: 0 precompile-range, 1 contract, 2 EOA, 3 empty-but-existing, 4 code-only, 5 absent
	type step func()
	steps := []step{
		func() { g.emit(op{K: "addbal", A: 0, V: g.amount()}) },
		func() { g.emit(op{K: "setbal", A: 1, V: g.amount()}) },
		func() { g.emit(op{K: "setnonce", A: 1, U: 1}) },
		func() { g.emit(op{K: "setcode", A: 1, V: hx(codePool[3])}) },
		func() { g.emit(op{K: "setstate", A: 1, S: 0, V: g.nonzero32()}) },
		func() { g.emit(op{K: "setstate", A: 1, S: 1, V: g.nonzero32()}) },
		func() { g.emit(op{K: "addbal", A: 2, V: g.amount()}) },
		func() { g.emit(op{K: "setnonce", A: 2, U: g.nonce() | 1}) },
		func() { g.emit(op{K: "create", A: 3}) },
		func() { g.emit(op{K: "setcode", A: 4, V: hx(codePool[2])}) },
	}
	if r.Chance(1, 3) {
		steps = append(steps, func() { g.emit(op{K: "setstate", A: 4, S: 2, V: g.nonzero32()}) })
	}
	for _, i := range r.Perm(len(steps)) {
		steps[i]()
		if r.Chance(1, 6) {
			g.emit(op{K: "iroot", D: false})
		}
	}
	g.emit(op{K: "commit", D: false, M: g.reopenMode()})
}

func (g *gen) nonzero32() string {
	for {
		v := g.val32()
		if v != hx(make([]byte, 32)) {
			return v
		}
	}
}

// template emits the forced instance of the case's template.
func (g *gen) template() {
	r := g.r
	switch g.cs.Tmpl {
	case "revert_suicide_recreated":
		// an existing account is created anew, then destroyed under a snapshot that is reverted
		x := g.existing(true)
		g.emit(op{K: "create", A: x})
		if r.Bool() {
			g.write(x)
		}
		g.emit(op{K: "snap"})
		k := len(g.g.snaps) - 1
		if r.Bool() {
			g.emit(op{K: "snap"})
		}
		g.emit(op{K: "suicide", A: x})
		if r.Bool() {
			g.write(g.addr())
		}
		if r.Chance(1, 3) {
			g.emit(op{K: "create", A: x}) // created again over the destroyed one
		}
		g.emit(op{K: "revert", N: k})
		g.emit(op{K: "check"})
		g.emit(op{K: "iroot", D: g.flag()})
	case "revert_suicide_recreated2":
		// destroyed, removed by a finalise, re-created by a transfer, destroyed again under a reverted snapshot
		x := g.existing(true)
		g.emit(op{K: "suicide", A: x})
		g.emit(op{K: "iroot", D: g.flag()})
		g.emit(op{K: "addbal", A: x, V: g.amount()})
		g.emit(op{K: "setstate", A: x, S: g.slot(), V: g.nonzero32()})
		g.emit(op{K: "snap"})
		k := len(g.g.snaps) - 1
		g.emit(op{K: "suicide", A: x})
		if r.Bool() {
			g.emit(op{K: "setbal", A: x, V: g.amount()})
		}
		g.emit(op{K: "revert", N: k})
		g.emit(op{K: "check"})
		g.emit(op{K: "iroot", D: g.flag()})
	case "touch_revert_write", "touch_revert_write_late":
		// an empty account that exists in the committed state is credited zero under a
		// snapshot that is reverted, then written in the same finalise period
		x := 3
		if y := g.g.w.acc[x]; y == nil || !y.empty() || g.g.maybeDirty[x] {
			// role 3 was disturbed: rebuild the situation through a commit
			g.emit(op{K: "create", A: x})
			g.emit(op{K: "commit", D: false, M: "fresh"})
		}
		if r.Bool() {
			g.write(1)
		}
		g.emit(op{K: "snap"})
		k := len(g.g.snaps) - 1
		g.emit(op{K: "touch", A: x})
		if r.Bool() {
			g.write(2)
		}
		g.emit(op{K: "revert", N: k})
		if g.cs.Tmpl == "touch_revert_write_late" {
			g.emit(op{K: "finalise", D: false})
		}
		switch r.Intn(4) {
		case 0:
			g.emit(op{K: "setbal", A: x, V: g.amount()})
		case 1:
			g.emit(op{K: "setnonce", A: x, U: g.nonce() | 1})
		case 2:
			g.emit(op{K: "setstate", A: x, S: g.slot(), V: g.nonzero32()})
		default:
			g.emit(op{K: "addbal", A: x, V: g.amount()})
		}
		g.emit(op{K: "check"})
		g.emit(op{K: "iroot", D: g.flag()})
	case "nested":
		depth := r.Range(4, 7)
		base := len(g.g.snaps)
		for i := 0; i < depth; i++ {
			g.emit(op{K: "snap"})
			for j := r.Range(1, 3); j > 0; j-- {
				switch r.Intn(5) {
				case 0:
					g.emit(op{K: "suicide", A: g.existing(false)})
				case 1:
					g.emit(op{K: "create", A: g.addr()})
				case 2:
					g.emit(op{K: "log", A: g.addr(), N: r.Intn(3), V: hx(r.Bytes(4))})
				case 3:
					g.emit(op{K: "refund", U: uint64(r.Range(1, 9000))})
				default:
					g.write(g.addr())
				}
			}
		}
		g.emit(op{K: "revert", N: base + r.Range(1, depth-2)})
		g.emit(op{K: "check"})
		g.write(g.addr())
		g.emit(op{K: "revert", N: base})
		g.emit(op{K: "check"})
	case "block":
		// what block processing does: per transaction prepare, snapshot, operations,
		// sometimes a revert, then finalise or intermediate root; commit at the end
		fl := g.flag()
		ntx := r.Range(2, 4)
		for tx := 0; tx < ntx; tx++ {
			g.emit(op{K: "prepare", N: tx})
			g.subbal(2)
			g.emit(op{K: "setnonce", A: 2, U: uint64(tx + 2)})
			g.emit(op{K: "snap"})
			k := len(g.g.snaps) - 1
			for j := r.Range(2, 6); j > 0; j-- {
				g.randomOpNoSync()
			}
			if r.Chance(1, 3) && len(g.g.snaps) > k {
				g.emit(op{K: "revert", N: k})
			}
			g.emit(op{K: "addbal", A: 0, V: "05"})
			if r.Bool() {
				g.emit(op{K: "finalise", D: fl})
			} else {
				g.emit(op{K: "iroot", D: fl})
			}
		}
		g.emit(op{K: "commit", D: fl, M: g.reopenMode()})
	case "copy":
		g.write(g.addr())
		g.emit(op{K: "snap"})
		g.write(g.existing(false))
		g.emit(op{K: "setstate", A: 1, S: g.slot(), V: g.val32()})
		g.emit(op{K: "copy", N: r.Intn(2)})
		g.emit(op{K: "setstate", A: 1, S: g.slot(), V: g.nonzero32()})
		g.write(g.addr())
		g.emit(op{K: "suicide", A: g.existing(false)})
		g.emit(op{K: "iroot", D: g.flag()})
	case "suicide_recreate":
		x := 1
		g.emit(op{K: "suicide", A: x})
		if r.Bool() {
			g.emit(op{K: "setstate", A: x, S: g.slot(), V: g.nonzero32()})
		}
		g.emit(op{K: "iroot", D: g.flag()})
		g.emit(op{K: "setstate", A: x, S: 2, V: g.nonzero32()})
		g.emit(op{K: "check"})
		g.emit(op{K: "commit", D: g.flag(), M: g.reopenMode()})
	case "revert_to_cleared_slot":
		// a slot that is non-zero in the storage trie (committed, or flushed by an
		// earlier Finalise) is cleared in the current period; a later write to it
		// under a snapshot is reverted: the pending clear must be back
		x, sl := 1, g.slot()
		if y := g.g.w.acc[x]; y != nil && y.suicided {
			g.emit(op{K: "iroot", D: g.flag()})
		}
		g.emit(op{K: "setnonce", A: x, U: 5})
		g.emit(op{K: "setstate", A: x, S: sl, V: g.nonzero32()})
		if r.Bool() {
			g.emit(op{K: "commit", D: g.flag(), M: g.reopenMode()})
		} else {
			g.emit(op{K: "iroot", D: g.flag()})
		}
		g.emit(op{K: "setstate", A: x, S: sl, V: hx(make([]byte, 32))})
		if r.Bool() {
			g.write(g.addr())
		}
		g.emit(op{K: "snap"})
		k := len(g.g.snaps) - 1
		g.emit(op{K: "setstate", A: x, S: sl, V: g.nonzero32()})
		if r.Bool() {
			g.emit(op{K: "setstate", A: x, S: sl, V: g.val32()})
		}
		g.emit(op{K: "revert", N: k})
		g.emit(op{K: "check"})
		g.emit(op{K: "iroot", D: g.flag()})
		g.emit(op{K: "commit", D: g.flag(), M: g.reopenMode()})
	case "reopen_twin":
		// commit and continue on a handle opened from the same caching database
		// while a second, unread handle on the same root stays alive
		fl := g.flag()
		g.emit(op{K: "commit", D: fl, M: []string{"same", "reset"}[r.Intn(2)]})
		g.write(1)
		g.write(2)
		g.emit(op{K: "addbal", A: 5, V: g.amount()})
		g.emit(op{K: "suicide", A: 4})
		g.emit(op{K: "iroot", D: fl})
		g.write(g.addr())
		g.emit(op{K: "commit", D: fl, M: "fresh"})
	case "shared_code":
		code := hx(r.Bytes(r.Range(40, 90)))
		g.emit(op{K: "setcode", A: 2, V: code})
		g.emit(op{K: "setcode", A: 5, V: code})
		g.emit(op{K: "commit", D: g.flag(), M: "fresh"})
		g.emit(op{K: "suicide", A: 2})
		g.emit(op{K: "commit", D: g.flag(), M: g.reopenMode()})
	}
}

// randomOpNoSync: a random operation that is not finalise/commit/copy.
func (g *gen) randomOpNoSync() {
	for {
		n := len(g.cs.Ops)
		save := g.g.clone()
		g.randomOp()
		switch g.cs.Ops[n].K {
		case "finalise", "iroot", "commit", "copy":
			g.cs.Ops = g.cs.Ops[:n]
			g.g = save
			continue
		}
		return
	}
}

func genCase(r *fw.Rand, idx int) *caseInput {
	cs := &caseInput{}
	// universe: one precompile-range address (not 0x03: the revert of a touch of
	// 0x03 is deliberately special-cased by the code), five generated ones
	pre := make([]byte, 20)
	pre[19] = []byte{1, 2, 4, 5, 6, 7, 8, 9}[r.Intn(8)]
	cs.Addrs = append(cs.Addrs, hx(pre))
	for i := 0; i < 5; i++ {
		cs.Addrs = append(cs.Addrs, hx(r.Bytes(20)))
	}
	s0 := make([]byte, 32)
	s1 := make([]byte, 32)
	s1[31] = 1
	cs.Slots = []string{hx(s0), hx(s1), hx(r.Bytes(32))}
	if r.Bool() {
		cs.Slots = append(cs.Slots, hx(bytesOf(0xff, 32)))
	}
	cs.Mode = []string{"dense", "medium", "sparse", "medium"}[r.Intn(4)]
	switch x := r.Intn(20); {
	case x < 8:
		cs.Policy = "false"
	case x < 18:
		cs.Policy = "true"
	default:
		cs.Policy = "mixed"
	}
	cs.Tmpl = templates[idx%len(templates)]
	g := &gen{r: r, cs: cs, g: newModel()}
	g.prelude()
	n := r.Range(30, 100)
	at := r.Intn(n)
	if cs.Tmpl == "touch_revert_write" || cs.Tmpl == "touch_revert_write_late" {
		at = r.Intn(4)
	}
	for i := 0; i < n; i++ {
		if i == at {
			g.template()
		}
		g.randomOp()
	}
	g.emit(op{K: "iroot", D: g.flag()})
	g.emit(op{K: "commit", D: g.flag(), M: "fresh"})
	g.emit(op{K: "check"})
	return cs
}

func bytesOf(b byte, n int) []byte {
	out := make([]byte, n)
	for i := range out {
		out[i] = b
	}
	return out
}
