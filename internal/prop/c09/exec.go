package c09

import (
	"bytes"
	"fmt"
	"math/big"
	"sort"

	"gitlab.com/aquachain/aquachain/aquadb"
	"gitlab.com/aquachain/aquachain/common"
	"gitlab.com/aquachain/aquachain/core/state"
	"gitlab.com/aquachain/aquachain/core/types"
	"verif/internal/fw"
	"verif/internal/ref/refhash"
	"verif/internal/ref/refrlp"
	"verif/internal/ref/reftrie"
)

type frozen struct {
	st    *state.StateDB
	m     *model
	label string // which side of a Copy was set aside, or "twin"
	fresh bool   // set aside by the operation in progress: not to be read yet
}

type committed struct {
	root common.Hash
	w    *world
	sdb  state.Database // the caching database the root was committed into
	lab  *model         // cause labels as they were at the commit
}

type runner struct {
	c      *fw.Ctx
	cs     *caseInput
	addrs  []common.Address
	slots  []common.Hash
	disk   *aquadb.MemDatabase
	sdb    state.Database
	st     *state.StateDB
	m      *model
	ids    []int // real revision ids, parallel to m.snaps
	frozen []frozen
	roots  []committed
	failed bool
	step   int
	pre    []state.VerifC09Object // bookkeeping before the current sync operation (labels only)
	// case-level facts for the non-triviality rule
	sawRevertChange, sawMidFinalise, sawReopen bool
	bhash                                      common.Hash
}

func txHash(n int) common.Hash {
	if n < 0 {
		return common.Hash{}
	}
	return common.BytesToHash(refhash.Keccak256([]byte{'t', 'x', byte(n)}))
}

func newRunner(c *fw.Ctx, cs *caseInput) *runner {
	r := &runner{c: c, cs: cs, m: newModel()}
	for _, a := range cs.Addrs {
		r.addrs = append(r.addrs, common.BytesToAddress(unhx(a)))
	}
	for _, s := range cs.Slots {
		r.slots = append(r.slots, common.BytesToHash(unhx(s)))
	}
	r.disk = aquadb.NewMemDatabase()
	r.sdb = state.NewDatabase(r.disk)
	st, err := state.New(common.Hash{}, r.sdb)
	if err != nil {
		panic(err)
	}
	r.st = st
	r.bhash = common.BytesToHash(refhash.Keccak256([]byte("block")))
	return r
}

func (r *runner) violate(clause, opk, cause, detail string) {
	r.failed = true
	r.c.Violate(clause, opk, cause, fmt.Sprintf("step %d: %s", r.step, detail))
}

func classify(i state.VerifC09Object) string {
	switch {
	case !i.Cached:
		return "object_not_cached"
	case i.Deleted && i.Dirty:
		return "deleted_object_still_dirty"
	case i.Deleted:
		return "deleted_object"
	case !i.Dirty && !i.HasDirtyHook:
		return "object_modified_but_not_dirty"
	case i.Dirty:
		return "object_dirty"
	}
	return "object_clean"
}

func (r *runner) infos(st *state.StateDB) []state.VerifC09Object {
	out := make([]state.VerifC09Object, len(r.addrs))
	for a := range r.addrs {
		out[a] = st.VerifC09ObjectInfo(r.addrs[a])
	}
	return out
}

// diag labels the write-back bookkeeping of one address (hook, read-only). It
// only refines the cause string of a violation found through the public API.
// When r.pre is set (the bookkeeping as it was just before a Finalise / Commit /
// Copy) that is what is reported: those operations consume it.
func (r *runner) diag(st *state.StateDB, m *model, a int) string {
	var s string
	if r.pre != nil {
		s = classify(r.pre[a])
	} else {
		s = classify(st.VerifC09ObjectInfo(r.addrs[a]))
	}
	if m != nil && (m.poison[a] || m.poisonSticky[a]) {
		s += ":poisoned_by_reverted_touch"
	}
	if m != nil && m.rewritten[a] {
		s += ":rewritten_after_deletion"
	}
	return s
}

// noteRewritten labels the addresses whose removed-as-empty object is still in
// the dirty set when a Finalise/Commit without the deletion flag runs.
func (r *runner) noteRewritten(m *model, del bool) {
	if del {
		return
	}
	for a, i := range r.pre {
		if i.Cached && i.Deleted && i.Dirty && !i.Suicided {
			m.rewritten[a] = true
		}
	}
}

// refreshPoison records which cached objects currently cannot mark themselves
// dirty any more (labels only).
func (r *runner) refreshPoison() {
	for a := range r.addrs {
		i := r.st.VerifC09ObjectInfo(r.addrs[a])
		r.m.poison[a] = i.Cached && !i.Deleted && !i.Dirty && !i.HasDirtyHook
	}
}

// checkAddr compares every getter of one address with the model.
func (r *runner) checkAddr(st *state.StateDB, m *model, a int, clause, opk string) bool {
	w := m.w
	ad := r.addrs[a]
	x := w.acc[a]
	bad := func(field, detail string) bool {
		r.violate(clause, opk, field+":"+r.diag(st, m, a), fmt.Sprintf("address #%d %x: %s", a, ad, detail))
		return false
	}
	if got := st.Exist(ad); got != (x != nil) {
		return bad("exist", fmt.Sprintf("Exist = %v, model %v", got, x != nil))
	}
	if x == nil {
		x = newAcct()
		if got := st.GetCodeHash(ad); got != (common.Hash{}) {
			return bad("codehash", fmt.Sprintf("GetCodeHash of an absent account = %x", got))
		}
	} else if got := st.GetCodeHash(ad); !bytes.Equal(got[:], refhash.Keccak256(x.code)) {
		return bad("codehash", fmt.Sprintf("GetCodeHash = %x, model %x", got, refhash.Keccak256(x.code)))
	}
	if got := st.Empty(ad); got != x.empty() {
		return bad("empty", fmt.Sprintf("Empty = %v, model %v", got, x.empty()))
	}
	if got := st.GetBalance(ad); got.Cmp(x.bal) != 0 {
		return bad("balance", fmt.Sprintf("GetBalance = %v, model %v", got, x.bal))
	}
	if got := st.GetNonce(ad); got != x.nonce {
		return bad("nonce", fmt.Sprintf("GetNonce = %d, model %d", got, x.nonce))
	}
	if got := st.GetCode(ad); !bytes.Equal(got, x.code) {
		return bad("code", fmt.Sprintf("GetCode = %x, model %x", got, x.code))
	}
	if len(x.code) > 0 {
		if got := st.GetCodeSize(ad); got != len(x.code) {
			return bad("codesize", fmt.Sprintf("GetCodeSize = %d, model %d", got, len(x.code)))
		}
	}
	if got := st.HasSuicided(ad); got != x.suicided {
		return bad("suicided", fmt.Sprintf("HasSuicided = %v, model %v", got, x.suicided))
	}
	for s, sl := range r.slots {
		want := x.stor[s]
		if got := st.GetState(ad, sl); got != common.Hash(want) {
			return bad("storage", fmt.Sprintf("GetState(slot #%d) = %x, model %x", s, got, want))
		}
	}
	r.c.Count("account_reads_compared")
	return true
}

func (r *runner) checkMisc(st *state.StateDB, m *model, clause, opk string) bool {
	w := m.w
	if got := st.GetRefund(); got != w.refund {
		r.violate(clause, opk, "refund", fmt.Sprintf("GetRefund = %d, model %d", got, w.refund))
		return false
	}
	byTx := map[int][]mlog{}
	for _, l := range w.logs {
		byTx[l.tx] = append(byTx[l.tx], l)
	}
	for tx := -1; tx < 4; tx++ {
		got := st.GetLogs(txHash(tx))
		want := byTx[tx]
		if len(got) != len(want) {
			r.violate(clause, opk, "logs", fmt.Sprintf("GetLogs(tx %d) has %d logs, model %d", tx, len(got), len(want)))
			return false
		}
		for i, l := range want {
			g := got[i]
			ok := g.Address == r.addrs[l.a] && bytes.Equal(g.Data, l.data) && len(g.Topics) == len(l.topics) &&
				g.Index == l.index && g.TxHash == txHash(l.tx) && (l.tx < 0 || g.TxIndex == uint(l.tx))
			for j := 0; ok && j < len(l.topics); j++ {
				ok = g.Topics[j] == common.Hash(l.topics[j])
			}
			if !ok {
				r.violate(clause, opk, "logs", fmt.Sprintf("GetLogs(tx %d)[%d] = {addr %x topics %d data %x index %d}, model {addr #%d topics %d data %x index %d}", tx, i, g.Address, len(g.Topics), g.Data, g.Index, l.a, len(l.topics), l.data, l.index))
				return false
			}
		}
	}
	if got := len(st.Logs()); got != len(w.logs) {
		r.violate(clause, opk, "logs", fmt.Sprintf("Logs() has %d entries, model %d", got, len(w.logs)))
		return false
	}
	return true
}

func (r *runner) checkAll(st *state.StateDB, m *model, clause, opk string) bool {
	for a := range r.addrs {
		if !r.checkAddr(st, m, a, clause, opk) {
			return false
		}
	}
	return r.checkMisc(st, m, clause, opk)
}

// rootCause names the first account whose trie leaf differs from the model
// (hook, read-only) so that a root mismatch gets a precise cause.
func (r *runner) rootCause(st *state.StateDB, m *model) (string, string) {
	for a := range r.addrs {
		leaf, err := st.VerifC09AccountLeaf(r.addrs[a])
		if err != nil {
			return "leaf_unreadable", err.Error()
		}
		x := m.w.acc[a]
		switch {
		case x == nil && len(leaf) == 0:
			continue
		case x == nil:
			return "leaf_present_model_absent:" + r.diag(st, m, a), fmt.Sprintf("address #%d has leaf %x, model has no account", a, leaf)
		case len(leaf) == 0:
			return "leaf_absent_model_present:" + r.diag(st, m, a), fmt.Sprintf("address #%d has no leaf, model %s", a, descr(x))
		}
		want := acctLeaf(x, r.cs)
		if bytes.Equal(leaf, want) {
			continue
		}
		field := "encoding"
		if it, err := refrlp.Decode(leaf); err == nil && it.IsList && len(it.List) == 4 {
			wi, _ := refrlp.Decode(want)
			for i, f := range []string{"nonce", "balance", "storage_root", "code_hash"} {
				if !bytes.Equal(it.List[i].Str, wi.List[i].Str) {
					field = f
					break
				}
			}
		}
		return "stale_leaf_" + field + ":" + r.diag(st, m, a), fmt.Sprintf("address #%d leaf %x, model leaf %x (%s)", a, leaf, want, descr(x))
	}
	return "no_leaf_differs", ""
}

func descr(x *macct) string {
	return fmt.Sprintf("{nonce %d balance %v code %dB slots %d suicided %v}", x.nonce, x.bal, len(x.code), len(x.stor), x.suicided)
}

func (r *runner) checkRoot(st *state.StateDB, m *model, got common.Hash, opk string) bool {
	want := refRoot(m.w, r.cs)
	r.c.Count("root_compared")
	if !bytes.Equal(got[:], want) {
		cause, det := r.rootCause(st, m)
		r.violate("root_not_function_of_content", opk, cause, fmt.Sprintf("real root %x, reference root %x over %d accounts; %s", got, want, len(m.w.acc), det))
		return false
	}
	return true
}

// finaliseModel applies the model's finalise after the real one ran, adopting the
// real answer where the property text leaves the removal of an empty account open.
func (r *runner) finaliseModel(st *state.StateDB, m *model, o *op) events {
	ev := m.apply(o, r.cs, func(a int) bool { return st.Exist(r.addrs[a]) })
	for range ev.ambiguous {
		r.c.Count("obs_empty_account_fate_adopted")
	}
	r.c.CountN("empty_account_deleted_by_finalise", ev.deletedEmpty)
	r.c.CountN("suicided_account_deleted_by_finalise", ev.deletedSuicided)
	return ev
}

func (r *runner) expectedDump(w *world) map[string]state.DumpAccount {
	out := map[string]state.DumpAccount{}
	for a, x := range w.acc {
		d := state.DumpAccount{
			Balance:  x.bal.String(),
			Nonce:    x.nonce,
			Root:     hx(storageRoot(x, r.cs)),
			CodeHash: hx(refhash.Keccak256(x.code)),
			Code:     hx(x.code),
			Storage:  map[string]string{},
		}
		for s, v := range x.stor {
			d.Storage[r.cs.Slots[s]] = hx(refrlp.Encode(refrlp.S(trimZeros(v[:]))))
		}
		out[r.cs.Addrs[a]] = d
	}
	return out
}

func (r *runner) checkDump(st *state.StateDB, w *world, rootWant []byte, opk string) bool {
	d := st.RawDump()
	want := r.expectedDump(w)
	r.c.Count("rawdump_compared")
	if d.Root != hx(rootWant) {
		r.violate("reopened_state_differs", opk, "dump_root", fmt.Sprintf("RawDump root %s, reference %x", d.Root, rootWant))
		return false
	}
	// an address or slot key whose hash preimage is not recorded comes back as "";
	// preimages are an index beside the state, not content: compared only when resolved
	unresolved := false
	if _, ok := d.Accounts[""]; ok {
		unresolved = true
	}
	for _, acc := range d.Accounts {
		if _, ok := acc.Storage[""]; ok {
			unresolved = true
		}
	}
	if unresolved {
		r.c.Count("obs_dump_key_preimage_missing")
		return true
	}
	if len(d.Accounts) != len(want) {
		r.violate("reopened_state_differs", opk, "dump_account_set", fmt.Sprintf("RawDump has %d accounts, model %d", len(d.Accounts), len(want)))
		return false
	}
	var keys []string
	for k := range want {
		keys = append(keys, k)
	}
	sort.Strings(keys)
	for _, k := range keys {
		g, ok := d.Accounts[k]
		wa := want[k]
		if !ok {
			r.violate("reopened_state_differs", opk, "dump_account_set", fmt.Sprintf("RawDump lacks account %s", k))
			return false
		}
		same := g.Balance == wa.Balance && g.Nonce == wa.Nonce && g.Root == wa.Root && g.CodeHash == wa.CodeHash && g.Code == wa.Code && len(g.Storage) == len(wa.Storage)
		for sk, sv := range wa.Storage {
			if g.Storage[sk] != sv {
				same = false
			}
		}
		if !same {
			r.violate("reopened_state_differs", opk, "dump_account_content", fmt.Sprintf("RawDump account %s = %+v, model %+v", k, g, wa))
			return false
		}
	}
	return true
}

// reopen continues the case on a state read back from the committed root. The
// reads are compared on the continuing handle, or (sparse mode) on a twin opened
// the same way, so that some cases continue with an object cache that no read
// has filled.
func (r *runner) reopen(root common.Hash, mode string) bool {
	old := r.st
	opk := "reopen_" + mode
	if mode == "copy" {
		opk = "copy_after_commit"
	}
	var open func() (*state.StateDB, error)
	switch mode {
	case "same":
		open = func() (*state.StateDB, error) { return state.New(root, r.sdb) }
	case "fresh":
		if err := r.sdb.TrieDB().Commit(root, false); err != nil {
			r.violate("reopened_state_differs", opk, "disk_commit_error", err.Error())
			return false
		}
		r.sdb = state.NewDatabase(r.disk)
		open = func() (*state.StateDB, error) { return state.New(root, r.sdb) }
	case "reset":
		first := true
		open = func() (*state.StateDB, error) {
			if first {
				first = false
				return old, old.Reset(root)
			}
			return state.New(root, r.sdb)
		}
	case "copy":
		open = func() (*state.StateDB, error) { return old.Copy(), nil }
	}
	st, err := open()
	if err != nil {
		r.violate("reopened_state_differs", opk, "open_error", err.Error())
		return false
	}
	r.st = st
	r.c.Count(opk)
	r.m.reopened(mode == "copy")
	r.ids = nil
	r.sawReopen = true
	if mode == "same" || mode == "reset" {
		// a second handle on the same root from the same caching database, left
		// unread and kept alive: whatever the continuing handle flushes later must
		// not show through it
		twin, err := state.New(root, r.sdb)
		if err != nil {
			r.violate("reopened_state_differs", opk, "open_error", err.Error())
			return false
		}
		tm := r.m.clone()
		tm.clearLabels()
		r.pushFrozen(frozen{st: twin, m: tm, label: "twin", fresh: true})
		r.c.Count("reopen_twin_kept_live")
	}
	vst := st
	if r.cs.Mode == "sparse" {
		if vst, err = open(); err != nil {
			r.violate("reopened_state_differs", opk, "open_error", err.Error())
			return false
		}
		r.c.Count("reopen_continued_on_unread_handle")
	}
	if !r.checkAll(vst, r.m, "reopened_state_differs", opk) {
		return false
	}
	if got := vst.IntermediateRoot(false); !bytes.Equal(got[:], root[:]) {
		r.violate("reopened_state_differs", opk, "root", fmt.Sprintf("root of the reopened state %x, committed root %x", got, root))
		return false
	}
	if !r.checkDump(vst, r.m.w, root[:], opk) {
		return false
	}
	r.m.clearLabels()
	if r.m.curTx >= 0 {
		r.st.Prepare(txHash(r.m.curTx), r.bhash, r.m.curTx)
	}
	return true
}

// exec runs the case; it stops at the first violation (model and real state
// have diverged, anything later would be noise).
func (r *runner) exec() {
	c := r.c
	for i := range r.cs.Ops {
		if r.failed {
			return
		}
		o := &r.cs.Ops[i]
		r.step = i
		ad := common.Address{}
		if o.A < len(r.addrs) {
			ad = r.addrs[o.A]
		}
		st := r.st
		switch o.K {
		case "create", "addbal", "touch", "subbal", "subzero", "setbal", "setnonce", "setcode", "setstate", "suicide":
			// a setter on an object that cannot mark itself dirty: what it changes
			// (content, self-destruct, removal at the next Finalise) may never be
			// flushed, and that outlives the object's later return to the dirty set
			// (re-creation, revert of a re-creation). The label stays for the lifetime.
			if r.m.poison[o.A] {
				r.m.poisonSticky[o.A] = true
			}
		}
		var ev events
		target := -1
		full := false
		clause := "state_read_wrong"
		switch o.K {
		case "create":
			st.CreateAccount(ad)
			ev = r.m.apply(o, r.cs, nil)
			target = o.A
		case "addbal", "touch":
			st.AddBalance(ad, o.big())
			ev = r.m.apply(o, r.cs, nil)
			target = o.A
			if o.K == "touch" {
				c.Count("zero_value_credit")
			}
		case "subbal", "subzero":
			if x := r.m.w.acc[o.A]; o.K == "subbal" && (x == nil || x.bal.Cmp(o.big()) < 0) {
				c.Count("op_skipped_insufficient_balance")
				continue
			}
			st.SubBalance(ad, o.big())
			ev = r.m.apply(o, r.cs, nil)
			target = o.A
		case "setbal":
			st.SetBalance(ad, o.big())
			ev = r.m.apply(o, r.cs, nil)
			target = o.A
		case "setnonce":
			st.SetNonce(ad, o.U)
			ev = r.m.apply(o, r.cs, nil)
			target = o.A
		case "setcode":
			st.SetCode(ad, unhx(o.V))
			ev = r.m.apply(o, r.cs, nil)
			target = o.A
		case "setstate":
			st.SetState(ad, r.slots[o.S], common.BytesToHash(unhx(o.V)))
			ev = r.m.apply(o, r.cs, nil)
			target = o.A
			if ev.clearedStorage {
				c.Count("storage_slot_cleared")
			}
			if ev.leadingZeroValue {
				c.Count("storage_value_with_leading_zeros")
			}
		case "suicide":
			got := st.Suicide(ad)
			ev = r.m.apply(o, r.cs, nil)
			if got != ev.suicideExpect {
				r.violate("state_read_wrong", o.K, "suicide_result:"+r.diag(st, r.m, o.A), fmt.Sprintf("Suicide(#%d) = %v, model %v", o.A, got, ev.suicideExpect))
				return
			}
			if got {
				c.Count("self_destruct")
			}
			target = o.A
		case "log":
			var topics []common.Hash
			for j := 0; j < o.N; j++ {
				var t common.Hash
				t[0], t[31] = byte(j+1), byte(o.A)
				topics = append(topics, t)
			}
			st.AddLog(&types.Log{Address: ad, Topics: topics, Data: unhx(o.V)})
			ev = r.m.apply(o, r.cs, nil)
			c.Count("log_added")
		case "refund":
			st.AddRefund(o.U)
			ev = r.m.apply(o, r.cs, nil)
		case "preimage":
			p := unhx(o.V)
			st.AddPreimage(common.BytesToHash(refhash.Keccak256(p)), p)
		case "prepare":
			st.Prepare(txHash(o.N), r.bhash, o.N)
			r.m.apply(o, r.cs, nil)
		case "snap":
			r.ids = append(r.ids, st.Snapshot())
			r.m.apply(o, r.cs, nil)
			if len(r.ids) >= 4 {
				c.Count("snapshot_nesting_ge4")
			}
		case "revert":
			st.RevertToSnapshot(r.ids[o.N])
			r.ids = r.ids[:o.N]
			ev = r.m.apply(o, r.cs, nil)
			c.Count("revert")
			if ev.revertChanged {
				c.Count("revert_undid_changes")
				r.sawRevertChange = true
			}
			if ev.revertDepth >= 4 && ev.revertLevels >= 2 {
				c.Count("revert_nested_depth_ge4")
			}
			if ev.revertAcrossSuicideRecreated {
				c.Count("revert_across_suicide_of_recreated")
			}
			if ev.revertToClearedSlot {
				c.Count("revert_to_pending_clear_of_trie_slot")
			}
			clause = "revert_not_exact"
			full = r.cs.Mode != "sparse" || i%2 == 0
		case "finalise":
			r.pre = r.infos(st)
			r.noteRewritten(r.m, o.D)
			st.Finalise(o.D)
			ev = r.finaliseModel(st, r.m, o)
			r.ids = nil
			c.Count("finalise_mid_sequence")
			r.sawMidFinalise = true
			clause = "finalise_wrong"
		case "iroot":
			r.pre = r.infos(st)
			r.noteRewritten(r.m, o.D)
			root := st.IntermediateRoot(o.D)
			ev = r.finaliseModel(st, r.m, o)
			r.ids = nil
			c.Count("intermediate_root_mid_sequence")
			r.sawMidFinalise = true
			// existence first: a wrong removal decision is a clearer witness than the root
			if !r.checkAll(st, r.m, "finalise_wrong", o.K) {
				return
			}
			if !r.checkRoot(st, r.m, root, o.K) {
				return
			}
		case "commit":
			r.pre = r.infos(st)
			r.noteRewritten(r.m, o.D)
			root, err := st.Commit(o.D)
			if err != nil {
				r.violate("commit_error", o.K, "", err.Error())
				return
			}
			ev = r.finaliseModel(st, r.m, o)
			c.Count("commit")
			if !r.checkAll(st, r.m, "finalise_wrong", o.K) {
				return
			}
			if !r.checkRoot(st, r.m, root, o.K) {
				return
			}
			r.roots = append(r.roots, committed{root, r.m.w.clone(), r.sdb, r.m.clone()})
			r.pre = nil
			if !r.reopen(root, o.M) {
				return
			}
			r.checkFrozen("after_commit")
		case "copy":
			cp := st.Copy()
			c.Count("copy_mid_period")
			if jl, _ := st.VerifC09JournalLen(); jl > 0 {
				c.Count("copy_with_pending_journal")
			}
			cm := r.m.clone()
			cm.snaps = nil
			for a, v := range cm.poison {
				if v {
					cm.poisonSticky[a] = true
				}
			}
			cm.poison = map[int]bool{}
			r.m.apply(o, r.cs, nil)
			r.pre = r.infos(st) // a difference is explained by the original's bookkeeping
			if !r.checkAll(cp, cm, "copy_reads_differ", o.K) {
				return
			}
			r.pre = nil
			if o.N == 1 {
				// continue on the copy; the original is set aside
				r.pushFrozen(frozen{st: st, m: r.m, label: "original"})
				r.st, r.m, r.ids = cp, cm, nil
				if cm.curTx >= 0 {
					cp.Prepare(txHash(cm.curTx), r.bhash, cm.curTx)
				}
			} else {
				r.pushFrozen(frozen{st: cp, m: cm, label: "copy"})
			}
		case "check":
			full = true
		}
		if ev.wroteAfterRevTouchSamePeriod {
			c.Count("touch_revert_write_same_period")
		}
		if ev.wroteAfterRevTouchLater {
			c.Count("touch_revert_write_later_period")
		}
		if r.failed {
			return
		}
		if o.K == "finalise" && r.cs.Mode != "sparse" {
			if !r.checkAll(r.st, r.m, clause, o.K) {
				return
			}
			full = false
		}
		r.pre = nil
		r.refreshPoison()
		if r.cs.Mode == "dense" {
			full = true
		}
		switch {
		case full:
			r.checkAll(r.st, r.m, clause, o.K)
		case target >= 0 && r.cs.Mode == "medium":
			if r.checkAddr(r.st, r.m, target, clause, o.K) {
				r.checkMisc(r.st, r.m, clause, o.K)
			}
		}
	}
}

func (r *runner) pushFrozen(f frozen) {
	if len(r.frozen) >= 4 {
		r.frozen = r.frozen[1:]
	}
	r.frozen = append(r.frozen, f)
}

// checkFrozen: a state set aside at a Copy must still read as it did then.
func (r *runner) checkFrozen(when string) {
	for i := range r.frozen {
		f := &r.frozen[i]
		if r.failed {
			return
		}
		if f.fresh {
			// a twin opened by the commit in progress stays unread until the
			// continuing handle has flushed something
			f.fresh = false
			continue
		}
		if f.label == "twin" {
			r.c.Count("reopen_twin_rechecked")
			r.checkAll(f.st, f.m, "reopened_state_not_independent", "twin_"+when)
			continue
		}
		r.c.Count("copy_independence_checked")
		r.checkAll(f.st, f.m, "copy_not_independent", "copy_"+f.label+"_"+when)
	}
}

// finish runs the end-of-case oracles: the states set aside at copies, every
// earlier committed root, and the history-independence rebuild.
func (r *runner) finish(rnd *fw.Rand) {
	if r.failed {
		return
	}
	r.checkFrozen("at_end")
	for _, f := range r.frozen {
		if r.failed {
			return
		}
		// the case's own flag (a different one would mix flags on one object)
		o := op{K: "iroot", D: r.cs.Policy != "false"}
		r.pre = r.infos(f.st)
		r.noteRewritten(f.m, o.D)
		root := f.st.IntermediateRoot(o.D)
		fst := f.st
		f.m.apply(&o, r.cs, func(a int) bool { return fst.Exist(r.addrs[a]) })
		if !r.checkAll(f.st, f.m, "finalise_wrong", "copy_"+f.label+"_final_root") {
			return
		}
		want := refRoot(f.m.w, r.cs)
		r.c.Count("root_compared")
		if !bytes.Equal(root[:], want) {
			cause, det := r.rootCause(f.st, f.m)
			r.violate("root_not_function_of_content", "copy_"+f.label+"_final_root", cause, fmt.Sprintf("root of the state set aside at Copy %x, reference %x; %s", root, want, det))
			return
		}
		r.pre = nil
	}
	r.pre = nil
	// every committed root of the case still opens to the content it committed to
	if len(r.roots) > 1 {
		k := rnd.Intn(len(r.roots) - 1)
		cm := r.roots[k]
		if err := cm.sdb.TrieDB().Commit(cm.root, false); err == nil {
			st, err := state.New(cm.root, state.NewDatabase(r.disk))
			if err != nil {
				r.violate("reopened_state_differs", "reopen_old_root", "open_error", err.Error())
				return
			}
			om := newModel()
			om.w = cm.w.clone()
			om.w.logs = nil
			om.poisonSticky, om.rewritten = cm.lab.poisonSticky, cm.lab.rewritten
			for a, v := range cm.lab.poison {
				if v {
					om.poisonSticky[a] = true
				}
			}
			r.c.Count("reopen_old_root")
			if !r.checkAll(st, om, "reopened_state_differs", "reopen_old_root") {
				return
			}
			if !r.checkDump(st, om.w, cm.root[:], "reopen_old_root") {
				return
			}
		}
	}
	r.rebuild(rnd)
	r.postCommitProbe()
}

// rebuild reaches the final content by an unrelated history on a fresh database
// and demands the same root (history independence, real against real and
// against the reference).
func (r *runner) rebuild(rnd *fw.Rand) {
	if len(r.roots) == 0 {
		return
	}
	final := r.roots[len(r.roots)-1]
	w := final.w
	st, err := state.New(common.Hash{}, state.NewDatabase(aquadb.NewMemDatabase()))
	if err != nil {
		panic(err)
	}
	type step func()
	var steps []step
	junk := common.BytesToAddress(refhash.Keccak256([]byte("junk"))[:20])
	noise := func() {
		id := st.Snapshot()
		a := r.addrs[rnd.Intn(len(r.addrs))]
		switch rnd.Intn(5) {
		case 0:
			st.SetBalance(a, big.NewInt(int64(rnd.Range(1, 1<<30))))
		case 1:
			st.SetState(a, r.slots[rnd.Intn(len(r.slots))], common.BytesToHash(rnd.Bytes(32)))
		case 2:
			st.SetCode(a, rnd.Bytes(7))
		case 3:
			st.SetNonce(junk, 9)
			st.SetState(junk, r.slots[0], common.BytesToHash(rnd.Bytes(32)))
		default:
			st.AddLog(&types.Log{Address: a})
			st.AddRefund(5)
		}
		st.RevertToSnapshot(id)
	}
	for a, x := range w.acc {
		ad, x := r.addrs[a], x
		steps = append(steps, func() {
			// a wrong value first, then the right one in two parts
			st.SetBalance(ad, big.NewInt(77))
			half := new(big.Int).Rsh(x.bal, 1)
			st.SetBalance(ad, half)
			st.AddBalance(ad, new(big.Int).Sub(x.bal, half))
		})
		if x.nonce != 0 {
			steps = append(steps, func() { st.SetNonce(ad, x.nonce) })
		}
		if len(x.code) > 0 {
			steps = append(steps, func() { st.SetCode(ad, append([]byte{}, x.code...)) })
		}
		for s, v := range x.stor {
			sl, v := r.slots[s], v
			steps = append(steps, func() {
				if rnd.Bool() {
					st.SetState(ad, sl, common.BytesToHash(rnd.Bytes(32)))
				}
				st.SetState(ad, sl, common.Hash(v))
			})
		}
		// a slot written and cleared again leaves nothing
		if _, used := x.stor[0]; !used {
			steps = append(steps, func() {
				st.SetState(ad, r.slots[0], common.BytesToHash([]byte{1}))
				st.SetState(ad, r.slots[0], common.Hash{})
			})
		}
	}
	// an account that lives and dies inside the history
	steps = append(steps, func() {
		st.SetBalance(junk, big.NewInt(5))
		st.SetState(junk, r.slots[0], common.BytesToHash([]byte{9}))
		st.Suicide(junk)
	})
	for _, i := range rnd.Perm(len(steps)) {
		steps[i]()
		if rnd.Chance(1, 3) {
			noise()
		}
		if rnd.Chance(1, 8) {
			st.IntermediateRoot(false)
		}
	}
	root, err := st.Commit(false)
	if err != nil {
		r.violate("commit_error", "rebuild", "", err.Error())
		return
	}
	r.c.Count("history_independence_compared")
	if root != final.root {
		r.violate("root_depends_on_history", "rebuild", "", fmt.Sprintf("content reached by the case history has root %x, the same content built directly has root %x (reference %x)", final.root, root, refRoot(w, r.cs)))
	}
}

// postCommitProbe records (never judges) what a write to the very object that
// was committed does: no caller in the node does this.
func (r *runner) postCommitProbe() {
	if r.failed || len(r.roots) == 0 {
		return
	}
	st, err := state.New(r.roots[len(r.roots)-1].root, r.sdb)
	if err != nil {
		return
	}
	a := r.addrs[1]
	st.SetBalance(a, big.NewInt(1))
	if _, err := st.Commit(false); err != nil {
		return
	}
	st.SetBalance(a, big.NewInt(2))
	root, err := st.Commit(false)
	if err != nil {
		return
	}
	st2, err := state.New(root, r.sdb)
	if err != nil {
		return
	}
	if st2.GetBalance(a).Cmp(big.NewInt(2)) == 0 {
		r.c.Count("obs_write_to_committed_object_kept")
	} else {
		r.c.Count("obs_write_to_committed_object_lost")
	}
}

var _ = reftrie.EmptyRoot
