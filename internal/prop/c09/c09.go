// Package c09: state snapshots revert exactly and the state root commits to
// content only.
//
// Monitor: a reference world state made of plain Go maps, where a snapshot is a
// deep copy, runs beside the real *state.StateDB on generated histories of
// create / add / sub / set balance / zero-value credit / set nonce / set code /
// set and clear storage / self-destruct / log / refund / snapshot / revert to any
// live snapshot / Finalise and IntermediateRoot with and without empty-account
// deletion / Commit / Copy / reopen (same caching database, fresh caching
// database over the flushed disk, Reset, Copy of the committed state).
//
// Oracles: every getter of every account of the universe, the refund counter and
// the log list against the model (after every operation, or after reverts and
// at synchronisation points, depending on the case's read density); every
// IntermediateRoot/Commit root against the yellow-paper root of the model content
// computed by internal/ref/reftrie; reopened states and copies read back and
// RawDump to the model; a state set aside at a Copy keeps reading as it did; an
// earlier committed root still opens to its content; a second, unread handle
// opened on the same root from the same caching database stays alive while the
// case continues and must keep reading (and hashing) as the committed content; the final content rebuilt
// by an unrelated history on a fresh database has the same root.
//
// The only place where the model follows the implementation is the fate, at a
// Finalise(true), of an empty account that a setter was called on earlier in the
// object's lifetime while no operation on it is in effect in the current period
// (e.g. the write was reverted): the property text does not fix it, so the real
// answer is adopted and counted (obs_empty_account_fate_adopted).
//
// Verdicts use the public API only. The read-only hook core/state/c09_verif.go
// (build tag verif) is used to name causes: the cause string of a violation is
// "<field or leaf difference>:<bookkeeping of the object>[:label]" where the
// bookkeeping is one of object_not_cached / object_clean / object_dirty /
// object_modified_but_not_dirty / deleted_object[_still_dirty] and the labels are
// poisoned_by_reverted_touch (the object, or its ancestor across Copy/Commit, was
// observed cached, not dirty and without its mark-dirty callback after a reverted
// zero-value credit) and rewritten_after_deletion (the object had been removed as
// empty, was still in the dirty set, and a Finalise/Commit without the deletion
// flag ran). A case stops at its first violation.
package c09

import (
	"bytes"
	"encoding/hex"
	"fmt"
	"os"
	"time"

	"gitlab.com/aquachain/aquachain/common/log"
	"verif/internal/fw"
)

func init() {
	fw.Register(&fw.Prop{
		ID:    "C09",
		Title: "State snapshots revert exactly and the state root commits to content only",
		Level: "exploration",
		Rule: "cases are PRNG histories (a prelude that commits a contract with storage, an EOA, an empty-but-existing account, a code-only account and a funded precompile-range address, then 30-100 random operations plus one forced template instance chosen by case index from a 20-slot schedule, ~60-160 operations in all) " +
			"over 6 addresses and 3-4 storage slots; operations: create, add/sub/set balance, zero-value credit, set nonce, set code, set/clear storage, self-destruct, log, refund, snapshot, revert to any live snapshot, Finalise/IntermediateRoot/Commit with a per-case flag policy (never / always / mixed empty-account deletion), Copy (continuing on either side), reopen (same db, fresh db, Reset, Copy). " +
			"A case is non-trivial when a revert undid at least one change, a Finalise or IntermediateRoot happened mid-sequence, the case crossed a commit+reopen, and its final content has >= 2 accounts; distinct = hash of the operation list.",
		Legs: func(tier string) []fw.Leg {
			// generous watchdog: its firing is inconclusive, never a verdict
			return []fw.Leg{{Name: "hist", Variant: "plain", Batches: 16, Timeout: 90 * time.Minute}}
		},
		Run: run,
		Gate: func(tier string) map[string]int {
			return map[string]int{
				"revert_across_suicide_of_recreated":   50,
				"touch_revert_write_same_period":       50,
				"revert_nested_depth_ge4":              50,
				"revert_undid_changes":                 1000,
				"finalise_mid_sequence":                500,
				"intermediate_root_mid_sequence":       1000,
				"root_compared":                        5000,
				"account_reads_compared":               100000,
				"reopen_same":                          300,
				"reopen_fresh":                         1000,
				"reopen_reset":                         300,
				"copy_after_commit":                    300,
				"copy_mid_period":                      300,
				"copy_independence_checked":            300,
				"history_independence_compared":        500,
				"rawdump_compared":                     1000,
				"self_destruct":                        1000,
				"suicided_account_deleted_by_finalise": 300,
				"empty_account_deleted_by_finalise":    300,
				"storage_slot_cleared":                 300,
				"storage_value_with_leading_zeros":     300,
				"zero_value_credit":                    1000,
				"log_added":                            500,
				"reference_selftest_passed":            16,
			}
		},
		AnchorFiles: []string{"/core/state/"},
		Assumptions: []string{
			"reference root = yellow-paper secure trie over keccak(address) -> rlp[nonce, balance, storageRoot, codeHash], storage trie keccak(slot) -> rlp(value without leading zeros), computed by internal/ref/reftrie + refrlp + x/crypto Keccak; self-tested at start against the three-account root of core/state/state_test.go TestDump",
			"CreateAccount over an existing account keeps its balance and resets nonce, code and storage (the documented contract of StateDB.CreateAccount); any setter on an absent account creates it; Suicide zeroes the balance and the account exists until the next Finalise/Commit",
			"Finalise(true)/Commit(true) must remove an empty account when a state-changing operation on it is in effect in the current period, must keep an empty account no setter was ever called on through this state object, and may do either otherwise (adopted from the implementation, counted)",
			"after Commit a case continues on a reopened or copied state (as every caller in the node does); writing to the committed object itself is only recorded (obs_write_to_committed_object_*), never judged",
			"address 0x03 is not in the universe: journal.go deliberately special-cases the revert of its touch",
			"hash-preimage resolution of RawDump keys is not content: a dump with an unresolved key is counted (obs_dump_key_preimage_missing) and not compared",
		},
	})
}

// selfTest checks the reference root against the vector of the repository's own
// TestDump (three accounts).
func selfTest() error {
	cs := &caseInput{Addrs: []string{
		"0000000000000000000000000000000000000001",
		"0000000000000000000000000000000000000002",
		"0000000000000000000000000000000000000102",
	}, Slots: []string{hx(make([]byte, 32))}}
	w := newWorld()
	w.acc[0] = newAcct()
	w.acc[0].bal.SetInt64(22)
	w.acc[1] = newAcct()
	w.acc[1].bal.SetInt64(44)
	w.acc[2] = newAcct()
	w.acc[2].code = []byte{3, 3, 3, 3, 3, 3, 3}
	want, _ := hex.DecodeString("71edff0130dd2385947095001c73d9e28d862fc286fca2b922ca6f6f3cddfdd2")
	if got := refRoot(w, cs); !bytes.Equal(got, want) {
		return fmt.Errorf("reference state root %x, vector %x", got, want)
	}
	return nil
}

func run(c *fw.Ctx) {
	log.Root().SetHandler(log.DiscardHandler())
	if err := selfTest(); err != nil {
		fmt.Fprintln(os.Stderr, "C09 reference self-test failed:", err)
		os.Exit(2)
	}
	c.Count("reference_selftest_passed")
	n := c.Pick(250, 12500) // per batch; x16 batches
	for i := 0; i < n; i++ {
		rnd := c.Rand("hist", fmt.Sprint(i))
		cs := genCase(rnd, i)
		id := fmt.Sprintf("hist-%d", i)
		c.Case(id, cs, func() {
			r := newRunner(c, cs)
			r.exec()
			r.finish(c.Rand("finish", fmt.Sprint(i)))
			c.Count("policy_" + cs.Policy)
			c.Count("reads_" + cs.Mode)
			if r.failed {
				c.Count("case_stopped_at_violation")
				return
			}
			final := 0
			if len(r.roots) > 0 {
				final = len(r.roots[len(r.roots)-1].w.acc)
			}
			if r.sawRevertChange && r.sawMidFinalise && r.sawReopen && final >= 2 {
				c.Nontrivial(fmt.Sprint(cs.Ops))
			}
			if i < 2 {
				k := len(cs.Ops)
				if k > 40 {
					k = 40
				}
				c.Sample(map[string]interface{}{"case": id, "addrs": cs.Addrs, "slots": cs.Slots, "reads": cs.Mode, "flag_policy": cs.Policy,
					"template": cs.Tmpl, "n_ops": len(cs.Ops), "first_ops": cs.Ops[:k], "commits": len(r.roots), "final_accounts": final})
			}
		})
	}
}
