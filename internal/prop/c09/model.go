package c09

import (
	"bytes"
	"math/big"
	"sort"

	"verif/internal/ref/refhash"
	"verif/internal/ref/refrlp"
	"verif/internal/ref/reftrie"
)

// The reference world state: plain maps; a snapshot is a deep copy, so revert
// is exact by construction. Accounts and slots are identified by their index in
// the case's universe.

type macct struct {
	nonce    uint64
	bal      *big.Int
	code     []byte
	stor     map[int][32]byte // non-zero values only
	suicided bool
}

func newAcct() *macct { return &macct{bal: new(big.Int), stor: map[int][32]byte{}} }

func (x *macct) empty() bool { return x.nonce == 0 && x.bal.Sign() == 0 && len(x.code) == 0 }

func (x *macct) clone() *macct {
	y := &macct{nonce: x.nonce, bal: new(big.Int).Set(x.bal), code: append([]byte{}, x.code...), stor: make(map[int][32]byte, len(x.stor)), suicided: x.suicided}
	for k, v := range x.stor {
		y.stor[k] = v
	}
	return y
}

func (x *macct) equal(y *macct) bool {
	if x.nonce != y.nonce || x.bal.Cmp(y.bal) != 0 || !bytes.Equal(x.code, y.code) || x.suicided != y.suicided || len(x.stor) != len(y.stor) {
		return false
	}
	for k, v := range x.stor {
		if y.stor[k] != v {
			return false
		}
	}
	return true
}

type mlog struct {
	a      int
	topics [][32]byte
	data   []byte
	tx     int
	index  uint
}

type world struct {
	acc    map[int]*macct
	refund uint64
	logs   []mlog
	// bookkeeping that a revert must also restore (not content):
	touched    map[int]bool // a state-changing operation on the address is in effect in this finalise period
	touchCount map[int]int  // zero-value credits of an empty account in effect in this finalise period
	cleanTouch map[int]int  // ... of those, the ones that hit an account no setter had been called on before
	recreated  map[int]bool // the account was created over an existing/destroyed predecessor in this lifetime
}

func newWorld() *world {
	return &world{acc: map[int]*macct{}, touched: map[int]bool{}, touchCount: map[int]int{}, cleanTouch: map[int]int{}, recreated: map[int]bool{}}
}

func (w *world) clone() *world {
	n := newWorld()
	for a, x := range w.acc {
		n.acc[a] = x.clone()
	}
	n.refund = w.refund
	n.logs = append([]mlog{}, w.logs...)
	for a, v := range w.touched {
		n.touched[a] = v
	}
	for a, v := range w.touchCount {
		n.touchCount[a] = v
	}
	for a, v := range w.cleanTouch {
		n.cleanTouch[a] = v
	}
	for a, v := range w.recreated {
		n.recreated[a] = v
	}
	return n
}

// sameContent compares account content, refund and logs (what a revert must
// restore).
func (w *world) sameContent(o *world) bool {
	if len(w.acc) != len(o.acc) || w.refund != o.refund || len(w.logs) != len(o.logs) {
		return false
	}
	for a, x := range w.acc {
		y := o.acc[a]
		if y == nil || !x.equal(y) {
			return false
		}
	}
	return true
}

type model struct {
	w     *world
	snaps []*world
	// maybeDirty: some setter was called on the address since the state object
	// was opened (reverted or not). An empty account with maybeDirty but without
	// an operation in effect in the current period is the only place where the
	// property text does not fix whether Finalise(true) removes it.
	maybeDirty map[int]bool
	// poison: the cached object of the address currently can no longer mark itself
	// dirty (observed through the read-only hook after each operation: cached, not
	// dirty, dirty callback consumed). poisonSticky: that was so when this state was
	// taken by Copy from its parent. Both are used only to label causes.
	poison       map[int]bool
	poisonSticky map[int]bool
	// rewritten: the object of the address had been removed as empty by a
	// Finalise(true) and was still in the dirty set when a Finalise/Commit without
	// the deletion flag ran (observed through the hook). Label only.
	rewritten map[int]bool
	// flushedNZ: slots that were non-zero when the account trie was last flushed
	// (Finalise/Commit), i.e. non-zero in the storage trie. Coverage only.
	flushedNZ map[[2]int]bool
	// revTouchPeriod / revTouchLife: the reverted credit hit an account no setter
	// had been called on before (the situation of hypothesis F5), in the current
	// finalise period / in this object's lifetime. Used for the observation gate.
	revTouchPeriod map[int]bool
	revTouchLife   map[int]bool
	curTx          int
}

func newModel() *model {
	return &model{w: newWorld(), maybeDirty: map[int]bool{}, poison: map[int]bool{}, poisonSticky: map[int]bool{}, rewritten: map[int]bool{}, flushedNZ: map[[2]int]bool{}, revTouchPeriod: map[int]bool{}, revTouchLife: map[int]bool{}, curTx: -1}
}

func (m *model) clone() *model {
	n := &model{w: m.w.clone(), maybeDirty: map[int]bool{}, poison: map[int]bool{}, poisonSticky: map[int]bool{}, rewritten: map[int]bool{}, flushedNZ: map[[2]int]bool{}, revTouchPeriod: map[int]bool{}, revTouchLife: map[int]bool{}, curTx: m.curTx}
	for _, s := range m.snaps {
		n.snaps = append(n.snaps, s.clone())
	}
	for a, v := range m.maybeDirty {
		n.maybeDirty[a] = v
	}
	for a, v := range m.poison {
		n.poison[a] = v
	}
	for a, v := range m.poisonSticky {
		n.poisonSticky[a] = v
	}
	for a, v := range m.rewritten {
		n.rewritten[a] = v
	}
	for k, v := range m.flushedNZ {
		n.flushedNZ[k] = v
	}
	for a, v := range m.revTouchPeriod {
		n.revTouchPeriod[a] = v
	}
	for a, v := range m.revTouchLife {
		n.revTouchLife[a] = v
	}
	return n
}

func (m *model) mark(a int) {
	m.w.touched[a] = true
	m.maybeDirty[a] = true
}

func (m *model) getOrNew(a int) *macct {
	x := m.w.acc[a]
	if x == nil {
		x = newAcct()
		m.w.acc[a] = x
		m.mark(a)
	}
	return x
}

// events reported by apply for the observation counters
type events struct {
	wroteAfterRevTouchSamePeriod bool
	wroteAfterRevTouchLater      bool
	revertAcrossSuicideRecreated bool
	revertChanged                bool
	revertDepth                  int  // live snapshots before the revert
	revertLevels                 int  // snapshots discarded
	revertToClearedSlot          bool // the revert restored a pending clear of a slot that is non-zero in the trie
	suicideExpect                bool
	ambiguous                    []int // adopted decisions at a finalise
	deletedEmpty                 int
	deletedSuicided              int
	clearedStorage               bool
	leadingZeroValue             bool
}

func (m *model) noteWrite(a int, ev *events) {
	if m.revTouchPeriod[a] {
		ev.wroteAfterRevTouchSamePeriod = true
	} else if m.revTouchLife[a] {
		ev.wroteAfterRevTouchLater = true
	}
}

// apply executes one state operation on the model. adopt is consulted by
// finalise for the ambiguous empty accounts (true = the account is kept).
func (m *model) apply(o *op, cs *caseInput, adopt func(a int) bool) events {
	var ev events
	w := m.w
	switch o.K {
	case "create":
		prev := w.acc[o.A]
		n := newAcct()
		if prev != nil {
			n.bal = new(big.Int).Set(prev.bal)
			w.recreated[o.A] = true
		}
		w.acc[o.A] = n
		m.mark(o.A)
		for k := range m.flushedNZ {
			if k[0] == o.A {
				delete(m.flushedNZ, k)
			}
		}
	case "addbal", "touch":
		_, existed := w.acc[o.A]
		wasDirty := m.maybeDirty[o.A]
		x := m.getOrNew(o.A)
		m.maybeDirty[o.A] = true
		v := o.big()
		if v.Sign() == 0 {
			if x.empty() {
				if existed {
					m.noteWrite(o.A, &ev)
				}
				w.touched[o.A] = true
				w.touchCount[o.A]++
				if existed && !wasDirty {
					w.cleanTouch[o.A]++
				}
			}
			break
		}
		m.noteWrite(o.A, &ev)
		x.bal = new(big.Int).Add(x.bal, v)
		m.mark(o.A)
	case "subbal", "subzero":
		x := m.getOrNew(o.A)
		m.maybeDirty[o.A] = true
		v := o.big()
		if v.Sign() == 0 {
			break
		}
		m.noteWrite(o.A, &ev)
		x.bal = new(big.Int).Sub(x.bal, v)
		m.mark(o.A)
	case "setbal":
		x := m.getOrNew(o.A)
		m.noteWrite(o.A, &ev)
		x.bal = o.big()
		m.mark(o.A)
	case "setnonce":
		x := m.getOrNew(o.A)
		m.noteWrite(o.A, &ev)
		x.nonce = o.U
		m.mark(o.A)
	case "setcode":
		x := m.getOrNew(o.A)
		m.noteWrite(o.A, &ev)
		x.code = unhx(o.V)
		m.mark(o.A)
	case "setstate":
		x := m.getOrNew(o.A)
		m.noteWrite(o.A, &ev)
		var v [32]byte
		copy(v[:], unhx(o.V))
		if v == ([32]byte{}) {
			if _, had := x.stor[o.S]; had {
				ev.clearedStorage = true
			}
			delete(x.stor, o.S)
		} else {
			if v[0] == 0 {
				ev.leadingZeroValue = true
			}
			x.stor[o.S] = v
		}
		m.mark(o.A)
	case "suicide":
		x := w.acc[o.A]
		if x == nil {
			ev.suicideExpect = false
			break
		}
		ev.suicideExpect = true
		m.noteWrite(o.A, &ev)
		x.suicided = true
		x.bal = new(big.Int)
		m.mark(o.A)
	case "log":
		var topics [][32]byte
		for i := 0; i < o.N; i++ {
			var t [32]byte
			t[0], t[31] = byte(i+1), byte(o.A)
			topics = append(topics, t)
		}
		w.logs = append(w.logs, mlog{a: o.A, topics: topics, data: unhx(o.V), tx: m.curTx, index: uint(len(w.logs))})
	case "refund":
		w.refund += o.U
	case "preimage":
	case "prepare":
		m.curTx = o.N
	case "copy":
		if o.N == 1 {
			m.snaps = nil // the case continues on the copy, which has no undo log
		}
	case "snap":
		m.snaps = append(m.snaps, w.clone())
	case "revert":
		old := w
		ev.revertDepth = len(m.snaps)
		ev.revertLevels = len(m.snaps) - o.N
		m.w = m.snaps[o.N]
		m.snaps = m.snaps[:o.N]
		ev.revertChanged = !old.sameContent(m.w)
		for a, n := range old.cleanTouch {
			if n > m.w.cleanTouch[a] {
				m.revTouchPeriod[a] = true
				m.revTouchLife[a] = true
			}
		}
		for k := range m.flushedNZ {
			x, y := old.acc[k[0]], m.w.acc[k[0]]
			if x != nil && y != nil {
				_, now := x.stor[k[1]]
				_, then := y.stor[k[1]]
				if now && !then {
					ev.revertToClearedSlot = true
				}
			}
		}
		for a, x := range old.acc {
			y := m.w.acc[a]
			if x.suicided && y != nil && !y.suicided && m.w.recreated[a] {
				ev.revertAcrossSuicideRecreated = true
			}
		}
	case "finalise", "iroot", "commit":
		m.finalise(o.D, adopt, &ev)
	}
	return ev
}

func (m *model) finalise(del bool, adopt func(a int) bool, ev *events) {
	w := m.w
	var ids []int
	for a := range w.acc {
		ids = append(ids, a)
	}
	sort.Ints(ids)
	for _, a := range ids {
		x := w.acc[a]
		switch {
		case x.suicided:
			delete(w.acc, a)
			w.recreated[a] = true // whatever appears here next is a re-creation
			ev.deletedSuicided++
		case del && x.empty():
			switch {
			case w.touched[a]:
				delete(w.acc, a)
				ev.deletedEmpty++
			case !m.maybeDirty[a]:
				// never written through this state object: must stay
			default:
				ev.ambiguous = append(ev.ambiguous, a)
				if adopt == nil || !adopt(a) {
					delete(w.acc, a)
				}
			}
		}
	}
	m.flushedNZ = map[[2]int]bool{}
	for a, x := range w.acc {
		for sl := range x.stor {
			m.flushedNZ[[2]int{a, sl}] = true
		}
	}
	w.touched = map[int]bool{}
	w.touchCount = map[int]int{}
	w.cleanTouch = map[int]int{}
	m.revTouchPeriod = map[int]bool{}
	w.refund = 0
	m.snaps = nil
}

// clearLabels forgets the cause labels of the previous state object.
func (m *model) clearLabels() {
	m.poison = map[int]bool{}
	m.poisonSticky = map[int]bool{}
	m.rewritten = map[int]bool{}
}

// reopened resets what belongs to one state object's lifetime (the cause labels
// are kept until the reopened state has been compared: see clearLabels).
func (m *model) reopened(keepLogs bool) {
	m.maybeDirty = map[int]bool{}
	for a, v := range m.poison {
		if v {
			m.poisonSticky[a] = true
		}
	}
	m.poison = map[int]bool{}
	m.revTouchPeriod = map[int]bool{}
	m.revTouchLife = map[int]bool{}
	m.w.recreated = map[int]bool{}
	m.snaps = nil
	if !keepLogs {
		m.w.logs = nil
	}
}

// ---------------------------------------------------------------------------
// reference encodings and root

func trimZeros(b []byte) []byte {
	for len(b) > 0 && b[0] == 0 {
		b = b[1:]
	}
	return b
}

func storageRoot(x *macct, cs *caseInput) []byte {
	content := map[string][]byte{}
	for s, v := range x.stor {
		content[string(refhash.Keccak256(unhx(cs.Slots[s])))] = refrlp.Encode(refrlp.S(trimZeros(v[:])))
	}
	return reftrie.Root(content)
}

func acctLeaf(x *macct, cs *caseInput) []byte {
	return refrlp.Encode(refrlp.L(refrlp.U(x.nonce), refrlp.B(x.bal), refrlp.S(storageRoot(x, cs)), refrlp.S(refhash.Keccak256(x.code))))
}

// refRoot is the state root the specification defines for the content of w:
// secure account trie over keccak(address) -> rlp[nonce, balance, storageRoot, codeHash].
func refRoot(w *world, cs *caseInput) []byte {
	content := map[string][]byte{}
	for a, x := range w.acc {
		content[string(refhash.Keccak256(unhx(cs.Addrs[a])))] = acctLeaf(x, cs)
	}
	return reftrie.Root(content)
}
