#!/usr/bin/env python3
"""Rewrites section 9.5 of DESIGN.md from seeded/*/meta.json."""
import subprocess, os, re
root = os.path.dirname(os.path.dirname(os.path.abspath(__file__)))
tbl = subprocess.run(['python3', os.path.join(root, 'tools', 'seeded_table.py')], capture_output=True, text=True).stdout
rows = [l for l in tbl.splitlines() if l.startswith('| C')]
det = sum(1 for l in rows if '| yes |' in l)
sec = f'''### 9.5 Seeded changes: which checks catch which

Two rounds of independently seeded changes (fresh sub-agents given only a property's text and their own
scratch worktree; each change compiles, keeps the existing tests passing and needs something specific to
manifest). Every change below was confirmed by hand in a scratch worktree (demonstration fails with the
patch, passes without) and then run against the check of its property with
`tools/mutcheck.sh CNN seeded/CNN-m/patch.diff` (quick tier, evidence redirected). Files: `seeded/CNN-m/`
(`patch.diff`, demonstration, `meta.json`). **{det} of {len(rows)} are detected by the final checks.** Changes
that were missed at first and are caught now are marked in §9.4 (the strengthening they triggered); the
table shows the final state.

{tbl}
Detection that depends on the host: C14-D is seen in the quick tier only through the `taskset`-pinned
grandchildren (16 CPUs divide the 512-item test dataset); without `taskset` only the thorough tier's real
epoch-0 dataset comparison sees it. C01-D is reported as `builder_failed` (the harness's own
`GenerateChain`-based builder loses the code before any replica runs), not through the restart oracle.
'''
p = os.path.join(root, 'DESIGN.md')
s = open(p).read()
if '### 9.5 Seeded changes' in s:
    s = re.sub(r'### 9\.5 Seeded changes.*?(?=\n### 9\.6|\Z)', sec, s, flags=re.S)
else:
    s = s.rstrip('\n') + '\n\n' + sec
open(p, 'w').write(s)
print(det, len(rows))
