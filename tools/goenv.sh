# sourced by every script: offline Go toolchain env that builds /repo (go 1.24.0)
export GOFLAGS=-mod=mod GOPROXY=off GOSUMDB=off GOTOOLCHAIN=local GONOSUMCHECK=1 GONOSUMDB='*' GOFLAGS=-mod=mod
_mc="$(/usr/bin/go env GOMODCACHE 2>/dev/null || echo /root/go/pkg/mod)"
if [ -x "$_mc/golang.org/toolchain@v0.0.1-go1.24.0.linux-amd64/bin/go" ]; then
  VGO="$_mc/golang.org/toolchain@v0.0.1-go1.24.0.linux-amd64/bin/go"
elif command -v go1.26.8 >/dev/null 2>&1; then
  VGO="$(command -v go1.26.8)"
else
  VGO=go
fi
export VGO
