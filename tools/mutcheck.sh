#!/bin/bash
# tools/mutcheck.sh CNN PATCH [tier]   run the check of one property against a scratch
# worktree of /repo HEAD with PATCH applied; evidence/replays go to a scratch dir.
# Prints the verdict lines; exit code is the check's.
set -u
id="$1"; patch="$(readlink -f "$2")"; tier="${3:-quick}"
lc=$(echo "$id" | tr A-Z a-z)
tag="$lc-$$"
wt=/tmp/mc-wt-$tag; out=/tmp/mc-out-$tag; bin=/tmp/mc-bin-$tag   # per run: concurrent runs on one property must not share binaries
git -C /repo worktree add --detach "$wt" HEAD -q || exit 3
# untracked hook files of /repo (new tagged files not yet committed)
(cd /repo && git ls-files --others --exclude-standard | grep '\.go$' | while read f; do mkdir -p "$wt/$(dirname $f)"; cp "$f" "$wt/$f"; done)
if ! git -C "$wt" apply "$patch"; then echo "PATCH-DOES-NOT-APPLY"; git -C /repo worktree remove --force "$wt"; exit 3; fi
mkdir -p "$out"
cd "$(dirname "$0")/.."
VERIF_REPO="$wt" VERIF_BIN="$bin" VERIF_ONLY="$lc" VERIF_OUT="$out" ./check "$id" --tier "$tier" > "$out/run.txt" 2>&1
rc=$?
grep -aE "^(VIOLATION|KNOWN-FINDING|HARNESS-PROBLEM|BUILD-FAILED|C[0-9][0-9]:|  clause=)" "$out/run.txt" | cut -c1-260 | head -12
echo "exit=$rc out=$out"
git -C /repo worktree remove --force "$wt"
rm -rf "$bin"
exit $rc
