#!/usr/bin/env python3
"""Prints the markdown table of filed seeded changes (seeded/CNN-m/meta.json)."""
import json, glob, os
root = os.path.dirname(os.path.dirname(os.path.abspath(__file__)))
print("| id | seeded change | needs | detected by the check | first signatures |")
print("|---|---|---|---|---|")
for d in sorted(glob.glob(os.path.join(root, 'seeded', 'C[0-9][0-9]-*'))):
    try:
        m = json.load(open(os.path.join(d, 'meta.json')))
    except Exception:
        continue
    c = m.get('check', {})
    sig = '; '.join('`%s`' % s for s in (c.get('signatures') or [])[:2])
    def cell(s, n):
        s = (s or '').replace('|', '\\|').replace('\n', ' ')
        return s[:n] + ('…' if len(s) > n else '')
    print("| %s | %s | %s | %s | %s |" % (os.path.basename(d), cell(m.get('title'), 150), cell(m.get('needs') if isinstance(m.get('needs'), str) else json.dumps(m.get('needs')), 170),
          'yes' if c.get('detected') else '**no**', sig.replace('|', '\\|')))
