#!/usr/bin/env python3
"""tools/seeded_sweep.py [CNN-m ...] : run tools/mutcheck.sh for every filed seeded change
(seeded/CNN-m/patch.diff), update its meta.json 'check' block and print a table.
Runs J at a time (env SWEEP_JOBS, default 2)."""
import json, os, re, subprocess, sys, glob, concurrent.futures as cf
root = os.path.dirname(os.path.dirname(os.path.abspath(__file__)))
os.chdir(root)
names = sys.argv[1:] or sorted(os.path.basename(d) for d in glob.glob('seeded/C[0-9][0-9]-*'))
def run(name):
    prop = name.split('-')[0]
    patch = f'seeded/{name}/patch.diff'
    p = subprocess.run(['nice', '-n', '10', 'tools/mutcheck.sh', prop, patch], capture_output=True, text=True)
    out = p.stdout + p.stderr
    sigs = re.findall(r'clause=(\S+) op=(\S+) cause=(.*?) ?count=', out)
    m = re.search(r'exit=(\d+) out=(\S+)', out)
    code = int(m.group(1)) if m else p.returncode
    if m:
        subprocess.run(['rm', '-rf', m.group(2)])
    mp = f'seeded/{name}/meta.json'
    meta = json.load(open(mp))
    meta['check'] = {'cmd': f'tools/mutcheck.sh {prop} {patch}', 'exit': code, 'detected': code == 1,
                     'signatures': sorted({'|'.join(s) for s in sigs})[:12]}
    json.dump(meta, open(mp, 'w'), indent=1)
    return name, code, meta['check']['detected'], meta['check']['signatures'][:2]
with cf.ThreadPoolExecutor(int(os.environ.get('SWEEP_JOBS', '2'))) as ex:
    for name, code, det, sigs in ex.map(run, names):
        print(f'{name}\texit={code}\t{"DETECTED" if det else "MISSED"}\t{"; ".join(sigs)}', flush=True)
