#!/bin/bash
# tools/final_sweep.sh SEED [props...]  - quick tier of every (or the given) property at one seed;
# seeds other than 1 write evidence/replays to a scratch dir so the committed evidence stays from seed 1.
cd "$(dirname "$0")/.."
seed="$1"; shift
props="$@"; [ -z "$props" ] && props="C01 C02 C03 C04 C05 C06 C07 C08 C09 C10 C11 C12 C13 C14 C15 C16 C17 C18 C19 C20"
out=""
[ "$seed" != 1 ] && { out=/tmp/final-sweep-out-$seed; mkdir -p $out; }
for p in $props; do
  start=$(date +%s)
  if [ -n "$out" ]; then res=$(VERIF_SEED=$seed VERIF_OUT=$out ./check $p 2>&1); rc=$?; else res=$(VERIF_SEED=$seed ./check $p 2>&1); rc=$?; fi
  echo "$p seed=$seed exit=$rc $(( $(date +%s)-start ))s :: $(echo "$res" | grep -aE "^(VIOLATION|HARNESS-PROBLEM|BUILD-FAILED|  clause=)" | head -4 | cut -c1-200 | tr '\n' ' ')"
done
