#!/bin/bash
# tools/build.sh [variant ...]   variants: plain race intpool (default: all)
# Builds $VERIF_BIN/vcheck-<variant> (default .bin/) from /verif sources and the
# repository's current working tree (module replace => /repo), hooks on (-tags verif).
# A no-op when nothing changed (Go build cache).
# VERIF_REPO=<dir> builds against another checkout (scratch worktrees with seeded
# changes) through a temporary -modfile; registered checks never set it.
set -e
cd "$(dirname "$0")/.."
. tools/goenv.sh
BIN="${VERIF_BIN:-.bin}"
mkdir -p "$BIN"
MODFLAG=""
if [ -n "$VERIF_REPO" ] && [ "$VERIF_REPO" != /repo ]; then
  mkdir -p "$BIN/mod"
  sed "s#=> /repo#=> $VERIF_REPO#" go.mod > "$BIN/mod/go.mod"
  cp go.sum "$BIN/mod/go.sum"
  MODFLAG="-modfile=$BIN/mod/go.mod"
fi
TAGS="verif"
# VERIF_ONLY=c10 links only that property package (isolates parallel development)
[ -n "$VERIF_ONLY" ] && TAGS="verif only only_$VERIF_ONLY"
[ $# -eq 0 ] && set -- plain race intpool
for v in "$@"; do
  case "$v" in
    plain)   $VGO build $MODFLAG -tags "$TAGS" -o "$BIN/vcheck-plain" ./cmd/vcheck ;;
    race)    $VGO build $MODFLAG -race -tags "$TAGS" -o "$BIN/vcheck-race" ./cmd/vcheck ;;
    intpool) $VGO build $MODFLAG -tags "$TAGS VERIFY_EVM_INTEGER_POOL" -o "$BIN/vcheck-intpool" ./cmd/vcheck ;;
    all)     "$0" plain race intpool ;;
    *) echo "unknown variant $v" >&2; exit 2 ;;
  esac
done
