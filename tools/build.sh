#!/bin/bash
# tools/build.sh [variant ...]   variants: plain race intpool (default: all)
# Builds .bin/vcheck-<variant> from /verif sources and /repo's current working tree
# (module replace => /repo), hooks on (-tags verif). A no-op when nothing changed.
set -e
cd "$(dirname "$0")/.."
. tools/goenv.sh
mkdir -p .bin
[ $# -eq 0 ] && set -- plain race intpool
for v in "$@"; do
  case "$v" in
    plain)   $VGO build -tags verif -o .bin/vcheck-plain ./cmd/vcheck ;;
    race)    $VGO build -race -tags verif -o .bin/vcheck-race ./cmd/vcheck ;;
    intpool) $VGO build -tags "verif VERIFY_EVM_INTEGER_POOL" -o .bin/vcheck-intpool ./cmd/vcheck ;;
    all)     "$0" plain race intpool ;;
    *) echo "unknown variant $v" >&2; exit 2 ;;
  esac
done
