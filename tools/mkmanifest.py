#!/usr/bin/env python3
"""Regenerates MANIFEST.json from tools/manifest_table.json (per-property text) —
keeps the manifest valid and the not_applicable list current."""
import json, os, subprocess
root = os.path.dirname(os.path.dirname(os.path.abspath(__file__)))
tbl = json.load(open(os.path.join(root, "tools", "manifest_table.json")))
props = [json.loads(l) for l in open(os.path.join(root, "properties.jsonl"))]
checks, na = [], []
for p in props:
    pid = p["id"]
    t = tbl["props"].get(pid)
    if not t or not t.get("claimed"):
        na.append({"property_id": pid, "reason": (t or {}).get("reason", "check not built yet; not claimed")})
        continue
    checks.append({
        "property_id": pid,
        "quick_cmd": "./check %s --tier quick" % pid,
        "thorough_cmd": "./check %s --tier thorough" % pid,
        "evidence_file": "/verif/evidence/%s.json" % pid,
        "replay_cmd_template": "./check --replay {path}",
        "engine": "vcheck",
        "level_claimed": {"category": t.get("level", "exploration"), "text": t["level_text"], "design_ref": "DESIGN.md §4 " + pid},
        "level_note": t["level_note"],
        "technique": t["technique"],
    })
hooks = tbl["hooks"]
try:
    out = subprocess.run(["git", "-C", "/repo", "log", "--format=%H %s"], capture_output=True, text=True).stdout
    hooks["source_commits"] = [l.split()[0] for l in out.splitlines() if l.split(" ", 1)[1].startswith("verif hook")]
except Exception:
    pass
m = {
    "version": 1,
    "setup_cmd": "tools/build.sh all",
    "hooks": hooks,
    "engines": [{"name": "vcheck", "path": "/verif/cmd/vcheck", "serves_properties": [c["property_id"] for c in checks],
                 "kind_free_text": "Go driver + child processes executing the real /repo code (module replace => /repo, -tags verif) under generated hostile workloads, with reference-model monitors, invariant checkers, offline history checkers (porcupine), fault-injecting databases and the Go race detector"}],
    "checks": checks,
    "notes": tbl.get("notes", ""),
    "not_applicable": na,
}
json.dump(m, open(os.path.join(root, "MANIFEST.json"), "w"), indent=1)
print("claimed:", [c["property_id"] for c in checks], "not claimed:", [n["property_id"] for n in na])
