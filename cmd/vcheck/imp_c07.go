//go:build !only || only_c07

package main

import _ "verif/internal/prop/c07"
