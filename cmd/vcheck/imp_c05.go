//go:build !only || only_c05

package main

import _ "verif/internal/prop/c05"
