//go:build !only || only_c18

package main

import _ "verif/internal/prop/c18"
