//go:build !only || only_c04

package main

import (
	"os"

	"verif/internal/prop/c04"
)

// Sub-command "c04fault IN OUT": one write-failure injection of property C04 in
// a process of its own (most failed chain-database writes end in os.Exit).
func init() {
	if len(os.Args) > 1 && os.Args[1] == "c04fault" {
		os.Exit(c04.FaultMain(os.Args[2:]))
	}
}
