//go:build !only || only_c12

package main

import _ "verif/internal/prop/c12"
