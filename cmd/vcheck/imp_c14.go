//go:build !only || only_c14

package main

import _ "verif/internal/prop/c14"
