// vcheck is both the driver (vcheck run CNN) and the child (vcheck child ...)
// of every runtime-monitoring check. Build variants: plain, race, intpool.
package main

import (
	"encoding/json"
	"fmt"
	"os"
	"strconv"
	"strings"

	"verif/internal/fw"
)

func usage() {
	fmt.Fprintln(os.Stderr, "usage: vcheck run CNN [--tier quick|thorough] | vcheck replay FILE | vcheck variants CNN TIER | vcheck list")
	os.Exit(2)
}

func envSeed() uint64 {
	if s := os.Getenv("VERIF_SEED"); s != "" {
		if v, err := strconv.ParseUint(s, 10, 64); err == nil {
			return v
		}
		if v, err := strconv.ParseInt(s, 10, 64); err == nil {
			return uint64(v)
		}
	}
	return 1
}

func main() {
	if len(os.Args) < 2 {
		usage()
	}
	switch os.Args[1] {
	case "list":
		for _, id := range fw.IDs() {
			fmt.Println(id)
		}
	case "variants":
		if len(os.Args) < 4 {
			usage()
		}
		p := fw.Lookup(os.Args[2])
		if p == nil {
			fmt.Fprintln(os.Stderr, "unknown property", os.Args[2])
			os.Exit(2)
		}
		seen := map[string]bool{}
		for _, l := range p.Legs(os.Args[3]) {
			if !seen[l.Variant] {
				seen[l.Variant] = true
				fmt.Println(l.Variant)
			}
		}
	case "run":
		if len(os.Args) < 3 {
			usage()
		}
		tier := os.Getenv("VERIF_TIER")
		for i := 3; i < len(os.Args); i++ {
			if os.Args[i] == "--tier" && i+1 < len(os.Args) {
				tier = os.Args[i+1]
				i++
			} else if strings.HasPrefix(os.Args[i], "--tier=") {
				tier = strings.TrimPrefix(os.Args[i], "--tier=")
			}
		}
		if tier != "thorough" {
			tier = "quick"
		}
		os.Exit(fw.RunDriver(os.Args[2], tier, envSeed(), nil))
	case "replay":
		if len(os.Args) < 3 {
			usage()
		}
		b, err := os.ReadFile(os.Args[2])
		if err != nil {
			fmt.Fprintln(os.Stderr, err)
			os.Exit(2)
		}
		var v fw.Violation
		if err := json.Unmarshal(b, &v); err != nil {
			fmt.Fprintln(os.Stderr, err)
			os.Exit(2)
		}
		os.Exit(fw.RunDriver(v.Property, v.Tier, v.Seed, &v))
	case "child":
		// child PROP LEG BATCH NBATCH TIER SEED DIR [ONLYCASE]
		if len(os.Args) < 9 {
			usage()
		}
		batch, _ := strconv.Atoi(os.Args[4])
		nb, _ := strconv.Atoi(os.Args[5])
		seed, _ := strconv.ParseUint(os.Args[7], 10, 64)
		only := ""
		if len(os.Args) > 9 {
			only = os.Args[9]
		}
		os.Exit(fw.RunChild(os.Args[2], os.Args[3], batch, nb, os.Args[6], seed, os.Args[8], only))
	default:
		usage()
	}
}
