//go:build !only || only_c17

package main

import _ "verif/internal/prop/c17"
