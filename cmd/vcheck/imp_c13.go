//go:build !only || only_c13

package main

import _ "verif/internal/prop/c13"
